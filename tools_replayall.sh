#!/bin/bash
# replays every pinned case of every property strictly (no search): prints the ones that do not behave as pinned
cd /verif
for d in replays/C*/; do ID=$(basename $d); for f in $d*.json; do [ -e "$f" ] || continue
  exp=$(python3 -c "import json;print(json.load(open('$f')).get('expect','pass'))")
  out=$(VF_NO_KNOWN=1 ./check $ID --replay $f 2>&1); rc=$?
  if [[ "$exp" == pass && $rc -ne 0 ]]; then echo "FAILS-BUT-EXPECT-PASS $f :: $(echo "$out" | grep -m1 signature)"; fi
  if [[ "$exp" == known:* && $rc -eq 0 ]]; then echo "HOLDS-BUT-EXPECT-KNOWN $f"; fi
  if [[ $rc -ge 2 ]]; then echo "HARNESS-ERROR $f :: $(echo "$out" | tail -1)"; fi
done; done
