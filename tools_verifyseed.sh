#!/bin/bash
# tools_verifyseed.sh <worktree> <seeddir-name> : confirm a seeded change in its scratch worktree:
# demo passes on clean tree, patch applies, suite unchanged, demo fails with patch. Leaves the worktree clean.
WT=$1; SD=$2
cd $WT || exit 9
git checkout -q -- . ; git clean -fq -- src/PseudoNetCDF/testcase
echo "== demo on clean tree"; PYTHONPATH=$WT/src /venv/bin/python -W ignore $SD/demo.py > /tmp/vs.$$.out 2>&1; echo "exit=$? $(tail -1 /tmp/vs.$$.out)"
git apply --check $SD/patch.diff || { echo "PATCH DOES NOT APPLY"; exit 8; }
git apply $SD/patch.diff
echo "== suite with patch"; PYTHONPATH=$WT/src /venv/bin/python -m pytest -q -p no:cacheprovider --timeout=900 src/PseudoNetCDF/test 2>&1 | grep -E "^FAILED|passed|failed" | sed 's/ - .*//' | sort > /tmp/vs.$$.suite; grep -E 'passed|failed' /tmp/vs.$$.suite | grep -v FAILED | tail -1; grep -c FAILED /tmp/vs.$$.suite
git clean -fq -- src/PseudoNetCDF/testcase
echo "== demo with patch"; PYTHONPATH=$WT/src /venv/bin/python -W ignore $SD/demo.py > /tmp/vs.$$.out 2>&1; echo "exit=$? $(tail -1 /tmp/vs.$$.out)"
git checkout -q -- .
git status --short | grep -v "^??" 
rm -f /tmp/vs.$$.out /tmp/vs.$$.suite
