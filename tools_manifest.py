#!/usr/bin/env python3
"""Regenerates MANIFEST.json from the table below (keeps it valid by
construction).  Run: python3 tools_manifest.py"""
import json

CHECKS = {}
NA = {}


def chk(pid, category, text, note, technique, design_ref):
    CHECKS[pid] = dict(
        property_id=pid,
        quick_cmd='./check %s --tier quick' % pid,
        thorough_cmd='./check %s --tier thorough' % pid,
        evidence_file='evidence/%s.json' % pid,
        replay_cmd_template='./check %s --replay {path}' % pid,
        engine='vf',
        level_claimed=dict(category=category, text=text,
                           design_ref=design_ref),
        level_note=note, technique=technique)


exec(open('manifest_table.py').read())

ALL = ['C%02d' % i for i in range(1, 21)]
man = dict(
    version=1,
    setup_cmd='./setup.sh',
    hooks=dict(
        guard='PSEUDONETCDF_VERIF',
        enable='no source hooks are needed: the checks import /repo/src '
               'directly (PYTHONPATH) and observe through public API and '
               'monkey-patching from the harness; the driver exports '
               'PSEUDONETCDF_VERIF=1, which nothing in /repo reads',
        baseline_off_cmd='cd /repo && /venv/bin/python -m pytest -ra -q -p '
                         'no:cacheprovider --timeout=900 '
                         '--continue-on-collection-errors; rc=$?; git -C '
                         '/repo clean -fq -- src/PseudoNetCDF/testcase; '
                         'exit $rc',
        source_commits=[], add_only=True),
    engines=[dict(name='vf', path='vf/runner.py',
                  serves_properties=sorted(CHECKS),
                  kind_free_text='Hypothesis-driven generated-input search '
                  '(16 seeded shards, collect-then-shrink, JSON replay '
                  'files), exhaustive enumeration of small finite '
                  'sub-domains, independent numpy/struct/cftime oracles')],
    checks=[CHECKS[k] for k in sorted(CHECKS)],
    not_applicable=[dict(property_id=k, reason=NA.get(
        k, 'check not built yet in this session; see DESIGN.md section 7 '
           'for the planned generator and oracle'))
        for k in ALL if k not in CHECKS],
    notes='See DESIGN.md.  known_findings.json lists fixed and known '
          'findings; replays/<ID>/ holds pinned regression cases.')
json.dump(man, open('MANIFEST.json', 'w'), indent=1)
print('checks:', sorted(CHECKS))
