#!/bin/bash
# MANIFEST.setup_cmd: offline, idempotent.  Installs what the checks import
# beside the repository's own packages; nothing is fetched from a network.
set -e
cd "$(dirname "$0")"
export PIP_NO_INDEX=1
WH=/opt/veriftools/wheels
if ! /venv/bin/python -c "import hypothesis" 2>/dev/null; then
    /venv/bin/pip install -q --no-index --find-links $WH hypothesis
fi
mkdir -p .deps
if ! PYTHONPATH=.deps /venv/bin/python -c "import jsonschema" 2>/dev/null; then
    /venv/bin/pip install -q --no-index --find-links $WH --target .deps jsonschema
fi
if ! PYTHONPATH=.deps /venv/bin/python -c "import atheris" 2>/dev/null; then
    /venv/bin/pip install -q --no-index --find-links $WH --target .deps atheris || true
fi
mkdir -p evidence replays
# self-test of the independent reference codecs against the repository samples
PYTHONHASHSEED=0 PYTHONPATH=/repo/src:/verif:/verif/.deps /venv/bin/python -m vf.selftest
echo "setup ok"
