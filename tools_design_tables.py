#!/usr/bin/env python3
"""Rewrites the region between the SEEDED-TABLE markers of DESIGN.md from
seeded/*/meta.json (which checks catch which independently seeded changes)."""
import glob, json, os, re
# outcome of the last complete sensitivity run (mutants/REPORT.md, last '## run' section)
final = {}
try:
    secs = open('mutants/REPORT.md').read().split('## run ')
    # from the last FULL run (pattern='') on; later partial re-runs override
    last_full = max(i for i, sec in enumerate(secs) if sec.strip() and "pattern=''" in sec.splitlines()[0])
    rep = []
    for sec in secs[last_full:]:
        rep += sec.splitlines()
    for ln in rep:
        mm = re.match(r'- (KILLED|SURVIVED)\s+(C\d\d) (\S+)(?: :: (.*))?', ln)
        if mm:
            final[mm.group(3)] = (mm.group(1), mm.group(2), (mm.group(4) or '').strip())
except Exception:
    pass
rows = []
for d in sorted(glob.glob('seeded/*/')):
    m = json.load(open(os.path.join(d, 'meta.json')))
    name = os.path.basename(d.rstrip('/'))
    conf = m.get('confirmed_by_integrator', '')
    missed = 'MISSED' in conf
    caught_after = '| after' in conf or 'caught after' in conf or 'caught by' in conf
    if 'NOT COVERED' in conf:
        status = 'not covered (outside the stated domain / documented assumption)'
    elif 'NOT A VIOLATION' in conf:
        status = 'not a violation under the documented accepted set'
    else:
      status = 'caught' if not missed else ('missed at first, caught after strengthening' if caught_after else 'missed at first')
    sigs = re.findall(r'exit 1 \(([^)]*)\)', conf)
    fin = final.get('seeded/' + name)
    fintxt = '' if fin is None else ('killed by %s' % fin[1] if fin[0] == 'KILLED' else 'SURVIVES %s' % fin[1])
    if fin is not None and fin[0] == 'SURVIVED' and 'caught by C' in conf:
        fintxt += ' (caught by another property\'s check, see meta.json)'
    rows.append((m.get('property', '?'), name, (m.get('title') or m.get('what_it_breaks', ''))[:150].replace('|', '/'),
                 (m.get('needs_to_manifest') or '')[:170].replace('|', '/').replace('\n', ' '), status, '; '.join(sigs)[:160].replace('|', '/'), fintxt))
out = ['| property | seeded change | what it does | needs to manifest | outcome when first run | failing clause(s) | final run (own property\'s quick check) |', '|---|---|---|---|---|---|---|']
for r in sorted(rows):
    out.append('| ' + ' | '.join(r) + ' |')
s = open('DESIGN.md').read()
a, b = '<!-- SEEDED-TABLE:BEGIN -->', '<!-- SEEDED-TABLE:END -->'
block = a + '\n' + '\n'.join(out) + '\n' + b
if a in s:
    s = re.sub(re.escape(a) + '.*?' + re.escape(b), lambda _: block, s, flags=re.S)
else:
    s += '\n## Appendix D — independently seeded changes and which checks catch them\n\n' \
         'Each change was written by a fresh sub-agent that saw only the property text and a scratch\n' \
         'worktree of the repository (nothing from /verif); it compiles, keeps the existing suite\n' \
         'unchanged, and comes with a demonstration that fails with it and passes without it.\n' \
         'Kept under `seeded/<name>/` (patch.diff, demo.py, meta.json).  "missed at first" entries\n' \
         'led to the strengthening named in their meta.json; all are re-run by\n' \
         '`mutants/run_mutants.sh`.\n\n' + block + '\n'
open('DESIGN.md', 'w').write(s)
print(len(rows), 'seeded changes')

# ---- findings appendix
kf = json.load(open('known_findings.json'))['findings']
lines = ['### Known findings (genuine defects recorded, not repaired)', '',
         'Each is identified by input class AND symptom (matcher registered next to the oracle in the',
         'property module; pinned reproducer `replays/<ID>/known-*.json`); any other violation of the same',
         'property is still reported.', '',
         '| id | property | what fails | why not repaired |', '|---|---|---|---|']
for e in kf:
    if e['status'] == 'known':
        lines.append('| %s | %s | %s | %s |' % (e['id'], e['property'], e['what'].replace('|', '/')[:400], (e.get('why_not_fixed') or '').replace('|', '/').replace('\n', ' ')[:400]))
lines += ['', '### Fixed findings (one `fix:` commit in /repo each; regression replays `replays/<ID>/fixed-*.json`)', '',
          '| id | property | commit | what failed |', '|---|---|---|---|']
for e in kf:
    if e['status'] == 'fixed':
        lines.append('| %s | %s | %s | %s |' % (e['id'], e['property'], e.get('commit', ''), e['what'].replace('|', '/')[:300]))
s = open('DESIGN.md').read()
a, b = '<!-- FINDINGS-TABLE:BEGIN -->', '<!-- FINDINGS-TABLE:END -->'
block = a + '\n' + '\n'.join(lines) + '\n' + b
if a in s:
    s = re.sub(re.escape(a) + '.*?' + re.escape(b), lambda _: block, s, flags=re.S)
else:
    s += '\n## Appendix E — findings on the unchanged tree (generated from known_findings.json)\n\n' + block + '\n'
open('DESIGN.md', 'w').write(s)
print(len(kf), 'findings')
