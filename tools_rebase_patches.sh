#!/bin/bash
# tools_rebase_patches.sh : make every mutants/*.patch and seeded/*/patch.diff apply cleanly
# (git apply, no fuzz) to /repo HEAD.  A patch that no longer applies is replayed on the most
# recent commit where it does and cherry-picked onto HEAD (3-way); the original is kept as
# *.orig.  Patches that conflict are listed in mutants/NOT_PORTABLE.txt (run_mutants skips none;
# they show up as exit=3).
cd /verif
WT=/tmp/rebase-wt
git -C /repo worktree remove --force $WT 2>/dev/null; rm -rf $WT
git -C /repo worktree add -q --detach $WT HEAD
HEAD=$(git -C /repo rev-parse HEAD)
: > mutants/NOT_PORTABLE.txt
for P in mutants/C*_*.patch seeded/*/patch.diff; do
  [ -e "$P" ] || continue
  AP=$(readlink -f $P)
  git -C $WT checkout -q --detach $HEAD; git -C $WT reset -q --hard; git -C $WT clean -fdq
  if git -C $WT apply --check "$AP" 2>/dev/null; then continue; fi
  BASE=""
  for C in $(git -C /repo rev-list HEAD); do
    git -C $WT checkout -q --detach $C
    if git -C $WT apply --check "$AP" 2>/dev/null; then BASE=$C; break; fi
  done
  if [ -z "$BASE" ]; then
    # last resort: fuzzy patch on HEAD
    git -C $WT checkout -q --detach $HEAD
    if (cd $WT && patch -s -p1 -F3 --no-backup-if-mismatch < "$AP") 2>/dev/null; then
      cp "$AP" "$AP.orig"; git -C $WT diff > "$AP"; echo "fuzz-rebased $P"
    else echo "NOT PORTABLE (no base) $P" | tee -a mutants/NOT_PORTABLE.txt; fi
    continue
  fi
  git -C $WT apply "$AP"; git -C $WT -c user.name=x -c user.email=x@x commit -qam tmp
  TMP=$(git -C $WT rev-parse HEAD)
  git -C $WT checkout -q --detach $HEAD
  if git -C $WT -c user.name=x -c user.email=x@x cherry-pick -n $TMP >/dev/null 2>&1; then
    cp "$AP" "$AP.orig"; git -C $WT diff --cached > "$AP"; echo "rebased $P (base $(echo $BASE | cut -c1-7))"
  else
    git -C $WT cherry-pick --abort 2>/dev/null; git -C $WT reset -q --hard
    echo "NOT PORTABLE (conflict) $P base $(echo $BASE | cut -c1-7)" | tee -a mutants/NOT_PORTABLE.txt
  fi
done
git -C /repo worktree remove --force $WT; git -C /repo worktree prune
