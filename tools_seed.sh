#!/bin/bash
# tools_seed.sh <ID>: create a scratch worktree of /repo for a seeding agent and print its prompt
ID=$1
WT=/tmp/wt-$ID
git -C /repo worktree remove --force $WT 2>/dev/null
rm -rf $WT
git -C /repo worktree add -q --detach $WT HEAD
python3 - "$ID" "$WT" <<'PY'
import json, sys
pid, wt = sys.argv[1], sys.argv[2]
for l in open('/verif/properties.jsonl'):
    p = json.loads(l)
    if p['id'] == pid:
        break
import glob, os
tried = []
for mf in sorted(glob.glob('/verif/seeded/*/meta.json')):
    m = json.load(open(mf))
    if m.get('property') == pid:
        tried.append('   - ' + (m.get('title') or m.get('what_it_breaks') or '')[:200])
avoid = ''
if tried:
    avoid = ('Earlier rounds already produced changes with the following ideas; yours must be DIFFERENT in root cause and in the part of the property they break (other operations, other clauses of the statement, other source files among the relevant ones where possible):\n' + '\n'.join(tried) + '\n\n')
print("""You are helping to evaluate a verification effort by seeding a realistic defect. You work ONLY inside the git worktree %(wt)s (a checkout of the Python library PseudoNetCDF, which exposes atmospheric-science file formats through a netCDF-like API). Do not read or touch /verif or /repo, and do not look for other worktrees. Interpreter: /venv/bin/python (numpy 2.5, netCDF4, cftime installed; no network, no pyproj). To import the worktree's code use PYTHONPATH=%(wt)s/src (check with: PYTHONPATH=%(wt)s/src /venv/bin/python -c "import PseudoNetCDF; print(PseudoNetCDF.__file__)").

The property under study (%(id)s: %(title)s):

  %(statement)s

  It is meant to hold %(qtext)s.
  Relevant source files: %(files)s

%(avoid)sYour task: produce TWO independent, realistic changes to the library source (each a separate small patch, different root causes, in code that the property depends on) such that with the change applied
  (1) the package still imports and the existing test suite still passes exactly as before: run `cd %(wt)s && PYTHONPATH=%(wt)s/src /venv/bin/python -m pytest -q -p no:cacheprovider --timeout=900 src/PseudoNetCDF/test 2>&1 | tail -15` before and after; on the unmodified worktree 8 tests fail (point_source x2, ProfileTest x2, test_pncopen x2, test_csv, testSonde) and 160 pass — the same set must pass/fail with your change (afterwards delete stray files the tests leave: `git -C %(wt)s clean -fq -- src/PseudoNetCDF/testcase`);
  (2) the property above is violated for SOME inputs / operation sequences, but NOT in a way ordinary use would expose at once: the violation should need something specific to manifest — an unusual but legitimate input (a particular combination of arguments, sizes, dtypes, dates, masks, orderings), a multi-step sequence of operations, a fault at a particular point, or two cooperating sites that each look fine alone. Think of plausible maintenance slips: an off-by-one at a boundary, a wrong axis for a rarely used rank, a dropped copy, a precedence swap, an optimisation that is wrong for an edge case, a refactoring that changes behaviour only for one branch. Not a blatant breakage (no `raise`, no returning garbage for every input).
For each change deliver in %(wt)s/seed1/ and %(wt)s/seed2/:
  - patch.diff : unified diff produced by `git -C %(wt)s diff` for that change alone (the worktree must be clean of the other change when you produce it; verify it applies with `git apply --check` on a clean tree)
  - demo.py : a small standalone program run as `PYTHONPATH=%(wt)s/src /venv/bin/python demo.py` that exits 0 and prints PASS on the unmodified code and exits 1 and prints FAIL with your change applied; it must check the property itself (compare against an independent expectation computed with numpy / plain Python), not an implementation detail
  - meta.json : {"property": "%(id)s", "title": "...", "what_it_breaks": "...", "needs_to_manifest": "...", "files_changed": [...], "ran": ["commands you ran and their outcome"]}
Do NOT use `git stash` (the stash is shared between worktrees of one repository and other agents work in sibling worktrees); to switch between the clean tree and your change use `git diff > file`, `git checkout -- .` and `git apply file`. Leave the worktree itself clean at the end (git -C %(wt)s checkout -- . ; only the untracked seed1/ seed2/ directories remain). Your final message: a short summary of both changes and confirmation of (1) and (2) with the observed outputs.""" % dict(
    wt=wt, avoid=avoid, id=p['id'], title=p['title'], statement=p['statement'], qtext=p['quantifier']['text'], files=', '.join(p['anchors']['files'])))
PY
