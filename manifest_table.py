# table consumed by tools_manifest.py
chk('C02', 'exploration',
    'Generated-input search: thousands of generated files x selector '
    'combinations compared element-for-element (bit equality, masks, '
    'attributes, dimension lengths) with an independent numpy per-axis '
    'selection; plus full enumeration of selector-kind combinations on a '
    'fixed 4-D file.  Search cannot establish absence; evidence reports the '
    'number of distinct non-trivial cases.',
    'numpy take/slice semantics are the trusted reference; files up to 5 '
    'dims of length <=5; empty index lists excluded.',
    'property-based testing (Hypothesis) against a numpy reference model + '
    'enumeration of selector-kind combinations',
    'DESIGN.md 7 C02')
