# table consumed by tools_manifest.py
chk('C02', 'exploration',
    'Generated-input search: thousands of generated files x selector '
    'combinations compared element-for-element (bit equality, masks, '
    'attributes, dimension lengths) with an independent numpy per-axis '
    'selection; plus full enumeration of selector-kind combinations on a '
    'fixed 4-D file.  Search cannot establish absence; evidence reports the '
    'number of distinct non-trivial cases.',
    'numpy take/slice semantics are the trusted reference; files up to 5 '
    'dims of length <=5 (plus enumerated selections on a 48x80x90 file whose '
    'results exceed 1 MiB); empty index lists and boolean masks excluded.',
    'property-based testing (Hypothesis) against a numpy reference model + '
    'enumeration of selector-kind combinations',
    'DESIGN.md 7 C02')
chk('C07', 'exploration',
    'Generated-input search: about a thousand (quick) / tens of thousands '
    '(thorough) generated files per run are saved in every netCDF flavour, '
    'with and without compression, reopened by auto-detection and by named '
    'format, and compared field by field with a numpy model that never '
    'passed through the library (bit equality of unmasked data, masks, '
    'dtypes, dimension order/flags, attribute kinds and values).',
    'libnetcdf/netCDF4-python are trusted to store what they are given; '
    'files are small (<=4 dims of length <=4); unlimited dimensions unused by '
    'any variable are not representable and not generated.',
    'property-based testing (Hypothesis), write/read round trip against an '
    'independent numpy model',
    'DESIGN.md 7 C07')
chk('C15', 'exploration',
    'Generated histories (1-12 opens) over a pool holding every '
    'self-describing format under suffix and neutral names; after every '
    'open the probe (reader class, dimensions, per-variable data digest) is '
    'compared with an empty-history reference taken in a fresh interpreter '
    '(fixed pool) or directly after restoring the registry (generated '
    'netCDF files); auto-detected vs explicitly named format compared for '
    'every file touched (reader class too where the last extension names a '
    'reader); "many" steps open one file 80 times under a descriptor '
    'budget; mid-session reader registration; rewritten paths.',
    'Histories are sampled (depth <=12); binary/text formats are represented '
    'by the repository samples (plus delimiter variants of the ICARTT sample '
    'and one reference-encoded uamiv/lateral_boundary file per case), netCDF '
    'and IOAPI content is generated; repetition is explored to 80 opens; state '
    'outside the reader registry that is not reset between cases would only '
    'be seen through the fresh-interpreter references.',
    'stateful property-based testing (Hypothesis-generated open histories) '
    'against empty-history references',
    'DESIGN.md 7 C15')
chk('C12', 'exploration',
    'Generated-input search over CF reference-date spellings x units x '
    'calendars x values and IOAPI time encodings, compared with exact '
    'rational/integer calendar arithmetic (vf/ref/caltime.py) and, for the '
    'fixed-length calendars, cross-checked against cftime on every case; '
    'inverses date2num/time2idx checked; thorough enumerates EVERY IOAPI '
    '(year 1970-2100, day, hour) start (exhaustive for that sub-domain). A '
    'raise of the decoder is a pass by the statement.',
    'stdlib datetime and cftime are trusted; reference dates 1900-2100; '
    'descending time axes are exercised under C16; one known finding '
    '(coordutil.gettimes ignores the calendar) is listed in '
    'known_findings.json.',
    'property-based testing (Hypothesis) against independent calendar '
    'arithmetic + exhaustive enumeration of IOAPI start dates/hours',
    'DESIGN.md 7 C12')
chk('C16', 'exploration',
    'Generated coordinates (both directions, uniform/non-uniform, three '
    'bounds representations, f8/f4/i4) x all method/bounds/clean/left/right '
    'options x queries at centres, edges, midpoints and 1 ulp either side, '
    'judged by a brute-force search over cells with stated accepted sets on '
    'ties; all small grids (n<=4) enumerated.',
    'IEEE double comparisons are the reference; queries within 1 ulp of a '
    'decision point may go to either neighbour (stated tolerance); masked '
    'coordinates not generated.',
    'property-based testing (Hypothesis) against a brute-force oracle + '
    'enumeration of small grids',
    'DESIGN.md 7 C16')
chk('C17', 'exploration',
    'Generated source/target coordinates and fields: algebraic laws of the '
    'weight matrix (non-negativity, column sums, linear exactness, identity) '
    'and agreement of interpDimension / coordkey form / sigma2coeff / '
    'interpSigma with an independent piecewise-linear and '
    'thickness-weighted reference, along every axis position of rank 1-4 '
    'variables.',
    'float64 with dyadic inputs, tolerance 1e-9 (1e-6 for conservative '
    'integrals as stated); masked fields and the bpch/gcnc copies of '
    'interpSigma not generated.',
    'property-based testing (Hypothesis): algebraic laws + independent '
    'reference interpolation',
    'DESIGN.md 7 C17')
chk('C18', 'exploration',
    'Generated bpch files (time blocks x categories x tracers, layer '
    'counts, nested offsets, tracerinfo/diaginfo tables, arbitrary REAL*4 '
    'bit patterns) are encoded by an independent struct-only codec, read by '
    'both library readers, rewritten and compared byte for byte / value for '
    'value; all (blocks, categories, tracers) counts in 1..3 enumerated.',
    'vf/ref/bpch_ref.py is the trusted reference (validated at setup against '
    'the repository sample and the literals of its tests); every category '
    'and tracer has a table row.',
    'property-based testing (Hypothesis) with an independent reference codec:'
    ' round trip + differential (bpch1 vs bpch2)',
    'DESIGN.md 7 C18')
chk('C19', 'exploration',
    'Generated 1-D time-series files written to ICARTT text, parsed by an '
    'independent line reader (declared vs actual header and column counts), '
    're-read by the library (names, order, units, missing codes, masks, '
    'values to 7 significant digits), re-opened by auto-detection, and put '
    'through a second write/read cycle that must change nothing.',
    'masked inputs carry fill_value == missing_value; single-line header '
    'attributes; LLOD/ULOD keywords not generated.',
    'property-based testing (Hypothesis): write/read round trip + '
    'independent text parser',
    'DESIGN.md 7 C19')
chk('C20', 'exploration',
    'Generated REAL*4 fields incl. adversarial constructions at power-of-two '
    'boundaries and carried half steps: every packed byte is compared with '
    'an independent re-computation of the ARL formula in unwrapped integers, '
    'the round-trip error with the bound of the recorded exponent, checksum '
    'and precision with the header; generated lat-lon ARL files are read by '
    'the library and the library writer output decoded by the reference.',
    'vf/ref/arl_ref.py (PAKOUT/PAKINP re-implemented with REAL*4 rounding, '
    'anchored on hand-computed examples; the repository ships no ARL '
    'sample); projected grids need pyproj (absent) and are not generated.',
    'property-based testing (Hypothesis) with an independent reference codec '
    '+ enumeration of carry constructions',
    'DESIGN.md 7 C20')
chk('C10', 'exploration',
    'Model-based generation of operation chains (copy, slice, subset, '
    'rename, apply, eval, mask, stack, interpSigma; quick <=6, thorough <=14 '
    'steps) on generated gridded and boundary IOAPI files from four '
    'construction routes; after every returning operation the '
    'self-describing metadata is compared with the content, and '
    'audit_meta(fail="ignore") is cross-checked as a second oracle.',
    'Operation sequences are sampled to the stated depth; a raising '
    'operation is counted, not judged (C10 is about metadata of results); '
    'projection-dependent paths need pyproj (absent).',
    'stateful property-based testing (Hypothesis interactive draws from the '
    'current model, journal replay) with an invariant oracle',
    'DESIGN.md 7 C10')
chk('C11', 'exploration',
    'Generated IOAPI files x windows (positive/negative int or unit-stride '
    'slice over any subset of ROW, COL, LAY, TSTEP, incl. day/year '
    'crossings and steps >= 24 h) judged by exact origin arithmetic, level '
    'sub-ranges and independent calendar arithmetic; every single window and '
    'pair of windows on a fixed year-crossing file is enumerated (thorough: '
    'the full product, exhaustive for that file).',
    'Origins/cell sizes are binary fractions so equality is exact; index '
    'lists and strides != 1 are outside the statement.',
    'property-based testing (Hypothesis) + exhaustive window enumeration on '
    'a fixed file',
    'DESIGN.md 7 C11')
chk('C03', 'exploration',
    'Generated files x non-empty dimension subsets x named reducers, '
    'length-changing callables (convolutions, diff, sub-sampling, cumsum), '
    'dictionary and string forms; every variable is compared with the same '
    'function applied per axis to the numpy/numpy.ma model (masks included), '
    'untouched variables bit-for-bit, dimension and coordinate lengths with '
    'the function\'s output length, commuting reducers across keyword orders.',
    'numpy.ma is the reference for masked reductions; rtol 1e-5 (f4) / 1e-12 '
    '(f8); integer results compared after the cast numpy applies on '
    'assignment; any order of single-axis application is accepted where the '
    'statement fixes none.',
    'property-based testing (Hypothesis) against a numpy.ma reference model '
    '+ metamorphic relation (keyword order)',
    'DESIGN.md 7 C03')
chk('C04', 'exploration',
    'Generated files split by the model into 1-4 consecutive pieces along '
    'any dimension, built as independent library files and stacked: '
    'concatenation in argument order (masks included), stack(split(f)) == f '
    'field by field, slice(stack) == piece; also independently generated '
    'conforming files; thorough adds stack_files / pncmfopen / '
    'open_mfdataset on saved netCDF pieces.',
    'Pieces have >= 1 element; the order of the dimension dictionary is not '
    'judged (C07 judges order); disk entries fall back to the in-memory '
    'method where netCDF cannot represent the piece.',
    'property-based testing (Hypothesis): metamorphic split/stack/slice '
    'relations against numpy concatenation',
    'DESIGN.md 7 C04')
chk('C06', 'exploration',
    'Generated pairs of conforming files x every operator, eval assignments '
    'from an expression grammar, and every subset of mask() predicates with '
    'thresholds drawn from the data, compared cell by cell (value and mask) '
    'with numpy.ma evaluation of the same expression; coordinate variables '
    'must pass through from the left operand.',
    'Cases where numpy itself raises are discarded or expected to raise; '
    'result dtype is not judged; one known finding (0-d eval mask lost via '
    'numpy MaskedConstant) is listed in known_findings.json.',
    'property-based testing (Hypothesis) against numpy.ma evaluation',
    'DESIGN.md 7 C06')
chk('C08', 'exploration',
    'Generated CAMx-convention files of every format (uamiv x4 NAMEs, '
    'lateral_boundary, landuse, wind, temperature, height_pressure, '
    'humidity, vertical_diffusivity, cloud_rain) with start dates weighted '
    'to day/year/century/leap roll-overs and arbitrary float32 bit '
    'patterns: read(write(f)) compared bit for bit (data, species order, '
    'TFLAG/ETFLAG, grid header) and write(read(write(f))) byte for byte.',
    'Whole-hour steps, dates 1970-2069; volatile attributes excluded; known '
    'findings of the wind memmap reader on 1x1 grids listed in '
    'known_findings.json.',
    'property-based testing (Hypothesis): write/read round trip + idempotent '
    'rewrite',
    'DESIGN.md 7 C08')
chk('C09', 'exploration',
    'Both directions against an independent struct-only codec written from '
    'the format description (vf/ref/fortran.py, vf/ref/camx_ref.py): library '
    'writer output must tile exactly into Fortran records with agreeing '
    'markers and decode to exactly the written names/times/values; reference '
    'encoder output must be read by the library as exactly the encoded '
    'content.  Catches symmetric writer+reader errors that C08 cannot.',
    'The reference codec is validated at setup against the nine repository '
    'samples and 16 literal arrays of the in-module tests; record-reader '
    'direction exercised for uamiv only (other formats under C13).',
    'property-based testing (Hypothesis), differential against an '
    'independent reference codec',
    'DESIGN.md 7 C09')
chk('C13', 'exploration',
    'Reference-encoded files of every format that has both reader families '
    'are opened by the memory-mapped and the record-based reader: shared '
    'dimension lengths, float data (after squeezing length-1 axes) and time '
    'flags must agree; an exception from one reader on a file the other and '
    'the reference decoder accept is a violation; non-termination is '
    'detected by deterministic iteration counters, not timeouts.',
    'Files both readers reject are counted, not judged; several genuine '
    'defects of the (deprecated) record readers are listed as known findings '
    'with narrow matchers.',
    'property-based testing (Hypothesis), differential between two '
    'implementations with a reference decoder as arbiter',
    'DESIGN.md 7 C13')
chk('C14', 'fault_enumeration',
    'For every generated small file (all CAMx formats) EVERY proper prefix '
    '(each byte offset) is opened and read completely: the outcome must be '
    'an exception or complete steps identical to the corresponding steps of '
    'the full file.  Cut points are exhausted per file (exhaustive: true per '
    'file); files are sampled; offsets are classified header / marker / '
    'mid-record / record boundary / step boundary.',
    'Files <= ~3 KB; two inherent format ambiguities (headerless met files '
    'cut inside the first step; cloud_rain 3/5 variables) are known '
    'findings; bpch is plugged in through the same plugin table.',
    'exhaustive fault enumeration over cut points of Hypothesis-generated '
    'files, reference codec as oracle',
    'DESIGN.md 7 C14')
chk('C01', 'exploration',
    'Model-based generation of operation chains (2-10 steps quick, 2-25 '
    'thorough) over the whole public transformation catalogue (copy, slice, '
    'apply, stack, subset, rename variable/dimension, insert/remove/reorder '
    'dimension, mask, eval, operators, interpDimension, interpSigma) on '
    'generic files from six construction routes (incl. disk-backed netCDF3/4 '
    'and character variables) and IOAPI files; arguments are drawn in-domain '
    'from the current model, a second family draws out-of-domain arguments. '
    'After every step every live file must be well-formed (dimension names '
    'exist, shapes equal dimension lengths, unlimited flags survive renames, '
    'IOAPI TSTEP unlimited, attributes retrievable); an in-domain operation '
    'that raises is a violation.',
    'Sequences are sampled to the stated depth; "in-domain" per operation is '
    'DESIGN Appendix C; one known finding (ioapi objects that lost the IOAPI '
    'layout) is listed in known_findings.json.',
    'stateful property-based testing (Hypothesis interactive draws from the '
    'current model, journal replay) with a structural invariant',
    'DESIGN.md 7 C01')
chk('C05', 'exploration',
    'Three generated families in one check: (a) every transformation and '
    'query (getTimes, val2idx, time2idx, date2num, repr/dump, save, '
    'getCoords) with deep snapshots of receiver and arguments before/after '
    'and write-protected input buffers; (b) sentinel overwrite of every '
    'variable of each result followed by re-comparison of the inputs; (c) '
    'histories of open / close (repeated) / drop-reference / gc.collect / '
    'read over several disk-backed netCDF files with the garbage collector '
    'under harness control - every handle the model says is open must read '
    'back its content.  A hard crash of a worker counts as a violation.',
    'The harness owns the GC schedule (automatic GC disabled per case); '
    'finalisers fired from other threads are not explored; (c) covers '
    'netCDF classic and netCDF4 handles.',
    'property-based testing (Hypothesis): snapshot/metamorphic isolation '
    'checks + stateful open/close/GC histories against a handle model',
    'DESIGN.md 7 C05')
