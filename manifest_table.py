# table consumed by tools_manifest.py
chk('C02', 'exploration',
    'Generated-input search: thousands of generated files x selector '
    'combinations compared element-for-element (bit equality, masks, '
    'attributes, dimension lengths) with an independent numpy per-axis '
    'selection; plus full enumeration of selector-kind combinations on a '
    'fixed 4-D file.  Search cannot establish absence; evidence reports the '
    'number of distinct non-trivial cases.',
    'numpy take/slice semantics are the trusted reference; files up to 5 '
    'dims of length <=5; empty index lists excluded.',
    'property-based testing (Hypothesis) against a numpy reference model + '
    'enumeration of selector-kind combinations',
    'DESIGN.md 7 C02')
chk('C07', 'exploration',
    'Generated-input search: about a thousand (quick) / tens of thousands '
    '(thorough) generated files per run are saved in every netCDF flavour, '
    'with and without compression, reopened by auto-detection and by named '
    'format, and compared field by field with a numpy model that never '
    'passed through the library (bit equality of unmasked data, masks, '
    'dtypes, dimension order/flags, attribute kinds and values).',
    'libnetcdf/netCDF4-python are trusted to store what they are given; '
    'files are small (<=4 dims of length <=4); unlimited dimensions unused by '
    'any variable are not representable and not generated.',
    'property-based testing (Hypothesis), write/read round trip against an '
    'independent numpy model',
    'DESIGN.md 7 C07')
chk('C15', 'exploration',
    'Generated histories (1-12 opens) over a pool holding every '
    'self-describing format under suffix and neutral names; after every '
    'open the probe (reader class, dimensions, per-variable data digest) is '
    'compared with an empty-history reference taken in a fresh interpreter '
    '(fixed pool) or directly after restoring the registry (generated '
    'netCDF files); auto-detected vs explicitly named format compared for '
    'every file touched.',
    'Histories are sampled (depth <=12); binary/text formats are represented '
    'by the repository samples, netCDF and IOAPI content is generated; state '
    'outside the reader registry that is not reset between cases would only '
    'be seen through the fresh-interpreter references.',
    'stateful property-based testing (Hypothesis-generated open histories) '
    'against empty-history references',
    'DESIGN.md 7 C15')
