#!/bin/bash
# tools_seedbatch.sh ID... : verify both seeds of each worktree /tmp/wt-ID and run the check against them
for ID in "$@"; do
  for s in seed1 seed2; do
    echo "######## $ID $s"
    /verif/tools_verifyseed.sh /tmp/wt-$ID $s 2>&1 | tr '\n' ' '; echo
    python3 -c "import json;m=json.load(open('/tmp/wt-$ID/$s/meta.json'));print('  title:',m.get('title'))"
    cd /verif && LINES_OUT=6 ./tools_runseed.sh /tmp/wt-$ID/$s/patch.diff $ID quick 2>&1 | tail -7
  done
done
