"""Access to the code under test: import check, registry snapshot/restore,
tree identification, disk-handle discipline (DESIGN R6, R7, R8b)."""
import gc
import hashlib
import os
import subprocess
import warnings

_REG = None


def repo_src():
    return os.environ.get('VF_REPO', '/repo/src')


def check_repo():
    """the library must be imported from the tree under test"""
    import PseudoNetCDF
    here = os.path.realpath(os.path.dirname(PseudoNetCDF.__file__))
    want = os.path.realpath(os.path.join(repo_src(), 'PseudoNetCDF'))
    if here != want:
        from .core import HarnessError
        raise HarnessError('PseudoNetCDF imported from %s, expected %s' %
                           (here, want))
    warnings.simplefilter('ignore')
    snapshot_registry()


def snapshot_registry():
    global _REG
    if _REG is None:
        import PseudoNetCDF  # noqa: registers all readers
        from PseudoNetCDF import _getreader
        _REG = list(_getreader._readers)


def reset():
    """top of every case: restore global registries"""
    if _REG is not None:
        from PseudoNetCDF import _getreader
        _getreader._readers[:] = _REG


def registry_len():
    from PseudoNetCDF import _getreader
    return len(_getreader._readers)


def tree_id():
    src = repo_src()
    top = os.path.dirname(src)
    try:
        head = subprocess.run(['git', '-C', top, 'rev-parse', 'HEAD'],
                              capture_output=True, text=True).stdout.strip()
        diff = subprocess.run(['git', '-C', top, 'diff', 'HEAD'],
                              capture_output=True).stdout
        return dict(path=src, head=head,
                    diff_sha1=hashlib.sha1(diff).hexdigest() if diff else None)
    except Exception as e:
        return dict(path=src, error=str(e))


def scratch():
    d = os.environ.get('VF_SCRATCH')
    if not d:
        import tempfile
        d = tempfile.mkdtemp(prefix='vf-')
        os.environ['VF_SCRATCH'] = d
    os.makedirs(d, exist_ok=True)
    return d


_counter = [0]


def scratch_path(suffix=''):
    _counter[0] += 1
    return os.path.join(scratch(), 'f%d_%d%s' % (os.getpid(), _counter[0],
                                                 suffix))


def release(*objs):
    """R8b: close, then collect while nothing else is open.  Callers must
    drop their own references afterwards (del)."""
    for o in objs:
        try:
            o.close()
        except Exception:
            pass
    del objs
    gc.collect()
