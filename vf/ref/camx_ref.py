"""Independent reference codecs for the CAMx binary formats.

Written from the layout table in DESIGN.md Appendix A and the Fortran
read/write statements quoted in the format docstrings (CAMx User's Guide):
every file is a sequence of big-endian Fortran unformatted records; the
record contents are listed per format below.  This module imports neither
PseudoNetCDF nor numpy; it shares no dtype, stride or helper with the
library.  Floating point payloads are kept as raw big-endian IEEE float32
byte strings so that every bit pattern survives.

"content" dictionaries (what decode returns / encode takes)
-----------------------------------------------------------
uamiv (AVERAGE, EMISSIONS, AIRQUALITY, INSTANT)::

  record 1 (304 bytes) name 10x(char+3 blanks), note 60x(char+3 blanks),
                       itzon i4, nspec i4, ibdate i4 (YYJJJ), btime f4 (hours),
                       iedate i4, etime f4
  record 2 (60)        plon plat f4, iutm i4, xorg yorg delx dely f4,
                       nx ny nz iproj istag i4, tlat1 tlat2 rdum f4
  record 3 (16)        1, 1, nx, ny
  record 4 (40*nspec)  species names 10x(char+3 blanks) each
  per time step:
    record (16)        ibdate i4, btime f4, iedate i4, etime f4
    for species, for layer:
      record (4+40+4*nx*ny)  ione i4, species name, ((c(i,j),i=1,nx),j=1,ny)

  {'fmt':'uamiv','name','note','itzon','nspec','ibdate','btime','iedate',
   'etime','plon','plat','iutm','xorg','yorg','delx','dely','nx','ny','nz',
   'iproj','istag','tlat1','tlat2','rdum','cell':[1,1,nx,ny],
   'species':[10-char names],
   'steps':[{'ibdate','btime','iedate','etime',
             'data':[[slab bytes per layer] per species],
             'ione':[[int per layer] per species]}]}

lateral_boundary: records 1-4 as uamiv, then four edge-definition records
  (W, E: (4*ny+3)*4 bytes; S, N: (4*nx+3)*4 bytes) = ione, iedge, ncell,
  (icell, idum, idum, idum) per cell; per step a 16-byte time record, then
  for species, for edge W, E, S, N a record (4+40+4+4*ncell*nz) = ione, name,
  iedge, ((c(k,i),k=1,nz),i=1,ncell).

one3d / humidity / vertical_diffusivity: per step, per layer a record
  (8+4*nx*ny) = time f4 (HHMM), date i4 (YYJJJ), ((v(i,j),i=1,nx),j=1,ny).
temperature: per step a surface record and then nz layer records, same shape.
height_pressure: per step, per layer a height record then a pressure record.
wind: per step a record (12: time, date, lstagger | 8: time, date), per layer
  a U record and a V record (4*nx*ny each, no time stamp), one 4-byte dummy.
cloud_rain: record (20+12) 20-char description, nx, ny, nz; per step a record
  (8) time, date; per layer, per variable (3: cloud precip cod | 5: cloud rain
  snow graupel cod) a record 4*nx*ny.
landuse: new style: record (8) key 'LUCATnn ' + record 4*nland*ny*nx, then
  optional pairs key (8) + 4*ny*nx; old style: the same without key records
  (11 land-use classes)."""
import struct

from . import fortran
from .fortran import FortranError  # noqa: re-export


class LayoutError(ValueError):
    """records are well formed but do not follow the format layout (sizes,
    counts, names, constants disagree)"""


# ------------------------------------------------------------------ helpers
def chars4(text, n):
    """n characters, each stored as the character followed by 3 blanks"""
    if len(text) > n:
        raise LayoutError('%r is longer than %d characters' % (text, n))
    text = text.ljust(n)
    return b''.join(ch.encode('latin-1') + b'   ' for ch in text)


def unchars4(raw, n, what):
    if len(raw) != 4 * n:
        raise LayoutError('%s: %d bytes, expected %d' % (what, len(raw),
                                                         4 * n))
    out = []
    for i in range(n):
        if raw[4 * i + 1:4 * i + 4] != b'   ':
            raise LayoutError('%s: character %d is not followed by 3 blanks '
                              '(%r)' % (what, i, raw[4 * i:4 * i + 4]))
        out.append(raw[4 * i:4 * i + 1].decode('latin-1'))
    return ''.join(out)


def _need(cond, msg, *a):
    if not cond:
        raise LayoutError(msg % a)


def yyjjj(year, jday):
    return (year % 100) * 1000 + jday


def expand_yyjjj(d, lo=1970):
    """two-digit-year julian date -> (year, jday) in the window lo..lo+99"""
    yy, jjj = divmod(int(d), 1000)
    _need(0 <= yy <= 99, 'date %d has no two-digit year', d)
    year = lo - lo % 100 + yy
    if year < lo:
        year += 100
    return year, jjj


# ------------------------------------------------------- uamiv-family header
_FILEHDR = '>iiifif'    # after name+note: itzon nspec ibdate btime iedate etime
_GRIDHDR = '>ffiffffiiiiifff'
_GRIDKEYS = ['plon', 'plat', 'iutm', 'xorg', 'yorg', 'delx', 'dely', 'nx',
             'ny', 'nz', 'iproj', 'istag', 'tlat1', 'tlat2', 'rdum']
_TIMEHDR = '>ifif'
_TIMEKEYS = ['ibdate', 'btime', 'iedate', 'etime']


def _enc_headers(c):
    nspec = len(c['species'])
    _need(c.get('nspec', nspec) == nspec, 'nspec %r != %d species',
          c.get('nspec'), nspec)
    r1 = chars4(c['name'], 10) + chars4(c['note'], 60) + struct.pack(
        _FILEHDR, c['itzon'], nspec, c['ibdate'], c['btime'], c['iedate'],
        c['etime'])
    r2 = struct.pack(_GRIDHDR, *[c[k] for k in _GRIDKEYS])
    cell = c.get('cell', [1, 1, c['nx'], c['ny']])
    r3 = struct.pack('>iiii', *cell)
    r4 = b''.join(chars4(s, 10) for s in c['species'])
    return [r1, r2, r3, r4]


def _dec_headers(recs, c):
    _need(len(recs) >= 4, 'only %d records, 4 header records expected',
          len(recs))
    r1, r2, r3, r4 = recs[:4]
    _need(len(r1) == 304, 'record 1 has %d bytes, expected 304', len(r1))
    c['name'] = unchars4(r1[:40], 10, 'file name')
    c['note'] = unchars4(r1[40:280], 60, 'note')
    (c['itzon'], c['nspec'], c['ibdate'], c['btime'], c['iedate'],
     c['etime']) = struct.unpack(_FILEHDR, r1[280:])
    _need(len(r2) == 60, 'record 2 has %d bytes, expected 60', len(r2))
    for k, v in zip(_GRIDKEYS, struct.unpack(_GRIDHDR, r2)):
        c[k] = v
    _need(len(r3) == 16, 'record 3 has %d bytes, expected 16', len(r3))
    c['cell'] = list(struct.unpack('>iiii', r3))
    _need(c['cell'][2:] == [c['nx'], c['ny']],
          'record 3 says nx, ny = %r, record 2 says %r', c['cell'][2:],
          [c['nx'], c['ny']])
    nspec = c['nspec']
    _need(nspec >= 0 and len(r4) == 40 * nspec,
          'record 4 has %d bytes, header nspec=%d needs %d', len(r4), nspec,
          40 * nspec)
    c['species'] = [unchars4(r4[40 * i:40 * i + 40], 10,
                             'species name %d' % i) for i in range(nspec)]
    _need(c['nx'] >= 1 and c['ny'] >= 1, 'nx, ny = %d, %d', c['nx'], c['ny'])
    return recs[4:]


# --------------------------------------------------------------------- uamiv
def encode_uamiv(c):
    recs = _enc_headers(c)
    nx, ny, nz = c['nx'], c['ny'], max(c['nz'], 1)
    for st in c['steps']:
        recs.append(struct.pack(_TIMEHDR, *[st[k] for k in _TIMEKEYS]))
        _need(len(st['data']) == len(c['species']), 'step has %d species',
              len(st['data']))
        for si, name in enumerate(c['species']):
            _need(len(st['data'][si]) == nz, 'species %d has %d layers', si,
                  len(st['data'][si]))
            for k in range(nz):
                slab = st['data'][si][k]
                _need(len(slab) == 4 * nx * ny, 'slab has %d bytes',
                      len(slab))
                ione = st['ione'][si][k] if 'ione' in st else 1
                recs.append(struct.pack('>i', ione) + chars4(name, 10) + slab)
    return fortran.records(recs)


def decode_uamiv(buf):
    recs = fortran.payloads(buf)
    c = {'fmt': 'uamiv'}
    rest = _dec_headers(recs, c)
    nx, ny, nz, nspec = c['nx'], c['ny'], max(c['nz'], 1), c['nspec']
    per = 1 + nspec * nz
    _need(len(rest) % per == 0, '%d records after the header are not a '
          'multiple of 1 + nspec*nz = %d', len(rest), per)
    want = 44 + 4 * nx * ny
    steps = []
    for t in range(len(rest) // per):
        blk = rest[t * per:(t + 1) * per]
        _need(len(blk[0]) == 16, 'step %d: time record has %d bytes', t,
              len(blk[0]))
        st = dict(zip(_TIMEKEYS, struct.unpack(_TIMEHDR, blk[0])))
        st['data'] = []
        st['ione'] = []
        i = 1
        for si in range(nspec):
            lay = []
            ones = []
            for k in range(nz):
                r = blk[i]
                i += 1
                _need(len(r) == want, 'step %d species %d layer %d: record '
                      'has %d bytes, 4+40+4*nx*ny = %d', t, si, k, len(r),
                      want)
                ones.append(struct.unpack('>i', r[:4])[0])
                nm = unchars4(r[4:44], 10, 'record species name')
                _need(nm == c['species'][si], 'step %d: record %d carries '
                      'species %r, header order says %r', t, i - 1, nm,
                      c['species'][si])
                lay.append(r[44:])
            st['data'].append(lay)
            st['ione'].append(ones)
        steps.append(st)
    c['steps'] = steps
    return c


# ---------------------------------------------------------- lateral_boundary
EDGES = ['WEST', 'EAST', 'SOUTH', 'NORTH']


def edge_ncell(c, ei):
    return c['ny'] if ei < 2 else c['nx']


def default_edges(nx, ny):
    """edge definition as CAMx preprocessors write it for a rectangular
    domain: first and last cell of an edge are corner cells (index 0), the
    others give the first modelled cell (2 on W/S, n-1 on E/N)"""
    out = []
    for ei in range(4):
        n = ny if ei < 2 else nx
        inner = [2, nx - 1, 2, ny - 1][ei]
        cells = []
        for i in range(n):
            corner = (i == 0 or i == n - 1)
            cells.append([0 if corner else inner, 0, 0, 0])
        out.append({'ione': 1, 'iedge': ei + 1, 'ncell': n, 'cells': cells})
    return out


def encode_lateral_boundary(c):
    recs = _enc_headers(c)
    nz = max(c['nz'], 1)
    for ei, e in enumerate(c['edges']):
        flat = [x for cell in e['cells'] for x in cell]
        recs.append(struct.pack('>%di' % (3 + len(flat)), e['ione'],
                                e['iedge'], e['ncell'], *flat))
    for st in c['steps']:
        recs.append(struct.pack(_TIMEHDR, *[st[k] for k in _TIMEKEYS]))
        for si, name in enumerate(c['species']):
            for ei in range(4):
                slab = st['data'][si][ei]
                _need(len(slab) == 4 * edge_ncell(c, ei) * nz,
                      'edge slab has %d bytes', len(slab))
                recs.append(struct.pack('>i', 1) + chars4(name, 10) +
                            struct.pack('>i', ei + 1) + slab)
    return fortran.records(recs)


def decode_lateral_boundary(buf):
    recs = fortran.payloads(buf)
    c = {'fmt': 'lateral_boundary'}
    rest = _dec_headers(recs, c)
    nz, nspec = max(c['nz'], 1), c['nspec']
    _need(len(rest) >= 4, 'edge definition records missing')
    c['edges'] = []
    for ei in range(4):
        r = rest[ei]
        n = edge_ncell(c, ei)
        _need(len(r) == (4 * n + 3) * 4, 'edge record %d has %d bytes, '
              '(4*ncell+3)*4 = %d', ei, len(r), (4 * n + 3) * 4)
        v = struct.unpack('>%di' % (4 * n + 3), r)
        _need(v[1] == ei + 1, 'edge record %d has iedge %d', ei, v[1])
        _need(v[2] == n, 'edge record %d has ncell %d, grid says %d', ei,
              v[2], n)
        c['edges'].append({'ione': v[0], 'iedge': v[1], 'ncell': v[2],
                           'cells': [list(v[3 + 4 * i:7 + 4 * i])
                                     for i in range(n)]})
    rest = rest[4:]
    per = 1 + 4 * nspec
    _need(len(rest) % per == 0, '%d records after the edge definitions are '
          'not a multiple of 1 + 4*nspec = %d', len(rest), per)
    steps = []
    for t in range(len(rest) // per):
        blk = rest[t * per:(t + 1) * per]
        _need(len(blk[0]) == 16, 'step %d: time record has %d bytes', t,
              len(blk[0]))
        st = dict(zip(_TIMEKEYS, struct.unpack(_TIMEHDR, blk[0])))
        st['data'] = []
        i = 1
        for si in range(nspec):
            per_edge = []
            for ei in range(4):
                r = blk[i]
                i += 1
                want = 48 + 4 * edge_ncell(c, ei) * nz
                _need(len(r) == want, 'step %d species %d edge %d: record '
                      'has %d bytes, expected %d', t, si, ei, len(r), want)
                nm = unchars4(r[4:44], 10, 'record species name')
                _need(nm == c['species'][si], 'step %d: record carries '
                      'species %r, header order says %r', t, nm,
                      c['species'][si])
                ie = struct.unpack('>i', r[44:48])[0]
                _need(ie == ei + 1, 'step %d species %d: edge index %d where '
                      '%d expected', t, si, ie, ei + 1)
                per_edge.append(r[48:])
            st['data'].append(per_edge)
        steps.append(st)
    c['steps'] = steps
    return c


# ------------------------------------------------- time-stamped met records
def _stamped(recs, what):
    """[(time, date, field bytes)]; all records one size 8+4*ncell"""
    _need(len(recs) >= 1, '%s: empty file', what)
    size = len(recs[0])
    _need(size >= 12 and size % 4 == 0, '%s: record size %d', what, size)
    out = []
    for i, r in enumerate(recs):
        _need(len(r) == size, '%s: record %d has %d bytes, first record has '
              '%d', what, i, len(r), size)
        t, d = struct.unpack('>fi', r[:8])
        out.append((t, d, r[8:]))
    return out, (size - 8) // 4


def _groups(stamped, per_step, what):
    """split [(t, d, field)] into steps.  per_step None: steps are maximal
    runs of equal (time, date)"""
    if per_step is None:
        runs = []
        for rec in stamped:
            if runs and runs[-1][0][:2] == rec[:2]:
                runs[-1].append(rec)
            else:
                runs.append([rec])
        n = len(runs[0])
        for r in runs:
            _need(len(r) == n, '%s: steps have %d and %d records', what, n,
                  len(r))
        return runs
    _need(len(stamped) % per_step == 0, '%s: %d records are not a multiple '
          'of %d per step', what, len(stamped), per_step)
    runs = [stamped[i:i + per_step]
            for i in range(0, len(stamped), per_step)]
    for r in runs:
        for rec in r:
            _need(rec[:2] == r[0][:2], '%s: records of one step carry '
                  'different time stamps %r %r', what, rec[:2], r[0][:2])
    return runs


def _chk_cells(ncell, nx, ny, what):
    if nx is not None and ny is not None:
        _need(ncell == nx * ny, '%s: records hold %d cells, nx*ny = %d',
              what, ncell, nx * ny)


def encode_one3d(c):
    recs = []
    for st in c['steps']:
        for f in st['layers']:
            recs.append(struct.pack('>fi', st['time'], st['date']) + f)
    return fortran.records(recs)


def decode_one3d(buf, nx=None, ny=None, nz=None, fmt='one3d'):
    st, ncell = _stamped(fortran.payloads(buf), fmt)
    _chk_cells(ncell, nx, ny, fmt)
    runs = _groups(st, nz, fmt)
    return {'fmt': fmt, 'ncell': ncell, 'nz': len(runs[0]),
            'steps': [{'time': r[0][0], 'date': r[0][1],
                       'layers': [x[2] for x in r]} for r in runs]}


def encode_temperature(c):
    recs = []
    for st in c['steps']:
        h = struct.pack('>fi', st['time'], st['date'])
        recs.append(h + st['surface'])
        for f in st['layers']:
            recs.append(h + f)
    return fortran.records(recs)


def decode_temperature(buf, nx=None, ny=None, nz=None):
    st, ncell = _stamped(fortran.payloads(buf), 'temperature')
    _chk_cells(ncell, nx, ny, 'temperature')
    runs = _groups(st, None if nz is None else nz + 1, 'temperature')
    _need(len(runs[0]) >= 2, 'temperature: a step needs a surface record and '
          'at least one layer record')
    return {'fmt': 'temperature', 'ncell': ncell, 'nz': len(runs[0]) - 1,
            'steps': [{'time': r[0][0], 'date': r[0][1], 'surface': r[0][2],
                       'layers': [x[2] for x in r[1:]]} for r in runs]}


def encode_height_pressure(c):
    recs = []
    for st in c['steps']:
        h = struct.pack('>fi', st['time'], st['date'])
        for hg, pr in st['layers']:
            recs.append(h + hg)
            recs.append(h + pr)
    return fortran.records(recs)


def decode_height_pressure(buf, nx=None, ny=None, nz=None):
    st, ncell = _stamped(fortran.payloads(buf), 'height_pressure')
    _chk_cells(ncell, nx, ny, 'height_pressure')
    runs = _groups(st, None if nz is None else 2 * nz, 'height_pressure')
    _need(len(runs[0]) % 2 == 0, 'height_pressure: %d records per step is '
          'not height/pressure pairs', len(runs[0]))
    return {'fmt': 'height_pressure', 'ncell': ncell,
            'nz': len(runs[0]) // 2,
            'steps': [{'time': r[0][0], 'date': r[0][1],
                       'layers': [[r[2 * k][2], r[2 * k + 1][2]]
                                  for k in range(len(r) // 2)]}
                      for r in runs]}


# ---------------------------------------------------------------------- wind
def encode_wind(c):
    recs = []
    for st in c['steps']:
        if st.get('lstagger') is None:
            recs.append(struct.pack('>fi', st['time'], st['date']))
        else:
            recs.append(struct.pack('>fii', st['time'], st['date'],
                                    st['lstagger']))
        for u, v in st['layers']:
            recs.append(u)
            recs.append(v)
        recs.append(st.get('dummy', b'\x00\x00\x00\x00'))
    return fortran.records(recs)


def decode_wind(buf, nx=None, ny=None, nz=None):
    recs = fortran.payloads(buf)
    _need(len(recs) >= 4, 'wind: %d records', len(recs))
    hs = len(recs[0])
    _need(hs in (8, 12), 'wind: first record has %d bytes, 8 or 12 expected',
          hs)
    if nx is not None and ny is not None:
        ncell = nx * ny
    else:
        ncell = len(recs[1]) // 4
    steps = []
    i = 0
    while i < len(recs):
        r = recs[i]
        _need(len(r) == hs, 'wind: record %d has %d bytes where a %d-byte '
              'time record is expected', i, len(r), hs)
        st = {}
        if hs == 12:
            st['time'], st['date'], st['lstagger'] = struct.unpack('>fii', r)
        else:
            st['time'], st['date'] = struct.unpack('>fi', r)
            st['lstagger'] = None
        i += 1
        body = []
        if nz is not None:
            body = recs[i:i + 2 * nz + 1]
            _need(len(body) == 2 * nz + 1, 'wind: step %d is incomplete',
                  len(steps))
        elif ncell == 1:
            # U, V and dummy records all have 4 bytes: the step ends before
            # the next time record (8/12 bytes) or at the end of the file
            j = i
            while j < len(recs) and len(recs[j]) != hs:
                j += 1
            body = recs[i:j]
        else:
            j = i
            while j < len(recs) and len(recs[j]) != 4:
                j += 1
            _need(j < len(recs), 'wind: step %d has no 4-byte dummy record',
                  len(steps))
            body = recs[i:j + 1]
        i += len(body)
        _need(len(body) % 2 == 1 and len(body) >= 3, 'wind: step %d has %d '
              'records after the time record (2*nz+1 expected)', len(steps),
              len(body))
        for k, b in enumerate(body[:-1]):
            _need(len(b) == 4 * ncell, 'wind: step %d field record %d has %d '
                  'bytes, 4*nx*ny = %d', len(steps), k, len(b), 4 * ncell)
        _need(len(body[-1]) == 4, 'wind: step %d ends with a %d-byte record, '
              '4-byte dummy expected', len(steps), len(body[-1]))
        st['layers'] = [[body[2 * k], body[2 * k + 1]]
                        for k in range(len(body) // 2)]
        st['dummy'] = body[-1]
        steps.append(st)
    n = len(steps[0]['layers'])
    for st in steps:
        _need(len(st['layers']) == n, 'wind: steps have %d and %d layers', n,
              len(st['layers']))
    return {'fmt': 'wind', 'ncell': ncell, 'nz': n, 'steps': steps}


# ---------------------------------------------------------------- cloud_rain
def encode_cloud_rain(c):
    desc = c['desc']
    _need(len(desc) == 20, 'description must have 20 characters')
    recs = [desc.encode('latin-1') + struct.pack('>iii', c['nx'], c['ny'],
                                                 c['nz'])]
    for st in c['steps']:
        recs.append(struct.pack('>fi', st['time'], st['date']))
        for lay in st['layers']:
            _need(len(lay) == c['nvar'], 'layer has %d variables', len(lay))
            for f in lay:
                recs.append(f)
    return fortran.records(recs)


def decode_cloud_rain(buf, nvar=None):
    recs = fortran.payloads(buf)
    _need(len(recs) >= 1 and len(recs[0]) == 32, 'cloud_rain: first record '
          'must have 20+12 bytes')
    c = {'fmt': 'cloud_rain', 'desc': recs[0][:20].decode('latin-1')}
    c['nx'], c['ny'], c['nz'] = struct.unpack('>iii', recs[0][20:])
    nx, ny, nz = c['nx'], c['ny'], c['nz']
    _need(nx >= 1 and ny >= 1 and nz >= 1, 'cloud_rain: nx ny nz = %d %d %d',
          nx, ny, nz)
    rest = recs[1:]
    cands = [nvar] if nvar is not None else [5, 3]
    ok = []
    for nv in cands:
        per = 1 + nz * nv
        if len(rest) % per or not rest:
            continue
        good = True
        for t in range(len(rest) // per):
            blk = rest[t * per:(t + 1) * per]
            if len(blk[0]) != 8 or any(len(b) != 4 * nx * ny
                                       for b in blk[1:]):
                good = False
                break
        if good:
            ok.append(nv)
    _need(ok, 'cloud_rain: %d records after the header fit neither 3 nor 5 '
          'variables x %d layers with an 8-byte time record per step',
          len(rest), nz)
    _need(len(ok) == 1, 'cloud_rain: layout is ambiguous between 3 and 5 '
          'variables; pass nvar')
    nv = ok[0]
    c['nvar'] = nv
    per = 1 + nz * nv
    steps = []
    for t in range(len(rest) // per):
        blk = rest[t * per:(t + 1) * per]
        tm, d = struct.unpack('>fi', blk[0])
        steps.append({'time': tm, 'date': d,
                      'layers': [blk[1 + k * nv:1 + (k + 1) * nv]
                                 for k in range(nz)]})
    c['steps'] = steps
    return c


# ------------------------------------------------------------------- landuse
def encode_landuse(c):
    recs = []
    nland = c['nland']
    if c['newstyle']:
        recs.append(('LUCAT%02d' % nland).ljust(8).encode('latin-1'))
    _need(len(c['fland']) == 4 * nland * c['nx'] * c['ny'],
          'fland has %d bytes', len(c['fland']))
    recs.append(c['fland'])
    for key, f in c['extra']:
        if c['newstyle']:
            _need(len(key) <= 8, 'key %r too long', key)
            recs.append(key.ljust(8).encode('latin-1'))
        _need(len(f) == 4 * c['nx'] * c['ny'], 'field %r has %d bytes', key,
              len(f))
        recs.append(f)
    return fortran.records(recs)


def decode_landuse(buf, nx, ny):
    recs = fortran.payloads(buf)
    _need(len(recs) >= 1, 'landuse: empty file')
    c = {'fmt': 'landuse', 'nx': nx, 'ny': ny}
    c['newstyle'] = len(recs[0]) == 8
    if c['newstyle']:
        key = recs[0].decode('latin-1')
        _need(key.startswith('LUCAT') and key[5:7].isdigit(),
              'landuse: first key is %r', key)
        c['nland'] = int(key[5:7])
        _need(len(recs) % 2 == 0, 'landuse: %d records are not key/field '
              'pairs', len(recs))
        _need(len(recs[1]) == 4 * c['nland'] * nx * ny, 'landuse: land-use '
              'record has %d bytes, 4*%d*ny*nx = %d', len(recs[1]),
              c['nland'], 4 * c['nland'] * nx * ny)
        c['fland'] = recs[1]
        c['extra'] = []
        for i in range(2, len(recs), 2):
            _need(len(recs[i]) == 8, 'landuse: key record %d has %d bytes',
                  i, len(recs[i]))
            _need(len(recs[i + 1]) == 4 * nx * ny, 'landuse: field record %d '
                  'has %d bytes', i + 1, len(recs[i + 1]))
            c['extra'].append([recs[i].decode('latin-1').rstrip(),
                               recs[i + 1]])
    else:
        c['nland'] = 11
        _need(len(recs[0]) == 4 * 11 * nx * ny, 'landuse (old style): first '
              'record has %d bytes, 4*11*ny*nx = %d', len(recs[0]),
              4 * 11 * nx * ny)
        c['fland'] = recs[0]
        c['extra'] = []
        for i in range(1, len(recs)):
            _need(len(recs[i]) == 4 * nx * ny, 'landuse: field record %d has '
                  '%d bytes', i, len(recs[i]))
            c['extra'].append([None, recs[i]])
    return c


ENCODE = {'uamiv': encode_uamiv, 'lateral_boundary': encode_lateral_boundary,
          'one3d': encode_one3d, 'humidity': encode_one3d,
          'vertical_diffusivity': encode_one3d,
          'temperature': encode_temperature,
          'height_pressure': encode_height_pressure, 'wind': encode_wind,
          'cloud_rain': encode_cloud_rain, 'landuse': encode_landuse}


def decode(fmt, buf, **hints):
    """dispatch; hints: nx, ny, nz (met formats), nvar (cloud_rain)"""
    if fmt == 'uamiv':
        return decode_uamiv(buf)
    if fmt == 'lateral_boundary':
        return decode_lateral_boundary(buf)
    if fmt in ('one3d', 'humidity', 'vertical_diffusivity'):
        return decode_one3d(buf, hints.get('nx'), hints.get('ny'),
                            hints.get('nz'), fmt=fmt)
    if fmt == 'temperature':
        return decode_temperature(buf, hints.get('nx'), hints.get('ny'),
                                  hints.get('nz'))
    if fmt == 'height_pressure':
        return decode_height_pressure(buf, hints.get('nx'), hints.get('ny'),
                                      hints.get('nz'))
    if fmt == 'wind':
        return decode_wind(buf, hints.get('nx'), hints.get('ny'),
                           hints.get('nz'))
    if fmt == 'cloud_rain':
        return decode_cloud_rain(buf, hints.get('nvar'))
    if fmt == 'landuse':
        return decode_landuse(buf, hints['nx'], hints['ny'])
    raise KeyError(fmt)


def encode(c):
    return ENCODE[c['fmt']](c)
