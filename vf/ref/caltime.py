"""Independent calendar arithmetic for the time oracles (C11, C12, C16).

No PseudoNetCDF imports.  Everything is integer / Fraction arithmetic on
microseconds; stdlib ``datetime`` is used only as the proleptic-Gregorian
day counter, ``cftime`` only as a second opinion (``cftime_check``).

Vocabulary
----------
* an *instant* in the standard family is a timezone-aware ``datetime`` in UTC
  plus the exact rational number of microseconds it was rounded from;
* an instant in a fixed-length-year calendar (noleap/365_day, all_leap/
  366_day) is a *calendar microsecond count* ``cus`` = microseconds since
  0000-01-01 00:00 of that calendar, and its components (Y, M, D, h, m, s, us).
"""
import datetime as _dt
from fractions import Fraction

UTC = _dt.timezone.utc
US = 10 ** 6
DAY_US = 86400 * US
UNIT_US = {'days': DAY_US, 'hours': 3600 * US, 'minutes': 60 * US,
           'seconds': US}

STANDARD = ('standard', 'gregorian', 'proleptic_gregorian')
NOLEAP = ('noleap', '365_day')
ALLLEAP = ('all_leap', '366_day')

_DPM = {365: (31, 28, 31, 30, 31, 30, 31, 31, 30, 31, 30, 31),
        366: (31, 29, 31, 30, 31, 30, 31, 31, 30, 31, 30, 31)}


def calendar_family(calendar):
    """'standard' | 'noleap' | 'all_leap' for the names the property lists
    (case-insensitive; None = attribute absent = standard)"""
    if calendar is None:
        return 'standard'
    c = calendar.lower()
    if c in STANDARD:
        return 'standard'
    if c in NOLEAP:
        return 'noleap'
    if c in ALLLEAP:
        return 'all_leap'
    raise ValueError('calendar outside the property domain: %r' % calendar)


def yearlen(family):
    return {'noleap': 365, 'all_leap': 366}[family]


def isleap(y):
    return y % 4 == 0 and (y % 100 != 0 or y % 400 == 0)


# ------------------------------------------------------------ rounding
def round_half_even(fr):
    """nearest integer of a Fraction, ties to even"""
    fl = fr.numerator // fr.denominator
    rem = fr - fl
    if rem > Fraction(1, 2) or (rem == Fraction(1, 2) and fl % 2 == 1):
        return fl + 1
    return fl


def value_us(value, unit):
    """exact microseconds (Fraction) encoded by a stored number"""
    return Fraction(value) * UNIT_US[unit]


# ------------------------------------------------------------ standard family
def utc_reference(ymdhms, offset_minutes=0, micro=0):
    """aware UTC datetime of the local reference `ymdhms` that carries the
    UTC offset `offset_minutes` (local = UTC + offset)"""
    y, mo, d, h, mi, s = ymdhms
    local = _dt.datetime(y, mo, d, h, mi, s, micro, tzinfo=UTC)
    return local - _dt.timedelta(minutes=offset_minutes)


def decode_standard(ref_utc, unit, value):
    """(datetime rounded to the microsecond, exact Fraction of microseconds
    since ref) of `value` `unit` after the aware reference"""
    ex = value_us(value, unit)
    n = round_half_even(ex)
    return ref_utc + _dt.timedelta(microseconds=n), ex


def us_between(a, b):
    """exact integer microseconds b - a of two aware datetimes"""
    td = b - a
    return (td.days * 86400 + td.seconds) * US + td.microseconds


# ------------------------------------------------------------ fixed-length years
def to_cus(family, y, mo, d, h=0, mi=0, s=0, us=0):
    """calendar microsecond count, or None when the date does not exist in
    that calendar"""
    n = yearlen(family)
    dpm = _DPM[n]
    if not (1 <= mo <= 12 and 1 <= d <= dpm[mo - 1]):
        return None
    doy = sum(dpm[:mo - 1]) + (d - 1)
    return ((y * n + doy) * 86400 + h * 3600 + mi * 60 + s) * US + us


def from_cus(family, cus):
    """(Y, M, D, h, m, s, us) of a calendar microsecond count"""
    n = yearlen(family)
    dpm = _DPM[n]
    days, rem = divmod(cus, DAY_US)
    y, doy = divmod(days, n)
    mo = 0
    while doy >= dpm[mo]:
        doy -= dpm[mo]
        mo += 1
    sec, us = divmod(rem, US)
    h, sec = divmod(sec, 3600)
    mi, s = divmod(sec, 60)
    return (y, mo + 1, doy + 1, h, mi, s, us)


def decode_fixed(family, ymdhms, offset_minutes, unit, value):
    """(cus rounded, exact Fraction) of `value` `unit` after the reference in
    a fixed-length-year calendar; the result is in UTC"""
    y, mo, d, h, mi, s = ymdhms
    ref = to_cus(family, y, mo, d, h, mi, s)
    if ref is None:
        raise ValueError('reference date does not exist in %s' % family)
    ex = Fraction(ref - offset_minutes * 60 * US) + value_us(value, unit)
    return round_half_even(ex), ex


def exists_in_real_calendar(comp):
    y, mo, d = comp[:3]
    if not 1 <= y <= 9999:
        return False
    try:
        _dt.date(y, mo, d)
    except ValueError:
        return False
    return True


def datetime_to_cus(family, t):
    """calendar microsecond count of the components of an aware/naive real
    datetime (aware ones are first converted to UTC); None if its date does
    not exist in the calendar"""
    if t.tzinfo is not None:
        t = t.astimezone(UTC)
    return to_cus(family, t.year, t.month, t.day, t.hour, t.minute, t.second,
                  t.microsecond)


def cftime_check(family, ymdhms, offset_minutes, unit, value, cus):
    """second opinion: cftime.num2date on a canonical spelling must agree with
    `cus` to 2 microseconds.  Returns None or a message (harness fault)."""
    import cftime
    cal = {'noleap': 'noleap', 'all_leap': 'all_leap'}[family]
    units = '%s since %04d-%02d-%02d %02d:%02d:%02d' % ((unit,) +
                                                         tuple(ymdhms))
    # the offset is applied on the number (exact: minutes are integers)
    shift = Fraction(offset_minutes * 60 * US, UNIT_US[unit])
    c = cftime.num2date(float(Fraction(value) - shift), units, cal)
    got = to_cus(family, c.year, c.month, c.day, c.hour, c.minute, c.second,
                 c.microsecond)
    tol = 2 + int(abs(Fraction(value)) * UNIT_US[unit] * Fraction(1, 2 ** 50))
    if got is None or abs(got - cus) > tol:
        return 'cftime %r vs caltime %r (%s since %r, value %r)' % (
            c, from_cus(family, cus), unit, ymdhms, value)
    return None


# ------------------------------------------------------------ IOAPI
def jdate_to_date(yyyyjjj):
    """datetime.date of an IOAPI YYYYJJJ integer, by integer arithmetic;
    raises ValueError when the day of year does not exist"""
    y, j = divmod(int(yyyyjjj), 1000)
    if not 1 <= j <= (366 if isleap(y) else 365):
        raise ValueError('no day %d in year %d' % (j, y))
    return _dt.date(y, 1, 1) + _dt.timedelta(days=j - 1)


def hhmmss_to_seconds(hhmmss):
    """seconds of an IOAPI H*MMSS integer (hours may exceed two digits)"""
    v = int(hhmmss)
    sign = -1 if v < 0 else 1
    v = abs(v)
    return sign * ((v // 10000) * 3600 + (v // 100 % 100) * 60 + v % 100)


def ioapi_instant(yyyyjjj, hhmmss):
    d = jdate_to_date(yyyyjjj)
    return _dt.datetime(d.year, d.month, d.day, tzinfo=UTC) + \
        _dt.timedelta(seconds=hhmmss_to_seconds(hhmmss))


def instant_to_flags(t):
    """(YYYYJJJ, HHMMSS) of an aware datetime (whole seconds)"""
    t = t.astimezone(UTC)
    j = (t.date() - _dt.date(t.year, 1, 1)).days + 1
    return t.year * 1000 + j, t.hour * 10000 + t.minute * 100 + t.second


def ioapi_series(sdate, stime, tstep, n):
    """the n instants SDATE/STIME + i * TSTEP"""
    t0 = ioapi_instant(sdate, stime)
    dt = _dt.timedelta(seconds=hhmmss_to_seconds(tstep))
    return [t0 + i * dt for i in range(n)]


TAU_EPOCH = _dt.datetime(1985, 1, 1, tzinfo=UTC)


def tau_instant(hours):
    """(datetime, exact Fraction us) of `hours` since 1985-01-01 00:00 UTC"""
    return decode_standard(TAU_EPOCH, 'hours', hours)


def selftest():
    """anchors: hand-computed facts (run by vf selftests / on import of the
    C12 module in thorough tier)"""
    assert jdate_to_date(2000060) == _dt.date(2000, 2, 29)
    assert jdate_to_date(1999365) == _dt.date(1999, 12, 31)
    assert jdate_to_date(2100060) == _dt.date(2100, 3, 1)
    assert instant_to_flags(ioapi_instant(2004366, 235959)) == (2004366,
                                                                235959)
    assert hhmmss_to_seconds(1000000) == 360000
    assert from_cus('noleap', to_cus('noleap', 1999, 3, 1, 12)) == \
        (1999, 3, 1, 12, 0, 0, 0)
    # CF appendix example: 59.5 days after 1999-01-01 in noleap = Mar 1 12:00
    c, _ = decode_fixed('noleap', (1999, 1, 1, 0, 0, 0), 0, 'days', 59.5)
    assert from_cus('noleap', c) == (1999, 3, 1, 12, 0, 0, 0)
    c, _ = decode_fixed('all_leap', (1999, 1, 1, 0, 0, 0), 0, 'days', 59)
    assert from_cus('all_leap', c) == (1999, 2, 29, 0, 0, 0, 0)
    assert to_cus('noleap', 2000, 2, 29) is None
    t, _ = decode_standard(utc_reference((2000, 1, 1, 6, 0, 0), -300),
                           'hours', 1.5)
    assert t == _dt.datetime(2000, 1, 1, 12, 30, tzinfo=UTC)
    assert round_half_even(Fraction(5, 2)) == 2
    assert round_half_even(Fraction(-5, 2)) == -2
    assert round_half_even(Fraction(7, 2)) == 4
    return True
