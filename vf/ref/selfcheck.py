"""Anchoring of the reference CAMx codecs (run by setup.sh via vf/selftest.py).

For every sample under /repo/src/PseudoNetCDF/testcase/camxfiles/ the
reference decoder must (1) accept the file (records tile it, layout
consistent), (2) reproduce the literal arrays that the repository's own
in-module tests assert for that sample (the literals are taken from the test
source with `ast`, nothing of PseudoNetCDF is imported or executed), and (3)
re-encode the decoded content to exactly the sample's bytes.  Only then are
the codecs trusted as an oracle.  main() returns 0 (all good) or 1."""
import ast
import os
import struct
import sys

from . import camx_ref as R
from . import fortran


def repo_pkg():
    src = os.environ.get('VF_REPO', '/repo/src')
    p = os.path.join(src, 'PseudoNetCDF')
    if not os.path.isdir(p):
        p = '/repo/src/PseudoNetCDF'
    return p


def literals(modpath, func):
    """list of (values, shape) for every `array([...], dtype='f').reshape(..)`
    inside function `func` of the module source, in source order"""
    with open(modpath) as fi:
        tree = ast.parse(fi.read())
    found = []
    for node in ast.walk(tree):
        if isinstance(node, ast.FunctionDef) and node.name == func:
            for sub in ast.walk(node):
                if (isinstance(sub, ast.Call) and
                        isinstance(sub.func, ast.Attribute) and
                        sub.func.attr == 'reshape' and
                        isinstance(sub.func.value, ast.Call) and
                        getattr(sub.func.value.func, 'id', '') == 'array' and
                        sub.func.value.args and
                        isinstance(sub.func.value.args[0], ast.List)):
                    vals = ast.literal_eval(sub.func.value.args[0])
                    shape = tuple(ast.literal_eval(a) for a in sub.args)
                    found.append((sub.lineno, vals, shape))
    found.sort(key=lambda x: x[0])
    return [(v, s) for _, v, s in found]


def f32(values):
    return b''.join(struct.pack('>f', x) for x in values)


def close(raw, values, tol):
    got = struct.unpack('>%df' % (len(raw) // 4), raw)
    if len(got) != len(values):
        return False
    return all(abs(a - b) <= tol for a, b in zip(got, values))


def cat(parts):
    return b''.join(parts)


# sample key -> (decoder kwargs, [(test module, test function, [extractor per
# literal in source order], exact?)])
def _uamiv_spec(c, name):
    si = [s.strip() for s in c['species']].index(name)
    return cat(cat(st['data'][si]) for st in c['steps'])


def _lb(c, edge, name):
    si = [s.strip() for s in c['species']].index(name)
    return cat(st['data'][si][edge] for st in c['steps'])


CASES = [
    ('uamiv', 'uamiv', {}, [
        ('uamiv/Memmap.py', 'testAvg', [lambda c: _uamiv_spec(c, 'NO2')], True),
        ('uamiv/Read.py', 'testGE', [lambda c: _uamiv_spec(c, 'NO2')], True)]),
    ('lateral_boundary', 'lateral_boundary', {}, [
        ('lateral_boundary/Memmap.py', 'testLB',
         [lambda c: _lb(c, 0, 'O3'), lambda c: _lb(c, 1, 'O3'),
          lambda c: _lb(c, 2, 'O3'), lambda c: _lb(c, 3, 'O3')], False)]),
    ('temperature', 'temperature', dict(nx=5, ny=4), [
        ('temperature/Memmap.py', 'testTEMP',
         [lambda c: cat(cat(st['layers']) for st in c['steps'])], True),
        ('temperature/Read.py', 'testTEMP',
         [lambda c: cat(cat(st['layers']) for st in c['steps'])], True)]),
    ('humidity', 'humidity', dict(nx=5, ny=4), [
        ('humidity/Memmap.py', 'testHUM',
         [lambda c: cat(cat(st['layers']) for st in c['steps'])], True)]),
    ('vertical_diffusivity', 'vertical_diffusivity', dict(nx=5, ny=4), [
        ('vertical_diffusivity/Memmap.py', 'testKV',
         [lambda c: cat(cat(st['layers']) for st in c['steps'])], True),
        ('one3d/Memmap.py', 'testKV',
         [lambda c: cat(cat(st['layers']) for st in c['steps'])], True),
        ('one3d/Read.py', 'testKV',
         [lambda c: cat(cat(st['layers']) for st in c['steps'])], True)]),
    ('height_pressure', 'height_pressure', dict(nx=5, ny=4), [
        ('height_pressure/Memmap.py', 'testHP',
         [lambda c: cat(cat(l[0] for l in st['layers'])
                        for st in c['steps'])], True)]),
    ('wind', 'wind', dict(nx=5, ny=4), [
        ('wind/Memmap.py', 'testWD',
         [lambda c: cat(cat(l[1] for l in st['layers'])
                        for st in c['steps'])], True)]),
    ('cloud_rain', 'cloud_rain', {}, [
        ('cloud_rain/Memmap.py', 'testCR',
         [lambda c: cat(cat(l[-1] for l in st['layers'])
                        for st in c['steps'])], True)]),
    ('landuse', 'landuse', dict(nx=5, ny=4), [
        ('landuse/Memmap.py', 'testLU', [lambda c: c['fland']], False)]),
]


def unit_tests(say):
    """codec-internal consistency that needs no sample"""
    bad = 0
    # record walker rejects what it must
    good = fortran.record(b'abcd') + fortran.record(b'')
    try:
        assert [p for o, p in fortran.walk(good)] == [b'abcd', b'']
        for k in range(1, len(good)):
            if k == 12:
                continue   # exactly the first record
            try:
                fortran.walk(good[:k])
            except fortran.FortranError:
                continue
            raise AssertionError('prefix %d of a 2-record string accepted' % k)
        broken = bytearray(good)
        broken[11] ^= 1
        try:
            fortran.walk(bytes(broken))
            raise AssertionError('marker mismatch accepted')
        except fortran.FortranError:
            pass
        assert R.unchars4(R.chars4('NO2', 10), 10, 't') == 'NO2'.ljust(10)
        assert R.expand_yyjjj(99365) == (1999, 365)
        assert R.expand_yyjjj(1) == (2000, 1)
        assert R.expand_yyjjj(69366) == (2069, 366)
        assert R.expand_yyjjj(70001) == (1970, 1)
        sp = fortran.spans(good)
        assert fortran.classify_offset(sp, 0)[0] == 'boundary'
        assert fortran.classify_offset(sp, 2)[0] == 'marker'
        assert fortran.classify_offset(sp, 6)[0] == 'mid'
        assert fortran.classify_offset(sp, 8)[0] == 'marker'
        assert fortran.classify_offset(sp, 12)[0] == 'boundary'
    except AssertionError as e:
        say('FAIL fortran/codec unit test: %s' % e)
        bad += 1
    return bad


def main(verbose=True):
    def say(msg):
        if verbose:
            print('selfcheck: ' + msg)
    pkg = repo_pkg()
    bad = unit_tests(say)
    checked = 0
    for sample, fmt, hints, tests in CASES:
        path = os.path.join(pkg, 'testcase', 'camxfiles', sample,
                            'test.' + sample)
        try:
            with open(path, 'rb') as fi:
                raw = fi.read()
            c = R.decode(fmt, raw, **hints)
        except Exception as e:
            say('FAIL %s: reference decoder rejects the sample: %s: %s' %
                (sample, type(e).__name__, e))
            bad += 1
            continue
        try:
            again = R.encode(c)
        except Exception as e:
            again = None
            say('FAIL %s: reference encoder raised %s: %s' %
                (sample, type(e).__name__, e))
        if again != raw:
            say('FAIL %s: encode(decode(sample)) differs from the sample' %
                sample)
            bad += 1
        for mod, func, extract, exact in tests:
            try:
                lits = literals(os.path.join(pkg, 'camxfiles', mod), func)
            except Exception as e:
                say('FAIL %s: cannot read literals from %s:%s (%s)' %
                    (sample, mod, func, e))
                bad += 1
                continue
            if len(lits) != len(extract):
                say('FAIL %s: %s:%s has %d literal arrays, %d expected' %
                    (sample, mod, func, len(lits), len(extract)))
                bad += 1
                continue
            for (vals, shape), ex in zip(lits, extract):
                got = ex(c)
                n = 1
                for s in shape:
                    n *= s
                ok = (len(vals) == n and
                      (got == f32(vals) if exact else close(got, vals, 5e-7)))
                checked += 1
                if not ok:
                    say('FAIL %s: decoded values differ from the literal '
                        'array asserted in %s:%s' % (sample, mod, func))
                    bad += 1
    say('%d literal arrays of the repository tests reproduced, %d samples '
        're-encoded byte for byte, %d failure(s)' % (checked, len(CASES),
                                                      bad))
    return 1 if bad else 0


if __name__ == '__main__':
    sys.exit(main())
