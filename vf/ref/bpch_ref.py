"""Independent codec for GEOS-Chem binary punch (bpch v2) files and the two
text tables that accompany them (tracerinfo.dat, diaginfo.dat).

Written from the GAMAP format description (as paraphrased in the comment
headers of the sample tables and DESIGN Appendix A); only `struct` and the
standard library.  NO PseudoNetCDF / numpy imports.

File = sequence of big-endian Fortran unformatted records
    [int32 n][n bytes][int32 n]
  rec 1   40   ftype   (A40)        'CTM bin 02'
  rec 2   80   title   (A80)
  then per data block three records
  rec a   36   modelname A20, modelres 2 x REAL*4 (lon, lat), halfpolar I4,
               center180 I4
  rec b  168   category A40, tracer I4, unit A40, tau0 REAL*8, tau1 REAL*8,
               reserved A40, dim 6 x I4 (NI NJ NL I0 J0 L0, Fortran 1-based
               offsets), skip I4 (= 4*NI*NJ*NL + 8)
  rec c  4*NI*NJ*NL   REAL*4 array (((a(i,j,l), i=1,NI), j=1,NJ), l=1,NL)

tracerinfo.dat lines (non-comment):
  NAME A8, 1X, FULLNAME A30, MOLWT E10.0, C I3, TRACER I9, SCALE E10.3, 1X,
  UNIT A40
diaginfo.dat lines (non-comment):
  OFFSET I8, 1X, CATEGORY A40, 1X, COMMENT A
"""
import os
import struct


class FormatError(Exception):
    pass


# --------------------------------------------------------------- records
def _rec(payload):
    n = struct.pack('>i', len(payload))
    return n + payload + n


def walk(buf):
    """[(offset_of_payload, payload)]; markers must agree and tile the file"""
    out = []
    pos = 0
    n = len(buf)
    while pos < n:
        if pos + 4 > n:
            raise FormatError('truncated leading marker at %d' % pos)
        (m,) = struct.unpack_from('>i', buf, pos)
        if m < 0 or pos + 8 + m > n:
            raise FormatError('record at %d (len %d) runs past the end' %
                              (pos, m))
        (t,) = struct.unpack_from('>i', buf, pos + 4 + m)
        if t != m:
            raise FormatError('markers disagree at %d: %d vs %d' %
                              (pos, m, t))
        out.append((pos + 4, buf[pos + 4:pos + 4 + m]))
        pos += 8 + m
    return out


def _pad(s, n):
    if isinstance(s, str):
        s = s.encode('ascii')
    if len(s) > n:
        raise FormatError('%r longer than %d' % (s, n))
    return s + b' ' * (n - len(s))


# --------------------------------------------------------------- encode
def encode(spec):
    """spec: dict(ftype, title, blocks=[dict(modelname, res=[dx, dy],
    halfpolar, center180, category, tracer, unit, tau0, tau1, reserved,
    dim=[ni, nj, nl], start=[i0, j0, l0] (1-based), data=<bytes big-endian
    REAL*4> or list of floats in file order)]).  Strings are padded with
    blanks to their field width."""
    out = [_rec(_pad(spec['ftype'], 40)), _rec(_pad(spec['title'], 80))]
    for b in spec['blocks']:
        ni, nj, nl = [int(x) for x in b['dim']]
        n = ni * nj * nl
        data = b['data']
        if not isinstance(data, (bytes, bytearray)):
            data = struct.pack('>%df' % n, *data)
        if len(data) != 4 * n:
            raise FormatError('data length %d != 4*%d' % (len(data), n))
        out.append(_rec(_pad(b['modelname'], 20) +
                        struct.pack('>2f2i', float(b['res'][0]),
                                    float(b['res'][1]), int(b['halfpolar']),
                                    int(b['center180']))))
        out.append(_rec(_pad(b['category'], 40) +
                        struct.pack('>i', int(b['tracer'])) +
                        _pad(b['unit'], 40) +
                        struct.pack('>2d', float(b['tau0']),
                                    float(b['tau1'])) +
                        _pad(b.get('reserved', ''), 40) +
                        struct.pack('>6i', ni, nj, nl,
                                    *[int(x) for x in b['start']]) +
                        struct.pack('>i', 4 * n + 8)))
        out.append(_rec(bytes(data)))
    return b''.join(out)


# --------------------------------------------------------------- decode
def decode(buf, strict=True):
    recs = walk(buf)
    if len(recs) < 2:
        raise FormatError('fewer than two records')
    if len(recs[0][1]) != 40 or len(recs[1][1]) != 80:
        raise FormatError('file header records are %d and %d bytes' %
                          (len(recs[0][1]), len(recs[1][1])))
    if (len(recs) - 2) % 3:
        raise FormatError('data records do not come in triples')
    spec = dict(ftype=recs[0][1].decode('latin1'),
                title=recs[1][1].decode('latin1'), blocks=[])
    for k in range(2, len(recs), 3):
        (o1, r1), (o2, r2), (o3, r3) = recs[k:k + 3]
        if len(r1) != 36 or len(r2) != 168:
            raise FormatError('block header records are %d and %d bytes at '
                              '%d' % (len(r1), len(r2), o1))
        dx, dy, hp, c180 = struct.unpack('>2f2i', r1[20:])
        tracer, = struct.unpack('>i', r2[40:44])
        tau0, tau1 = struct.unpack('>2d', r2[84:100])
        dims = struct.unpack('>6i', r2[140:164])
        skip, = struct.unpack('>i', r2[164:168])
        ni, nj, nl = dims[:3]
        if strict:
            if len(r3) != 4 * ni * nj * nl:
                raise FormatError('data record %d bytes, dims %r' %
                                  (len(r3), dims[:3]))
            if skip != len(r3) + 8:
                raise FormatError('skip %d != %d' % (skip, len(r3) + 8))
        spec['blocks'].append(dict(
            modelname=r1[:20].decode('latin1'), res=[dx, dy], halfpolar=hp,
            center180=c180, category=r2[:40].decode('latin1'), tracer=tracer,
            unit=r2[44:84].decode('latin1'), tau0=tau0, tau1=tau1,
            reserved=r2[100:140].decode('latin1'), dim=list(dims[:3]),
            start=list(dims[3:]), skip=skip, data=bytes(r3), offset=o1 - 4))
    return spec


def floats(block):
    n = len(block['data']) // 4
    return list(struct.unpack('>%df' % n, block['data']))


def f32(x):
    """round a Python float to the nearest REAL*4"""
    return struct.unpack('>f', struct.pack('>f', x))[0]


# --------------------------------------------------------------- tables
def e10(x, digits=3):
    """Fortran-like E10.3 rendering used by GEOS-Chem: 1.000E+09"""
    s = '%.*E' % (digits, x)
    return s.rjust(10)


def tracerinfo_line(name, fullname, molwt, carbon, tracer, scale, unit,
                    scale_text=None):
    """scale_text: optional explicit rendering of the SCALE field (any
    Fortran-readable number of at most 10 characters, right-justified in
    columns 62-71); default is the E10.3 form GEOS-Chem writes"""
    if len(name) > 8 or len(fullname) > 30 or len(unit) > 40:
        raise FormatError('tracerinfo field too long')
    stxt = e10(scale) if scale_text is None else scale_text.rjust(10)
    if len(stxt) != 10 or float(stxt) != float(scale):
        raise FormatError('scale field %r for %r' % (stxt, scale))
    line = '%-8s %-30s%10s%3d%9d%10s %s' % (
        name, fullname, e10(molwt), carbon, tracer, stxt, unit)
    return line


def tracerinfo_text(rows, comments=True):
    """rows: list of dicts name fullname molwt carbon tracer scale unit"""
    out = []
    if comments:
        out += ['#' + '=' * 78,
                '# tracerinfo.dat: generated by the vf reference codec',
                '# NAME (A8) 1X FULLNAME (A30) MOLWT (E10.0) C (I3) TRACER '
                '(I9) SCALE (E10.3) 1X UNIT (A40)',
                '#' + '=' * 78]
    for r in rows:
        out.append(tracerinfo_line(r['name'], r['fullname'], r['molwt'],
                                   r['carbon'], r['tracer'], r['scale'],
                                   r['unit'], r.get('scale_text')))
    return '\n'.join(out) + '\n'


def parse_tracerinfo(text):
    rows = []
    for line in text.split('\n'):
        if not line.strip() or line[0] == '#':
            continue
        rows.append(dict(name=line[0:8].strip(),
                         fullname=line[9:39].strip(),
                         molwt=float(line[39:49]),
                         carbon=int(line[49:52]),
                         tracer=int(line[52:61]),
                         scale=float(line[61:71]),
                         unit=line[72:].strip()))
    return rows


def diaginfo_line(offset, category, comment):
    if len(category) > 40:
        raise FormatError('category too long')
    return '%8d %-40s %s' % (offset, category, comment)


def diaginfo_text(rows, comments=True):
    out = []
    if comments:
        out += ['#' + '=' * 78,
                '# diaginfo.dat: generated by the vf reference codec',
                '# OFFSET (I8) 1X CATEGORY (A40) 1X COMMENT (A)',
                '#' + '=' * 78]
    for r in rows:
        out.append(diaginfo_line(r['offset'], r['category'], r['comment']))
    return '\n'.join(out) + '\n'


def parse_diaginfo(text):
    rows = []
    for line in text.split('\n'):
        if not line.strip() or line[0] == '#':
            continue
        rows.append(dict(offset=int(line[0:8]),
                         category=line[9:49].strip(),
                         comment=line[50:].strip()))
    return rows


def lookup(tracer_rows, diag_rows, category, tracer):
    """(tracerinfo row or None, offset) for a data block"""
    off = 0
    for d in diag_rows:
        if d['category'] == category.strip():
            off = d['offset']
            break
    for t in tracer_rows:
        if t['tracer'] == tracer + off:
            return t, off
    return None, off


# --------------------------------------------------------------- selfcheck
_ALD2 = [1.60520077e-02, 1.82803553e-02, 2.00258084e-02, 2.01461259e-02,
         1.84865110e-02, 2.49667447e-02, 2.73083989e-02, 2.87465211e-02,
         2.89694592e-02, 2.87686456e-02, 2.87277419e-02, 3.08121163e-02,
         3.22086290e-02, 3.35262120e-02, 3.41329686e-02, 3.05218045e-02,
         3.30278911e-02, 3.58164124e-02, 3.93186994e-02, 4.15412188e-02]


def selfcheck(repo_src=None):
    """validate the codec against the repository sample and the literal
    values asserted by the repository's tests; returns a list of error
    strings (empty = ok)"""
    errs = []
    src = repo_src or os.environ.get('VF_REPO', '/repo/src')
    d = os.path.join(src, 'PseudoNetCDF', 'testcase', 'geoschemfiles')
    try:
        with open(os.path.join(d, 'test.bpch'), 'rb') as fi:
            buf = fi.read()
        with open(os.path.join(d, 'tracerinfo.dat')) as fi:
            ttext = fi.read()
        with open(os.path.join(d, 'diaginfo.dat')) as fi:
            dtext = fi.read()
    except IOError as e:
        return ['bpch_ref: cannot read samples: %s' % e]
    try:
        spec = decode(buf)
    except FormatError as e:
        return ['bpch_ref: sample does not decode: %s' % e]
    if encode(spec) != buf:
        errs.append('bpch_ref: encode(decode(sample)) != sample')
    if spec['ftype'].strip() != 'CTM bin 02':
        errs.append('bpch_ref: ftype %r' % spec['ftype'])
    trows = parse_tracerinfo(ttext)
    drows = parse_diaginfo(dtext)
    hit = [b for b in spec['blocks']
           if b['category'].strip() == 'IJ-AVG-$' and b['tracer'] == 11]
    if len(hit) != 1:
        errs.append('bpch_ref: %d IJ-AVG-$/11 blocks in sample' % len(hit))
        return errs
    b = hit[0]
    row, off = lookup(trows, drows, b['category'], b['tracer'])
    if row is None or row['name'] != 'ALD2' or row['scale'] != 1e9 or \
            row['unit'] != 'ppbC' or off != 0 or row['carbon'] != 2:
        errs.append('bpch_ref: table lookup for IJ-AVG-$/11 gave %r' % (row,))
        return errs
    if b['dim'] != [5, 4, 3] or b['start'] != [13, 50, 1]:
        errs.append('bpch_ref: dims/start of sample block %r %r' %
                    (b['dim'], b['start']))
    vals = floats(b)
    want = _ALD2 * 3   # the test's literal is (1, 3, 4, 5), 3 equal layers
    if len(vals) != len(want):
        errs.append('bpch_ref: %d values, test literal has %d' %
                    (len(vals), len(want)))
        return errs
    for i, (v, w) in enumerate(zip(vals, want)):
        got = f32(v) * row['scale']
        if abs(got - w) > 1e-7 * abs(w):
            errs.append('bpch_ref: ALD2[%d] = %r, repository test asserts '
                        '%r' % (i, got, w))
            break
    # every block of the sample has a table row and tau0 < tau1
    for b in spec['blocks']:
        row, off = lookup(trows, drows, b['category'], b['tracer'])
        if row is None:
            errs.append('bpch_ref: no tracerinfo row for %s/%d' %
                        (b['category'].strip(), b['tracer']))
            break
    # text table writers are the inverse of the parsers on the sample rows
    if parse_tracerinfo(tracerinfo_text(trows)) != trows:
        errs.append('bpch_ref: tracerinfo writer/parsers disagree on sample')
    if parse_diaginfo(diaginfo_text(drows)) != drows:
        errs.append('bpch_ref: diaginfo writer/parsers disagree on sample')
    return errs


if __name__ == '__main__':
    import sys
    e = selfcheck()
    print('\n'.join(e) if e else 'bpch_ref selfcheck ok')
    sys.exit(1 if e else 0)
