"""Independent codec for NOAA ARL packed-bit meteorological files.

Written from the ARL packed data format description in the HYSPLIT user's
guide ("Meteorological data: ARL packed format") and its PAKOUT/PAKINP
routines as described there; standard library only (struct, math).
NO PseudoNetCDF / numpy imports.

Records all have length 50 + NX*NY: a 50 byte ASCII label
    YY MM DD HH FF (5 I2)  level (I2)  grid (I2)  key (A4)  exponent (I4)
    precision (E14.7)  value(1,1) (E14.7)
followed by NX*NY bytes.  Each time period starts with an index record
(key INDX) whose data area holds
    source (A4) forecast hour (I3) minutes (I2) 12 x F7 (pole lat, pole lon,
    ref lat, ref lon, grid size, orientation, cone angle, sync x, sync y,
    sync lat, sync lon, reserved) NX NY NZ (3 I3) vertical system (I2)
    LENH (I4)  then for each level: height (F6) nvar (I2) and nvar x
    (key A4, checksum I3, 1X)
LENH = 108 + sum(8 + 8*nvar).  Then one record per variable at level 0
(surface), then per upper level one record per variable.

Packing (PAKOUT), REAL*4 arithmetic:
    rmax  = largest |difference| between row neighbours, first column
            chained down the rows from value(1,1)
    sexp  = log(rmax)/log(2) (0 if rmax = 0); nexp = int(sexp);
            nexp += 1 when sexp >= 0 or sexp is whole
    scexp = 2**(7-nexp); prec = 2**nexp/254
    icval = int((r(i,j) - rold)*scexp + 127.5); byte = char(icval)
    rold  = (icval-127)/scexp + rold   (first column: rold of the row above)
    ksum: rotating byte sum (ksum += icval; if ksum >= 256: ksum -= 255)
Unpacking (PAKINP): r(i,j) = (byte-127)/scexp + rold.
"""
import math
import struct


class FormatError(Exception):
    pass


def f32(x):
    """round to REAL*4 (round-to-nearest-even; innocuous double rounding
    for single +,-,*,/ of REAL*4 operands)"""
    try:
        return struct.unpack('f', struct.pack('f', x))[0]
    except OverflowError:
        return math.copysign(float('inf'), x)


def rmax_of(rows):
    """largest neighbour difference as PAKOUT sees it (REAL*4)"""
    rmax = 0.0
    rcol = rows[0][0]
    for row in rows:
        rold = rcol
        for v in row:
            d = abs(f32(v - rold))
            if d > rmax:
                rmax = d
            rold = v
        rcol = row[0]
    return rmax


def nexp_exact(rmax):
    """the exponent the PAKOUT rule yields in exact arithmetic: smallest n
    with 2**n > rmax (1 for a constant field)"""
    if rmax == 0.0:
        return 1
    m, e = math.frexp(rmax)      # rmax = m * 2**e, 0.5 <= m < 1
    return e


def pack(rows, nexp=None):
    """rows: list of rows of REAL*4 values.  Returns dict(nexp, prec, var1,
    icvals (list of rows of *unwrapped* Python ints), bytes (icval & 255),
    recon (running REAL*4 values of the routine = what the decoder sees as
    long as nothing wrapped), ksum (rotating),
    ksum_mod (sum of stored bytes mod 255), wrapped (bool))."""
    rows = [[f32(v) for v in row] for row in rows]
    var1 = rows[0][0]
    if nexp is None:
        nexp = nexp_exact(rmax_of(rows))
    scexp = f32(2.0 ** (7 - nexp))
    icvals = []
    recon = []
    rcol = var1
    for row in rows:
        rold = rcol
        irow = []
        rrow = []
        for i, v in enumerate(row):
            t = f32(f32(f32(v - rold) * scexp) + 127.5)
            if t != t or t in (float('inf'), float('-inf')):
                raise FormatError('non-finite packing value')
            ic = int(t)          # truncation toward zero, like Fortran INT
            irow.append(ic)
            # the routine carries the *unwrapped* integer forward
            rold = f32(f32(f32(float(ic - 127)) / scexp) + rold)
            rrow.append(rold)
            if i == 0:
                rcol = rold
        icvals.append(irow)
        recon.append(rrow)
    flat = [ic & 255 for r in icvals for ic in r]
    ksum = 0
    for b in flat:
        ksum += b
        if ksum >= 256:
            ksum -= 255
    return dict(nexp=nexp, prec=f32((2.0 ** nexp) / 254.0), var1=var1,
                icvals=icvals, bytes=bytes(flat), recon=recon, ksum=ksum,
                ksum_mod=sum(flat) % 255,
                wrapped=any(ic < 0 or ic > 255 for r in icvals for ic in r))


def icvals_following(rows, nexp, stored):
    """the unwrapped integers the PAKOUT formula gives for `rows` with
    exponent `nexp` when the running value follows the packer under test:
    the formula's own (unwrapped) integer where the stored byte is that
    integer mod 256, else the byte actually `stored` (list of rows of ints
    0..255).  Lets a checker compare a packer's bytes one by one without
    cascading after a first difference."""
    scexp = f32(2.0 ** (7 - nexp))
    rows = [[f32(v) for v in row] for row in rows]
    rcol = rows[0][0]
    out = []
    for row, srow in zip(rows, stored):
        rold = rcol
        irow = []
        for i, (v, b) in enumerate(zip(row, srow)):
            t = f32(f32(f32(v - rold) * scexp) + 127.5)
            ic = int(t) if t == t and abs(t) != float('inf') else None
            irow.append(ic)
            carry = ic if ic is not None and (ic & 255) == b else b
            rold = f32(f32(f32(float(carry - 127)) / scexp) + rold)
            if i == 0:
                rcol = rold
        out.append(irow)
    return out


def unpack(data, nx, ny, nexp, var1):
    """PAKINP in REAL*4; data: bytes of length nx*ny; returns rows"""
    if len(data) != nx * ny:
        raise FormatError('%d bytes for %d x %d' % (len(data), nx, ny))
    scexp = f32(1.0 / f32(2.0 ** (7 - nexp)))
    rows = []
    vold = f32(var1)
    k = 0
    for j in range(ny):
        row = []
        for i in range(nx):
            v = f32(f32(float(data[k] - 127) * scexp) + vold)
            row.append(v)
            vold = v
            k += 1
        vold = row[0]
        rows.append(row)
    return rows


def step(nexp):
    return 2.0 ** (nexp - 7)


# --------------------------------------------------------------- file level
def e14(x):
    """Fortran E14.7 as HYSPLIT writes it: 0.1234567E+03 is the Fortran
    form; the widely used C-style rendering 1.2345670E+02 parses alike"""
    return ('%14.7E' % x)[:14]


def label(yy, mm, dd, hh, ff, level, grid, key, nexp, prec, var1):
    s = '%2d%2d%2d%2d%2d%2d%2s%-4s%4d%14s%14s' % (
        yy, mm, dd, hh, ff, level, grid, key, nexp, e14(prec), e14(var1))
    if len(s) != 50:
        raise FormatError('label is %d chars: %r' % (len(s), s))
    return s.encode('ascii')


def f7(x, nd):
    s = '%7.*f' % (nd, x)
    if len(s) != 7:
        raise FormatError('%r does not fit F7.%d' % (x, nd))
    return s


def grid_chars(nx, ny, small='99'):
    """the two-character grid field of the label: a grid number for grids
    below 1000 cells per side; for larger grids the thousands of NX and NY
    are carried here as CHAR(64 + n/1000) ('@' = 0, 'A' = 1, ...) and the
    3-digit NX/NY fields of the index record hold the remainder"""
    if nx < 1000 and ny < 1000:
        return small
    return chr(64 + nx // 1000) + chr(64 + ny // 1000)


def grid_offsets(grid):
    """inverse of grid_chars: thousands of (NX, NY)"""
    return [max(0, ord(c) - 64) * 1000 if c >= 'A' else 0 for c in grid[:2]]


def encode(spec):
    """spec: dict(nx, ny, grid (2 chars), source (<=4 chars), vsys (int),
    geo=dict(pollat, pollon, reflat, reflon, gridx, orient, tanlat, synchx,
    synchy, synchlat, synchlon, reserved) floats, geo_nd (decimals),
    levels=[level text (6 chars)], sfc=[keys], upper=[[keys] per upper
    level], times=[[yy, mm, dd, hh, ff]],
    fields={(ti, li, key): rows}).  Returns (bytes, info) where info maps
    (ti, li, key) -> pack() result."""
    nx, ny = spec['nx'], spec['ny']
    recl = 50 + nx * ny
    grid = grid_chars(nx, ny, spec.get('grid', '99'))
    levels = spec['levels']
    nz = len(levels)
    varlists = [spec['sfc']] + list(spec['upper'])
    if len(varlists) != nz:
        raise FormatError('levels and variable lists disagree')
    lenh = 108 + sum(8 + 8 * len(v) for v in varlists)
    if 50 + lenh > recl:
        raise FormatError('index record does not fit')
    out = []
    info = {}
    for ti, tm in enumerate(spec['times']):
        yy, mm, dd, hh, ff = tm
        packed = {}
        for li, keys in enumerate(varlists):
            for key in keys:
                p = pack(spec['fields'][(ti, li, key)])
                if p['wrapped']:
                    raise FormatError('reference packing wrapped')
                packed[(li, key)] = p
                info[(ti, li, key)] = p
        g = spec['geo']
        nd = spec.get('geo_nd', 2)
        hdr = '%-4s%3d%2d' % (spec['source'], ff, 0)
        for k in ('pollat', 'pollon', 'reflat', 'reflon', 'gridx', 'orient',
                  'tanlat', 'synchx', 'synchy', 'synchlat', 'synchlon',
                  'reserved'):
            hdr += f7(g[k], nd)
        hdr += '%3d%3d%3d%2d%4d' % (nx % 1000, ny % 1000, nz, spec['vsys'],
                                    lenh)
        if len(hdr) != 108:
            raise FormatError('fixed index header is %d chars' % len(hdr))
        for li, keys in enumerate(varlists):
            if len(levels[li]) != 6:
                raise FormatError('level text %r' % levels[li])
            hdr += '%6s%2d' % (levels[li], len(keys))
            for key in keys:
                hdr += '%-4s%3d ' % (key, packed[(li, key)]['ksum'])
        if len(hdr) != lenh:
            raise FormatError('index header %d chars, LENH %d' %
                              (len(hdr), lenh))
        rec = label(yy, mm, dd, hh, ff, 0, grid, 'INDX', 0, 0.0,
                    0.0) + hdr.encode('ascii')
        out.append(rec + b' ' * (recl - len(rec)))
        for li, keys in enumerate(varlists):
            for key in keys:
                p = packed[(li, key)]
                out.append(label(yy, mm, dd, hh, ff, li, grid, key,
                                 p['nexp'], p['prec'], p['var1']) +
                           p['bytes'])
    return b''.join(out), info


def parse_label(b):
    s = b.decode('ascii')
    try:
        return dict(yy=int(s[0:2]), mm=int(s[2:4]), dd=int(s[4:6]),
                    hh=int(s[6:8]), ff=int(s[8:10]), level=int(s[10:12]),
                    grid=s[12:14], key=s[14:18], nexp=int(s[18:22]),
                    prec=float(s[22:36]), var1=float(s[36:50]))
    except ValueError as e:
        raise FormatError('bad label %r: %s' % (s, e))


def decode(buf):
    """returns dict(nx, ny, nz, recl, times=[...], each time: dict(label,
    header fields, levels=[(height text, [(key, checksum)])], records=
    {(li, key): dict(label, data bytes, values rows)})"""
    if len(buf) < 158:
        raise FormatError('shorter than one index header')
    lab = parse_label(buf[:50])
    if lab['key'] != 'INDX':
        raise FormatError('first record is %r' % lab['key'])
    fixed = buf[50:158].decode('ascii')
    ox, oy = grid_offsets(lab['grid'])
    nx, ny, nz = (int(fixed[93:96]) + ox, int(fixed[96:99]) + oy,
                  int(fixed[99:102]))
    recl = 50 + nx * ny
    if len(buf) % recl:
        raise FormatError('file length %d is not a multiple of %d' %
                          (len(buf), recl))
    nrec = len(buf) // recl
    out = dict(nx=nx, ny=ny, nz=nz, recl=recl, times=[])
    r = 0
    while r < nrec:
        rec = buf[r * recl:(r + 1) * recl]
        lab = parse_label(rec[:50])
        if lab['key'] != 'INDX':
            raise FormatError('record %d: expected INDX, got %r' %
                              (r, lab['key']))
        fixed = rec[50:158].decode('ascii')
        t = dict(label=lab, source=fixed[0:4], fhour=int(fixed[4:7]),
                 minutes=int(fixed[7:9]),
                 geo=[float(fixed[9 + 7 * k:16 + 7 * k]) for k in range(12)],
                 nx=int(fixed[93:96]) + ox, ny=int(fixed[96:99]) + oy,
                 nz=int(fixed[99:102]), vsys=int(fixed[102:104]),
                 lenh=int(fixed[104:108]), levels=[], records={})
        pos = 158
        for li in range(t['nz']):
            htxt = rec[pos:pos + 6].decode('ascii')
            nv = int(rec[pos + 6:pos + 8])
            pos += 8
            vs = []
            for k in range(nv):
                vs.append((rec[pos:pos + 4].decode('ascii'),
                           int(rec[pos + 4:pos + 7])))
                pos += 8
            t['levels'].append((htxt, vs))
        if pos - 50 != t['lenh']:
            raise FormatError('LENH %d, level table ends at %d' %
                              (t['lenh'], pos - 50))
        r += 1
        for li, (htxt, vs) in enumerate(t['levels']):
            for key, cks in vs:
                if r >= nrec:
                    raise FormatError('file ends inside a time period')
                rec = buf[r * recl:(r + 1) * recl]
                lab = parse_label(rec[:50])
                if lab['key'] != key or lab['level'] != li:
                    raise FormatError('record %d is %r level %d, index says '
                                      '%r level %d' % (r, lab['key'],
                                                       lab['level'], key, li))
                data = rec[50:]
                t['records'][(li, key)] = dict(
                    label=lab, data=data, checksum=cks,
                    values=unpack(data, nx, ny, lab['nexp'], lab['var1']))
                r += 1
        out['times'].append(t)
    return out


def rotating_sum(data):
    k = 0
    for b in data:
        k += b
        if k >= 256:
            k -= 255
    return k


# --------------------------------------------------------------- selfcheck
def selfcheck(repo_src=None):
    """the repository ships no ARL sample and no test touches the module, so
    the codec is anchored on a hand-computed example of the PAKOUT rule and
    on internal consistency (decode(encode(x)) within one step, layout
    arithmetic)."""
    errs = []
    # hand-computed: field [[0,1],[2,3]] -> rmax 2, sexp 1, nexp 2, scexp 32
    p = pack([[0.0, 1.0], [2.0, 3.0]])
    if (p['nexp'], list(p['bytes']), p['ksum'], p['ksum_mod']) != \
            (2, [127, 159, 191, 159], 126, 126):
        errs.append('arl_ref: hand example gives %r' % (
            (p['nexp'], list(p['bytes']), p['ksum'], p['ksum_mod']),))
    if abs(p['prec'] - 4.0 / 254.0) > 1e-9 or p['var1'] != 0.0:
        errs.append('arl_ref: hand example prec/var1 %r %r' %
                    (p['prec'], p['var1']))
    if unpack(p['bytes'], 2, 2, 2, 0.0) != [[0.0, 1.0], [2.0, 3.0]]:
        errs.append('arl_ref: hand example does not unpack')
    # fractional exponent: rmax 0.3 -> sexp -1.73 -> nexp -1
    p = pack([[0.0, 0.3, 0.1]])
    if p['nexp'] != -1:
        errs.append('arl_ref: rmax 0.3 gives nexp %d' % p['nexp'])
    # whole negative exponent: rmax 0.25 -> sexp -2 -> nexp -1
    p = pack([[0.0, 0.25]])
    if p['nexp'] != -1 or list(p['bytes']) != [127, 127 + 64]:
        errs.append('arl_ref: rmax 0.25 gives %d %r' % (p['nexp'],
                                                      list(p['bytes'])))
    p = pack([[5.0, 5.0], [5.0, 5.0]])
    if p['nexp'] != 1 or list(p['bytes']) != [127] * 4:
        errs.append('arl_ref: constant field gives %d %r' % (
            p['nexp'], list(p['bytes'])))
    if rotating_sum([255, 255]) != 255 or rotating_sum([0, 0]) != 0 or \
            rotating_sum([200, 100]) != 45:
        errs.append('arl_ref: rotating sum')
    # deterministic pseudo-random fields: bound and layout
    seed = 12345
    fields = {}
    nx, ny = 19, 18

    def rnd():
        nonlocal seed
        seed = (seed * 1103515245 + 12345) % (2 ** 31)
        return seed / 2.0 ** 31
    spec = dict(nx=nx, ny=ny, grid='99', source='TEST', vsys=2,
                geo=dict(pollat=60.0, pollon=-50.0, reflat=1.0, reflon=1.0,
                         gridx=0.0, orient=0.0, tanlat=0.0, synchx=1.0,
                         synchy=1.0, synchlat=20.0, synchlon=-100.0,
                         reserved=0.0),
                levels=['   0.0', '1000.0', ' 850.0'], sfc=['PRSS', 'T02M'],
                upper=[['TEMP', 'UWND'], ['TEMP', 'UWND']],
                times=[[99, 12, 31, 21, 0], [0, 1, 1, 0, 0]], fields=fields)
    for ti in range(2):
        for li, keys in enumerate([spec['sfc']] + spec['upper']):
            for key in keys:
                scale = {'PRSS': 1000.0, 'T02M': 30.0, 'TEMP': 25.0,
                         'UWND': 1e-3}[key]
                fields[(ti, li, key)] = [[f32(scale * (rnd() - 0.5) + 270.)
                                          for i in range(nx)]
                                         for j in range(ny)]
    try:
        buf, info = encode(spec)
        dec = decode(buf)
    except FormatError as e:
        return errs + ['arl_ref: encode/decode: %s' % e]
    if len(buf) != 2 * (1 + 2 + 4) * (50 + nx * ny):
        errs.append('arl_ref: file length %d' % len(buf))
    if len(dec['times']) != 2 or dec['nx'] != nx or dec['ny'] != ny:
        errs.append('arl_ref: decode shape')
    for (ti, li, key), rows in fields.items():
        rec = dec['times'][ti]['records'][(li, key)]
        bound = step(rec['label']['nexp'])
        if rec['checksum'] != rotating_sum(rec['data']):
            errs.append('arl_ref: checksum of %r' % ((ti, li, key),))
        for j in range(ny):
            for i in range(nx):
                if abs(rec['values'][j][i] - rows[j][i]) > bound:
                    errs.append('arl_ref: %r cell %d,%d off by %g > %g' % (
                        (ti, li, key), j, i,
                        abs(rec['values'][j][i] - rows[j][i]), bound))
                    return errs
    if grid_chars(1003, 4) != 'A@' or grid_chars(4, 2001) != '@B' or \
            grid_chars(19, 18) != '99' or grid_offsets('A@') != [1000, 0] \
            or grid_offsets('99') != [0, 0] or grid_offsets('@B') != [0, 2000]:
        errs.append('arl_ref: grid characters')
    return errs


if __name__ == '__main__':
    import sys
    e = selfcheck()
    print('\n'.join(e) if e else 'arl_ref selfcheck ok')
    sys.exit(1 if e else 0)
