"""Fortran unformatted sequential records, big-endian 4-byte markers.

    [int32 n][n payload bytes][int32 n] ...

Only `struct`.  No PseudoNetCDF, no numpy.  Used by the reference CAMx codec
(vf/ref/camx_ref.py) and by the truncation check (C14) to classify cut
offsets."""
import struct


class FortranError(ValueError):
    """the byte string is not a gap-free sequence of well-formed records"""

    def __init__(self, msg, offset=None):
        ValueError.__init__(self, msg)
        self.offset = offset


def record(payload, endian='>'):
    """one record around `payload` (bytes)"""
    n = len(payload)
    m = struct.pack(endian + 'i', n)
    return m + bytes(payload) + m


def records(payloads, endian='>'):
    return b''.join(record(p, endian) for p in payloads)


def spans(buf, endian='>'):
    """[(start, payload_start, payload_end, end)] of every record; raises
    FortranError if a leading marker is negative, a record runs past the end
    of the buffer, a trailing marker differs from the leading one, or bytes
    are left over.  `end` of the last record == len(buf)."""
    out = []
    pos = 0
    n = len(buf)
    while pos < n:
        if pos + 4 > n:
            raise FortranError('%d stray byte(s) at offset %d: too short for '
                               'a leading marker' % (n - pos, pos), pos)
        (m,) = struct.unpack_from(endian + 'i', buf, pos)
        if m < 0:
            raise FortranError('negative leading marker %d at offset %d' %
                               (m, pos), pos)
        pe = pos + 4 + m
        if pe + 4 > n:
            raise FortranError('record at offset %d announces %d bytes but '
                               'only %d remain (incl. trailing marker)' %
                               (pos, m, n - pos - 4), pos)
        (t,) = struct.unpack_from(endian + 'i', buf, pe)
        if t != m:
            raise FortranError('record at offset %d: leading marker %d != '
                               'trailing marker %d' % (pos, m, t), pos)
        out.append((pos, pos + 4, pe, pe + 4))
        pos = pe + 4
    return out


def walk(buf, endian='>'):
    """[(offset, payload bytes)] for every record; validates as spans()"""
    return [(s, bytes(buf[ps:pe])) for s, ps, pe, e in spans(buf, endian)]


def payloads(buf, endian='>'):
    return [p for o, p in walk(buf, endian)]


def classify_offset(sp, k):
    """position class of a cut offset k (prefix length) relative to the
    record spans `sp` of the complete file: 'boundary' (k is the start of a
    record, i.e. only whole records are kept), 'marker' (inside a leading or
    trailing marker) or 'mid' (inside a payload).  Returns (class, index of
    the record that is cut or that starts at k)."""
    lo, hi = 0, len(sp) - 1
    while lo <= hi:
        mid = (lo + hi) // 2
        s, ps, pe, e = sp[mid]
        if k < s:
            hi = mid - 1
        elif k >= e:
            lo = mid + 1
        else:
            if k == s:
                return 'boundary', mid
            if ps < k < pe:
                return 'mid', mid
            # inside or at the edge of the leading / trailing marker (k == pe
            # keeps the whole payload but not the trailing marker)
            return 'marker', mid
    return 'boundary', len(sp)
