"""Independent line reader for ICARTT / NASA-Ames FFI 1001 text files.

Written from the ICARTT data format description (one independent variable,
header of NLHEAD lines, the last header line holding the column names).
Standard library only; NO PseudoNetCDF / numpy imports.

 line 1            NLHEAD, 1001
 line 2..5         PI, organisation, source description, mission
 line 6            file volume number, number of volumes
 line 7            date of data, date of revision (6 integers)
 line 8            data interval
 line 9            independent variable: name[, unit[, ...]]
 line 10           NV number of dependent variables
 line 11           NV scale factors
 line 12           NV missing data indicators
 line 13..12+NV    dependent variable: name, unit[, ...]
 line 13+NV        NSCOML number of special comment lines
 ...               NSCOML special comment lines
 next              NNCOML number of normal comment lines (includes the
                   column-header line in ICARTT proper; writers differ, so
                   the parser reports both counts and lets the caller judge)
 ...               normal comment lines
 line NLHEAD       column names
 then              data records, NV+1 numbers each
"""
import os
import re


class FormatError(Exception):
    pass


def _split(line, comma):
    if comma:
        return [s.strip() for s in line.split(',')]
    return line.split()


def parse(text):
    """returns a dict; raises FormatError when the declared structure does
    not fit the text"""
    lines = text.split('\n')
    # trailing empty lines are not records
    while lines and lines[-1].strip() == '':
        lines.pop()
    if not lines:
        raise FormatError('empty file')
    comma = ',' in lines[0]
    first = _split(lines[0], comma)
    if len(first) != 2:
        raise FormatError('line 1 is %r' % lines[0])
    try:
        nlhead = int(first[0])
    except ValueError:
        raise FormatError('line 1 header count %r' % first[0])
    if first[1] != '1001':
        raise FormatError('format index %r' % first[1])
    if nlhead > len(lines):
        raise FormatError('declares %d header lines, file has %d lines' %
                          (nlhead, len(lines)))
    if nlhead < 14:
        raise FormatError('declares %d header lines, minimum is 14' % nlhead)
    out = dict(nlhead=nlhead, comma=comma)
    out['pi'], out['org'], out['source'], out['mission'] = [
        s.strip() for s in lines[1:5]]
    out['volume'] = lines[5].strip()
    out['dates'] = re.split(r'[,\s\-]+', lines[6].strip())
    out['interval'] = lines[7].strip()
    out['indep_line'] = lines[8].strip()
    ind = [s.strip() for s in lines[8].split(',')]
    out['indep_name'] = ind[0]
    out['indep_unit'] = ind[1] if len(ind) > 1 else None
    try:
        nv = int(lines[9].strip())
    except ValueError:
        raise FormatError('line 10 (number of dependent variables) is %r' %
                          lines[9])
    out['nv'] = nv
    if 12 + nv + 2 > nlhead:
        raise FormatError('%d dependent variables do not fit in %d header '
                          'lines' % (nv, nlhead))
    out['scales'] = _split(lines[10], comma)
    out['missing'] = _split(lines[11], comma)
    if len(out['scales']) != nv:
        raise FormatError('%d scale factors for %d variables' %
                          (len(out['scales']), nv))
    if len(out['missing']) != nv:
        raise FormatError('%d missing codes for %d variables' %
                          (len(out['missing']), nv))
    deps = []
    for k in range(nv):
        parts = [s.strip() for s in lines[12 + k].split(',')]
        deps.append((parts[0], parts[1] if len(parts) > 1 else None))
    out['deps'] = deps
    pos = 12 + nv
    try:
        nsp = int(lines[pos].strip())
    except ValueError:
        raise FormatError('line %d (special comment count) is %r' %
                          (pos + 1, lines[pos]))
    out['nspecial'] = nsp
    out['special'] = lines[pos + 1:pos + 1 + nsp]
    pos = pos + 1 + nsp
    if pos >= nlhead:
        raise FormatError('special comments run past the header')
    try:
        nnc = int(lines[pos].strip())
    except ValueError:
        raise FormatError('line %d (normal comment count) is %r' %
                          (pos + 1, lines[pos]))
    out['nnormal'] = nnc
    # lines between the count and the column header
    out['normal'] = lines[pos + 1:nlhead - 1]
    out['normal_incl_header'] = (nnc == len(out['normal']) + 1)
    if nnc not in (len(out['normal']), len(out['normal']) + 1):
        raise FormatError('declares %d normal comment lines, %d lie between '
                          'the count and the column header (line %d)' %
                          (nnc, len(out['normal']), nlhead))
    hdr = lines[nlhead - 1]
    out['columns'] = [s for s in re.split(r'[,\s]+', hdr.strip()) if s]
    rows = []
    for i, ln in enumerate(lines[nlhead:]):
        cells = _split(ln, comma)
        if len(cells) != nv + 1:
            raise FormatError('data line %d has %d values, expected %d' %
                              (nlhead + 1 + i, len(cells), nv + 1))
        try:
            [float(c) for c in cells]
        except ValueError:
            raise FormatError('data line %d is not numeric: %r' %
                              (nlhead + 1 + i, ln))
        rows.append(cells)
    out['rows'] = rows
    return out


def column(p, k):
    return [float(r[k]) for r in p['rows']]


def selfcheck(repo_src=None):
    errs = []
    src = repo_src or os.environ.get('VF_REPO', '/repo/src')
    path = os.path.join(src, 'PseudoNetCDF', 'testcase', 'icarttfiles',
                        'test.ffi1001')
    try:
        with open(path) as fi:
            text = fi.read()
    except IOError as e:
        return ['icartt_ref: cannot read sample: %s' % e]
    try:
        p = parse(text)
    except FormatError as e:
        return ['icartt_ref: sample does not parse: %s' % e]
    if p['nlhead'] != 36 or p['nv'] != 4:
        errs.append('icartt_ref: nlhead/nv %r %r' % (p['nlhead'], p['nv']))
    if p['columns'] != ['Start_UTC', 'Stop_UTC', 'Mid_UTC', 'OH_pptv',
                        'HO2_pptv']:
        errs.append('icartt_ref: columns %r' % p['columns'])
    if [d[0] for d in p['deps']] != p['columns'][1:]:
        errs.append('icartt_ref: dependent names %r' % p['deps'])
    if p['indep_name'] != 'Start_UTC' or p['columns'][0] != 'Start_UTC':
        errs.append('icartt_ref: independent variable %r' % p['indep_name'])
    if p['missing'] != ['-9999'] * 4 or p['scales'] != ['1'] * 4:
        errs.append('icartt_ref: missing/scales %r %r' % (p['missing'],
                                                          p['scales']))
    if p['nspecial'] != 0 or p['nnormal'] != 18 or \
            not p['normal_incl_header'] or len(p['normal']) != 17:
        errs.append('icartt_ref: comment counts %r %r %r' % (
            p['nspecial'], p['nnormal'], len(p['normal'])))
    if len(p['rows']) != 8:
        errs.append('icartt_ref: %d data rows' % len(p['rows']))
    else:
        if column(p, 0) != [63481., 64239., 66325., 66345., 66365., 66385.,
                            80007., 80027.]:
            errs.append('icartt_ref: Start_UTC %r' % column(p, 0))
        if column(p, 3) != [-9999., 0.094, 0.051, -9999., 0.085, -9999.,
                            -9999., -9999.]:
            errs.append('icartt_ref: OH_pptv %r' % column(p, 3))
        if column(p, 4) != [-9999., -9999., 4.718, 5.363, 7.152, 6.759,
                            -9999., -9999.]:
            errs.append('icartt_ref: HO2_pptv %r' % column(p, 4))
    if p['dates'] != ['2004', '06', '26', '2005', '01', '12']:
        errs.append('icartt_ref: dates %r' % p['dates'])
    return errs


if __name__ == '__main__':
    import sys
    e = selfcheck()
    print('\n'.join(e) if e else 'icartt_ref selfcheck ok')
    sys.exit(1 if e else 0)
