"""CamxSpec: JSON-able description of one CAMx binary file + everything that
is derived from it deterministically:

  camxspecs(...)        Hypothesis strategy
  model_of(spec)        independent numpy model (variables as '>f4' arrays,
                        TFLAG/ETFLAG by stdlib datetime arithmetic, header
                        attributes)
  content_of(spec)      the content dictionary the reference encoder takes
  ref_bytes(spec)       reference-encoded file
  build_lib(spec, ...)  in-memory library file for the library writers
  write_lib / open_lib  library writer / reader (memmap or record based)
  view_of_content(...)  reference-decoded content -> comparable view

The float payload is described by {'mode', 'seed', 'over'} and expanded with
sha256 in counter mode (deterministic, no RNG): 'ramp' = 1, 2, 3, ... (every
cell distinct), 'bits' = uniformly distributed finite bit patterns,
'special' = a pool of edge patterns (+-0, denormals, FLT_MIN, FLT_MAX, ...);
'over' lists explicit (position, 32-bit pattern) overrides.  The spec
therefore fixes every bit of the file."""
import datetime
import hashlib

from collections import OrderedDict

import numpy as np
from hypothesis import strategies as st

from .ref import camx_ref as R

UAMIV_NAMES = ['AVERAGE', 'EMISSIONS', 'AIRQUALITY', 'INSTANT']
GRIDDED_MET = ['temperature', 'height_pressure', 'humidity',
               'vertical_diffusivity', 'one3d', 'wind', 'cloud_rain']
ALL_FORMATS = ['uamiv', 'lateral_boundary'] + GRIDDED_MET + ['landuse']
ONE3D_VAR = {'humidity': 'HUM', 'vertical_diffusivity': 'KV',
             'one3d': 'UNKNOWN'}
CR_VARS = {3: ['CLOUD', 'PRECIP', 'COD'],
           5: ['CLOUD', 'RAIN', 'SNOW', 'GRAUPEL', 'COD']}
RESERVED = ('DATE', 'TFLAG', 'ETFLAG')
SPECIALS = [0x00000000, 0x80000000, 0x00000001, 0x80000001, 0x007fffff,
            0x807fffff, 0x00800000, 0x80800000, 0x7f7fffff, 0xff7fffff,
            0x3f800000, 0xbf800000, 0x3f800001, 0x00400000, 0x4b800000,
            0x33800000]
REAL_NAMES = ['O3', 'NO', 'NO2', 'NOX', 'CO', 'SO2', 'PM2_5', 'ISOP', 'HNO3',
              'PNO3', 'FORM', 'N2O5', 'NTR', 'H2O2', 'PAR', 'OLE', 'ETH',
              'XYL', 'TOL', 'PSO4', 'CPRM', 'FPRM', 'A', 'Z9', 'NA',
              'ABCDEFGHIJ', 'SOA1', 'SOA2', 'O', 'O1D', 'ZZZZZZZZZ9']


# ---------------------------------------------------------------- strategy
def _ylen(y):
    return 366 if (y % 4 == 0 and (y % 100 != 0 or y % 400 == 0)) else 365


@st.composite
def species_names(draw, n):
    out = []
    while len(out) < n:
        if draw(st.integers(0, 3)) > 0:
            nm = draw(st.sampled_from(REAL_NAMES))
        else:
            k = draw(st.integers(1, 10))
            first = draw(st.sampled_from('ABCDEFGHIJKLMNOPQRSTUVWXYZ'))
            rest = draw(st.text(alphabet='ABCDEFGHIJKLMNOPQRSTUVWXYZ'
                                '0123456789_', min_size=k - 1,
                                max_size=k - 1))
            nm = first + rest
        if nm in out or nm in RESERVED:
            continue
        out.append(nm)
    return out


@st.composite
def start_dates(draw, span_h):
    """[year, jday, hour]; weighted toward day / year / century / leap-day
    roll-overs; every instant of the file incl. the last end time stays in
    1970..2069"""
    kind = draw(st.sampled_from(['plain', 'plain', 'day', 'day', 'year',
                                 'year', 'century', 'leap', 'leap',
                                 'edge']))
    late = st.integers(max(0, 24 - span_h), 23) if span_h >= 1 \
        else st.just(23)
    if kind == 'plain':
        y = draw(st.integers(1970, 2069))
        j = draw(st.integers(1, _ylen(y)))
        h = draw(st.integers(0, 23))
    elif kind == 'day':
        y = draw(st.integers(1970, 2069))
        j = draw(st.integers(1, _ylen(y) - 1))
        h = draw(late)
    elif kind == 'year':
        y = draw(st.integers(1970, 2068))
        j = _ylen(y)
        h = draw(late)
    elif kind == 'century':
        y, j = 1999, 365
        h = draw(late)
    elif kind == 'leap':
        y = draw(st.sampled_from([1972, 1996, 2000, 2004, 2024, 2068]))
        j = draw(st.sampled_from([59, 60, 365]))
        h = draw(late)
    else:
        y, j, h = draw(st.sampled_from([(1970, 1, 0), (2069, 365, 0),
                                        (2000, 1, 0), (1999, 365, 0),
                                        (2069, 364, 23), (1970, 1, 23)]))
    # keep the end of the last step inside the window
    t0 = datetime.datetime(y, 1, 1) + datetime.timedelta(days=j - 1, hours=h)
    lim = datetime.datetime(2070, 1, 1)
    if t0 + datetime.timedelta(hours=span_h) >= lim:
        t0 = lim - datetime.timedelta(hours=span_h + 1)
    return [t0.year, t0.timetuple().tm_yday, t0.hour]


@st.composite
def input_dtypes(draw, spec):
    """variable dtype of an in-memory writer input; adjusts the payload so
    that an integer dtype holds integers"""
    vd = draw(st.sampled_from(['f4', 'f4', 'f8', 'f8', '>f4', 'i4']))
    if vd == 'i4':
        spec['payload'] = {'mode': 'ramp', 'seed': spec['payload']['seed'],
                           'over': []}
    spec['vdtype'] = vd
    return vd


@st.composite
def payloads(draw):
    # 'zeros': the whole file is made of zeros - seed % 3 == 0 a +-0 mixture,
    # 1 all -0.0, 2 all denormals; 'zslab': the ramp with every third slab
    # of p['slab'] cells (one 2-D field; set by camxspecs) replaced by a +-0
    # mixture that contains at least one -0.0
    mode = draw(st.sampled_from(['ramp', 'bits', 'bits', 'special', 'zeros',
                                 'zslab']))
    seed = draw(st.integers(0, 2 ** 32 - 1))
    over = draw(st.lists(st.tuples(st.integers(0, 4095),
                                   st.sampled_from(SPECIALS)), max_size=3))
    return {'mode': mode, 'seed': seed, 'over': [list(o) for o in over]}


EXACT_LON = [-97.0, -100.5, 0.0, 10.25, -120.0, 45.0]
EXACT_LAT = [40.0, 33.5, 0.0, -15.25, 60.0]
EXACT_ORG = [-2736.0, -792000.0, 0.0, 12.5, -0.5, 100.0, -1656000.0]
EXACT_DEL = [36000.0, 12000.0, 4.0, 0.5, 1.0, 0.125, 12.0]


@st.composite
def projections(draw):
    iproj = draw(st.sampled_from([0, 0, 1, 2, 2, 3]))
    p = dict(iproj=iproj, plon=0.0, plat=0.0, tlat1=0.0, tlat2=0.0, iutm=0,
             istag=draw(st.sampled_from([0, 0, 1])),
             xorg=draw(st.sampled_from(EXACT_ORG)),
             yorg=draw(st.sampled_from(EXACT_ORG)),
             delx=draw(st.sampled_from(EXACT_DEL)),
             dely=draw(st.sampled_from(EXACT_DEL)))
    if iproj == 0:
        # lat-lon; old files leave every projection field zero
        if draw(st.booleans()):
            p['plon'] = draw(st.sampled_from(EXACT_LON))
            p['plat'] = draw(st.sampled_from(EXACT_LAT))
    elif iproj == 1:
        p['iutm'] = draw(st.sampled_from([1, 15, 16, 60, -30]))
        p['plon'] = draw(st.sampled_from(EXACT_LON))
        p['plat'] = draw(st.sampled_from(EXACT_LAT))
    elif iproj == 2:
        p['plon'] = draw(st.sampled_from(EXACT_LON))
        p['plat'] = draw(st.sampled_from(EXACT_LAT))
        p['tlat1'] = draw(st.sampled_from([33.0, 30.0, 45.0, 60.0]))
        p['tlat2'] = draw(st.sampled_from([45.0, 60.0, 33.0]))
    else:
        p['plon'] = draw(st.sampled_from(EXACT_LON))
        p['plat'] = draw(st.sampled_from([90.0, -90.0]))
        p['tlat1'] = draw(st.sampled_from([60.0, -71.0, 45.0]))
    return p


FORMAT_WEIGHT = {'uamiv': 5, 'lateral_boundary': 2}


def _sizes(mx):
    # length 1 stays well represented without dominating
    return st.sampled_from([n for n in [1, 2, 2, 3, 3, 4, 5] if n <= mx])


@st.composite
def camxspecs(draw, formats=ALL_FORMATS, max_n=5, max_nz=5, max_steps=4,
              max_spec=4, steps_min=1,
              step_choices=(1, 1, 1, 1, 1, 2, 3, 6, 12, 24, 24, 24, 48),
              names=UAMIV_NAMES, weights=None):
    pool = []
    for f_ in formats:
        pool += [f_] * (FORMAT_WEIGHT if weights is None
                        else weights).get(f_, 1)
    fmt = draw(st.sampled_from(pool))
    s = OrderedDict(fmt=fmt)
    s['nx'] = draw(_sizes(max_n))
    s['ny'] = draw(_sizes(max_n))
    s['nz'] = draw(_sizes(max_nz))
    if fmt == 'landuse':
        s['newstyle'] = draw(st.booleans())
        s['nland'] = draw(st.sampled_from([11, 26])) if s['newstyle'] else 11
        # old-style files are land-use fractions + optional topography
        s['nextra'] = draw(st.integers(0, 2 if s['newstyle'] else 1))
        s['nz'] = 1
        s['payload'] = draw(payloads())
        if s['payload']['mode'] == 'zslab':
            s['payload']['slab'] = s['nx'] * s['ny']
        return dict(s)
    if fmt == 'lateral_boundary':
        # an edge needs its two corner cells: a boundary file of a domain
        # that is one cell wide does not exist
        s['nx'] = max(s['nx'], 2)
        s['ny'] = max(s['ny'], 2)
    s['nsteps'] = draw(st.sampled_from(
        [n for n in [1, 2, 2, 3, 3, 4, 4] if steps_min <= n <= max_steps]))
    s['step_h'] = draw(st.sampled_from(list(step_choices)))
    if fmt == 'lateral_boundary':
        s['step_h'] = 1
    s['start'] = draw(start_dates(s['nsteps'] * s['step_h']))
    if fmt in ('uamiv', 'lateral_boundary'):
        s['species'] = draw(species_names(draw(st.integers(1, max_spec))))
        s['name'] = draw(st.sampled_from(list(names))) if fmt == 'uamiv' \
            else 'BOUNDARY'
        if s['name'] == 'AIRQUALITY' and s['nsteps'] != 1:
            # initial-condition files hold one time
            s['nsteps'] = 1
            s['start'] = draw(start_dates(s['step_h']))
        # 60 characters kept verbatim: leading / inner / trailing blanks,
        # empty and full field
        s['note'] = draw(st.sampled_from([
            'CAMx test', '', 'x' * 60, 'a note, with punctuation -- 5.40',
            '   leading blanks', 'two  inner   blanks  and a tail   ',
            ' ' * 59 + 'z', ' x']))
        s['itzon'] = draw(st.sampled_from([0, 0, 5, 6, 8, -1]))
        s['proj'] = draw(projections())
    if fmt == 'wind':
        s['lstagger'] = draw(st.sampled_from([-1, -1, 0, 1, None]))
    if fmt == 'cloud_rain':
        s['nvar'] = draw(st.sampled_from([5, 5, 3]))
        if s['nvar'] == 3 and cloud_rain_ambiguous(s):
            # the format has no variable count: a 3-variable file whose size
            # is also a whole number of 5-variable steps is indistinguishable
            # by construction -> not generated
            s['nvar'] = 5
        # the descriptor field has 20 characters, kept verbatim (shorter
        # texts are blank padded to the field)
        s['desc'] = draw(st.sampled_from(['CAMx_V4.3 CLOUD_RAIN',
                                          'CAMx_V4.2 CLOUD_RAIN',
                                          'cloud rain test file',
                                          'CAMx CLOUD_RAIN     ',
                                          '  CLDRAIN v5        ',
                                          '   padded both ways ',
                                          'short', '', ' ' * 19 + 'x',
                                          'a  b   c']))
    s['payload'] = draw(payloads())
    if s['payload']['mode'] == 'zslab':
        s['payload']['slab'] = s['nx'] * s['ny']
    return dict(s)


def cloud_rain_ambiguous(s):
    rec = (s['nx'] * s['ny'] + 2) * 4
    size3 = s['nsteps'] * (3 * s['nz'] * rec + 16)
    return size3 % (5 * s['nz'] * rec + 16) == 0


# ------------------------------------------------------------------ payload
def _stream(seed, n):
    """n pseudo-random '>u4' words from sha256 in counter mode"""
    chunks = []
    need = 4 * n
    i = 0
    pre = ('z%d:' % int(seed)).encode()
    while need > 0:
        chunks.append(hashlib.sha256(pre + str(i).encode()).digest())
        need -= 32
        i += 1
    return np.frombuffer(b''.join(chunks)[:4 * n], dtype='>u4').copy()


def expand_payload(p, n):
    """n big-endian float32 values as a '>u4' array of bit patterns"""
    mode = p['mode']
    if mode in ('zeros', 'zslab'):
        raw = _stream(p['seed'], n)
        sign = (raw & np.uint32(1)).astype('>u4') << np.uint32(31)
        kind = int(p['seed']) % 3 if mode == 'zeros' else 0
        if mode == 'zeros' and kind == 1:
            bits = np.full(n, 0x80000000, dtype='>u4')
        elif mode == 'zeros' and kind == 2:
            bits = (raw & np.uint32(0x807fffff)) | np.uint32(1)
        elif mode == 'zeros':
            bits = sign
        else:
            slab = max(1, int(p.get('slab', 1)))
            bits = np.arange(1, n + 1, dtype='<f4').view('<u4').astype('>u4')
            for i0 in range(0, n, slab):
                if (i0 // slab + int(p['seed'])) % 3 == 0:
                    bits[i0:i0 + slab] = sign[i0:i0 + slab]
                    bits[i0] = 0x80000000
        bits = np.array(bits, dtype='>u4')
        if n:
            for pos, pat in p.get('over', []):
                bits[int(pos) % n] = int(pat)
        return bits
    if mode == 'ramp':
        bits = np.arange(1, n + 1, dtype='<f4').view('<u4').astype('>u4')
    elif mode == 'special':
        pool = np.array(SPECIALS, dtype='>u4')
        idx = (np.arange(n, dtype=np.int64) * 7 + int(p['seed'])) % len(pool)
        bits = pool[idx]
    else:
        chunks = []
        need = 4 * n
        i = 0
        seed = ('%d:' % int(p['seed'])).encode()
        while need > 0:
            chunks.append(hashlib.sha256(seed + str(i).encode()).digest())
            need -= 32
            i += 1
        bits = np.frombuffer(b''.join(chunks)[:4 * n], dtype='>u4').copy()
        # exponent 255 (inf/nan) -> clear one exponent bit: stays finite
        nonfin = (bits & 0x7f800000) == 0x7f800000
        bits[nonfin] &= np.uint32(0xbfffffff)
    bits = np.array(bits, dtype='>u4')
    if n:
        for pos, pat in p.get('over', []):
            bits[int(pos) % n] = int(pat)
    return bits


def payload_classes(bits):
    b = np.asarray(bits).astype(np.uint32)
    out = []
    exp = b & 0x7f800000
    man = b & 0x007fffff
    if ((exp == 0) & (man != 0)).any():
        out.append('denormal')
    if (b == 0x80000000).any():
        out.append('negzero')
    return out


# --------------------------------------------------------------------- time
def instants(spec):
    y, j, h = spec['start']
    t0 = datetime.datetime(y, 1, 1) + datetime.timedelta(days=j - 1, hours=h)
    dt = datetime.timedelta(hours=spec['step_h'])
    return [t0 + k * dt for k in range(spec['nsteps'] + 1)]


def yyyyjjj(t):
    return t.year * 1000 + t.timetuple().tm_yday


def hhmmss(t):
    return t.hour * 10000 + t.minute * 100 + t.second


def rollovers(spec, with_end=True):
    """which calendar boundaries lie strictly inside the file's time span
    (first begin .. last begin, or .. last end for formats with end times)"""
    ts = instants(spec)
    if not with_end:
        ts = ts[:-1]
    out = []
    a, b = ts[0], ts[-1]
    if a.date() != b.date():
        out.append('day')
    if a.year != b.year:
        out.append('year')
        if a.year // 100 != b.year // 100:
            out.append('century')
    for y in range(a.year, b.year + 1):
        if _ylen(y) == 366:
            for mid in (datetime.datetime(y, 2, 29),
                        datetime.datetime(y, 3, 1)):
                if a < mid <= b and 'leapday' not in out:
                    out.append('leapday')
            if a < datetime.datetime(y + 1, 1, 1) <= b:
                out.append('year366')
    return out


# -------------------------------------------------------------------- model
class Model(object):
    """independent picture of the file: vars name -> (dims, '>f4' array)"""

    def __init__(self):
        self.vars = OrderedDict()
        self.dims = OrderedDict()
        self.tflag = None      # (nt, 2) int: YYYYJJJ, HHMMSS
        self.etflag = None
        self.attrs = OrderedDict()
        self.bits = None


def var_layout(spec):
    """[(name, dims)] in canonical payload order"""
    fmt = spec['fmt']
    g = ('TSTEP', 'LAY', 'ROW', 'COL')
    if fmt == 'uamiv':
        return [(n, g) for n in spec['species']]
    if fmt == 'lateral_boundary':
        out = []
        for n in spec['species']:
            out += [('WEST_' + n, ('TSTEP', 'ROW', 'LAY')),
                    ('EAST_' + n, ('TSTEP', 'ROW', 'LAY')),
                    ('SOUTH_' + n, ('TSTEP', 'COL', 'LAY')),
                    ('NORTH_' + n, ('TSTEP', 'COL', 'LAY'))]
        return out
    if fmt == 'temperature':
        return [('SURFTEMP', ('TSTEP', 'ROW', 'COL')), ('AIRTEMP', g)]
    if fmt == 'height_pressure':
        return [('HGHT', g), ('PRES', g)]
    if fmt in ONE3D_VAR:
        return [(ONE3D_VAR[fmt], g)]
    if fmt == 'wind':
        return [('U', g), ('V', g)]
    if fmt == 'cloud_rain':
        return [(n, g) for n in CR_VARS[spec['nvar']]]
    if fmt == 'landuse':
        lu = ('LUCAT%02d' % spec['nland']) if spec['newstyle'] else 'FLAND'
        out = [(lu, ('LANDUSE', 'ROW', 'COL'))]
        extra = landuse_extra_keys(spec)
        out += [(k, ('ROW', 'COL')) for k in extra]
        return out
    raise KeyError(fmt)


def landuse_extra_keys(spec):
    n = spec['nextra']
    if spec['newstyle']:
        return [[], ['TOPO'], ['LAI', 'TOPO']][n]
    return [[], ['TOPO'], ['LAI', 'TOPO']][n]


def model_of(spec):
    m = Model()
    fmt = spec['fmt']
    if fmt == 'landuse':
        m.dims.update(LANDUSE=spec['nland'], ROW=spec['ny'], COL=spec['nx'])
    else:
        m.dims.update(TSTEP=spec['nsteps'], LAY=spec['nz'], ROW=spec['ny'],
                      COL=spec['nx'])
    lay = var_layout(spec)
    shapes = [tuple(m.dims[d] for d in dims) for _, dims in lay]
    sizes = [int(np.prod(s)) for s in shapes]
    bits = expand_payload(spec['payload'], sum(sizes))
    m.bits = bits
    pos = 0
    for (name, dims), shp, n in zip(lay, shapes, sizes):
        m.vars[name] = (dims, bits[pos:pos + n].view('>f4').reshape(shp))
        pos += n
    if fmt != 'landuse':
        ts = instants(spec)
        m.tflag = np.array([[yyyyjjj(t), hhmmss(t)] for t in ts[:-1]], 'i')
        m.etflag = np.array([[yyyyjjj(t), hhmmss(t)] for t in ts[1:]], 'i')
    if fmt in ('uamiv', 'lateral_boundary'):
        p = spec['proj']
        m.attrs.update(NAME=spec['name'].ljust(10),
                       NOTE=spec['note'].ljust(60), ITZON=spec['itzon'],
                       PLON=p['plon'], PLAT=p['plat'], TLAT1=p['tlat1'],
                       TLAT2=p['tlat2'], IUTM=p['iutm'], ISTAG=p['istag'],
                       CPROJ=p['iproj'], XORIG=p['xorg'], YORIG=p['yorg'],
                       XCELL=p['delx'], YCELL=p['dely'])
    if fmt == 'wind':
        m.attrs['LSTAGGER'] = spec['lstagger']
    if fmt == 'cloud_rain':
        m.attrs['FILEDESC'] = spec['desc'].ljust(20)[:20]
    return m


# ------------------------------------------------------- reference content
def _b(a):
    return np.ascontiguousarray(a).tobytes()


def content_of(spec):
    """content dictionary for vf.ref.camx_ref.encode"""
    m = model_of(spec)
    fmt = spec['fmt']
    nx, ny, nz = spec['nx'], spec['ny'], spec['nz']
    if fmt == 'landuse':
        lay = var_layout(spec)
        return {'fmt': 'landuse', 'nx': nx, 'ny': ny,
                'newstyle': spec['newstyle'], 'nland': spec['nland'],
                'fland': _b(m.vars[lay[0][0]][1]),
                'extra': [[k if spec['newstyle'] else None,
                           _b(m.vars[k][1])] for k, _ in lay[1:]]}
    ts = instants(spec)
    nt = spec['nsteps']

    def yj(t):
        return R.yyjjj(t.year, t.timetuple().tm_yday)
    if fmt in ('uamiv', 'lateral_boundary'):
        p = spec['proj']
        c = {'fmt': fmt, 'name': spec['name'].ljust(10),
             'note': spec['note'].ljust(60), 'itzon': spec['itzon'],
             'nspec': len(spec['species']),
             'ibdate': yj(ts[0]), 'btime': float(ts[0].hour),
             'iedate': yj(ts[-1]), 'etime': float(ts[-1].hour),
             'plon': p['plon'], 'plat': p['plat'], 'iutm': p['iutm'],
             'xorg': p['xorg'], 'yorg': p['yorg'], 'delx': p['delx'],
             'dely': p['dely'], 'nx': nx, 'ny': ny,
             # 2-D emission files carry nz = 0 in the grid header
             'nz': 0 if spec.get('hdr_nz0') and nz == 1 else nz,
             'iproj': p['iproj'], 'istag': p['istag'], 'tlat1': p['tlat1'],
             'tlat2': p['tlat2'], 'rdum': 0.0, 'cell': [1, 1, nx, ny],
             'species': [s.ljust(10) for s in spec['species']], 'steps': []}
        if fmt == 'lateral_boundary':
            c['edges'] = R.default_edges(nx, ny)
        for t in range(nt):
            stp = {'ibdate': yj(ts[t]), 'btime': float(ts[t].hour),
                   'iedate': yj(ts[t + 1]), 'etime': float(ts[t + 1].hour)}
            if fmt == 'uamiv':
                stp['data'] = [[_b(m.vars[s][1][t, k]) for k in range(nz)]
                               for s in spec['species']]
                stp['ione'] = [[1] * nz for s in spec['species']]
            else:
                stp['data'] = [[_b(m.vars[e + '_' + s][1][t])
                                for e in R.EDGES] for s in spec['species']]
            c['steps'].append(stp)
        return c
    steps = []
    for t in range(nt):
        stp = {'time': float(ts[t].hour * 100), 'date': yj(ts[t])}
        if fmt in ONE3D_VAR:
            v = m.vars[ONE3D_VAR[fmt]][1]
            stp['layers'] = [_b(v[t, k]) for k in range(nz)]
        elif fmt == 'temperature':
            stp['surface'] = _b(m.vars['SURFTEMP'][1][t])
            stp['layers'] = [_b(m.vars['AIRTEMP'][1][t, k])
                             for k in range(nz)]
        elif fmt == 'height_pressure':
            stp['layers'] = [[_b(m.vars['HGHT'][1][t, k]),
                              _b(m.vars['PRES'][1][t, k])]
                             for k in range(nz)]
        elif fmt == 'wind':
            stp['lstagger'] = spec['lstagger']
            stp['layers'] = [[_b(m.vars['U'][1][t, k]),
                              _b(m.vars['V'][1][t, k])] for k in range(nz)]
            stp['dummy'] = b'\x00\x00\x00\x00'
        elif fmt == 'cloud_rain':
            stp['layers'] = [[_b(m.vars[n][1][t, k])
                              for n in CR_VARS[spec['nvar']]]
                             for k in range(nz)]
        steps.append(stp)
    c = {'fmt': fmt, 'steps': steps, 'nz': nz, 'ncell': nx * ny}
    if fmt == 'cloud_rain':
        c.update(nx=nx, ny=ny, nz=nz, nvar=spec['nvar'],
                 desc=spec['desc'].ljust(20)[:20])
    return c


def ref_bytes(spec):
    raw = R.encode(content_of(spec))
    if spec.get('endian') == 'little':
        raw = to_little_endian(spec, raw)
    return raw


def to_little_endian(spec, raw):
    """the same file as a little-endian Fortran program writes it: every
    4-byte integer / real word and every record marker byte-swapped,
    character words (one character + three blanks) left as they are.  Only
    for uamiv, the one reader that documents an `endian` argument."""
    if spec['fmt'] != 'uamiv':
        raise KeyError('little-endian encoding is defined for uamiv only')
    from .ref import fortran

    def swap(b, keep=()):
        return b''.join(b[i:i + 4] if i // 4 in keep else b[i:i + 4][::-1]
                        for i in range(0, len(b), 4))
    recs = fortran.payloads(raw, '>')
    out = [swap(recs[0], keep=set(range(70))), swap(recs[1]), swap(recs[2]),
           recs[3]]
    for rec in recs[4:]:
        if len(rec) == 16:                  # time record
            out.append(swap(rec))
        else:                               # ione, 10 character words, data
            out.append(swap(rec, keep=set(range(1, 11))))
    return fortran.records(out, '<')


def decode_hints(spec):
    h = dict(nx=spec['nx'], ny=spec['ny'])
    if spec['fmt'] in GRIDDED_MET and spec['fmt'] != 'cloud_rain':
        h['nz'] = spec['nz']
    if spec['fmt'] == 'cloud_rain':
        h = dict(nvar=spec['nvar'])
    if spec['fmt'] in ('uamiv', 'lateral_boundary'):
        h = {}
    return h


# -------------------------------- decoded content -> comparable view
class View(object):
    """what a decoded file says: variable name -> '>f4' array, per-step
    (year, jday, hour) begin / end instants, header fields"""

    def __init__(self):
        self.vars = OrderedDict()
        self.begin = []
        self.end = None
        self.hdr = OrderedDict()


def _arr(chunks, shape):
    raw = b''.join(chunks)
    return np.frombuffer(raw, dtype='>f4').reshape(shape)


def _inst(date, hours):
    y, j = R.expand_yyjjj(date)
    return (y, j, hours)


def view_of_content(c, nx=None, ny=None):
    v = View()
    fmt = c['fmt']
    if fmt == 'landuse':
        nx, ny = c['nx'], c['ny']
        name = ('LUCAT%02d' % c['nland']) if c['newstyle'] else 'FLAND'
        v.vars[name] = _arr([c['fland']], (c['nland'], ny, nx))
        for i, (k, f) in enumerate(c['extra']):
            key = k if k is not None else ['TOPO', 'VAR2', 'VAR3'][min(i, 2)]
            v.vars[key] = _arr([f], (ny, nx))
        v.hdr['newstyle'] = c['newstyle']
        return v
    nt = len(c['steps'])
    if fmt in ('uamiv', 'lateral_boundary'):
        nx, ny, nz = c['nx'], c['ny'], max(c['nz'], 1)
        for k in ['name', 'note', 'itzon', 'plon', 'plat', 'iutm', 'xorg',
                  'yorg', 'delx', 'dely', 'nx', 'ny', 'nz', 'iproj', 'istag',
                  'tlat1', 'tlat2', 'rdum', 'ibdate', 'btime', 'iedate',
                  'etime', 'cell', 'nspec']:
            v.hdr[k] = c[k]
        v.hdr['species'] = list(c['species'])
        v.begin = [_inst(s['ibdate'], s['btime']) for s in c['steps']]
        v.end = [_inst(s['iedate'], s['etime']) for s in c['steps']]
        for si, sp in enumerate(c['species']):
            sp = sp.strip()
            if fmt == 'uamiv':
                v.vars[sp] = _arr([s['data'][si][k] for s in c['steps']
                                   for k in range(nz)], (nt, nz, ny, nx))
            else:
                for ei, e in enumerate(R.EDGES):
                    n = ny if ei < 2 else nx
                    v.vars[e + '_' + sp] = _arr(
                        [s['data'][si][ei] for s in c['steps']], (nt, n, nz))
        if fmt == 'lateral_boundary':
            v.hdr['edges'] = c['edges']
        if fmt == 'uamiv':
            v.hdr['ione'] = sorted(set(x for s in c['steps']
                                       for l in s['ione'] for x in l))
        return v
    nz = c['nz']
    if fmt == 'cloud_rain':
        nx, ny = c['nx'], c['ny']
        v.hdr.update(desc=c['desc'], nx=nx, ny=ny, nz=nz, nvar=c['nvar'])
    g = (nt, nz, ny, nx)
    # HHMM -> hours (whole hours only: anything else is reported as is)
    v.begin = [_inst(s['date'], s['time'] / 100.0) for s in c['steps']]
    if fmt in ONE3D_VAR:
        v.vars[ONE3D_VAR[fmt]] = _arr([f for s in c['steps']
                                       for f in s['layers']], g)
    elif fmt == 'temperature':
        v.vars['SURFTEMP'] = _arr([s['surface'] for s in c['steps']],
                                  (nt, ny, nx))
        v.vars['AIRTEMP'] = _arr([f for s in c['steps']
                                  for f in s['layers']], g)
    elif fmt == 'height_pressure':
        v.vars['HGHT'] = _arr([l[0] for s in c['steps']
                               for l in s['layers']], g)
        v.vars['PRES'] = _arr([l[1] for s in c['steps']
                               for l in s['layers']], g)
    elif fmt == 'wind':
        v.vars['U'] = _arr([l[0] for s in c['steps'] for l in s['layers']], g)
        v.vars['V'] = _arr([l[1] for s in c['steps'] for l in s['layers']], g)
        v.hdr['lstagger'] = [s['lstagger'] for s in c['steps']]
        v.hdr['dummy'] = [s['dummy'] for s in c['steps']]
    elif fmt == 'cloud_rain':
        for i, n in enumerate(CR_VARS[c['nvar']]):
            v.vars[n] = _arr([l[i] for s in c['steps']
                              for l in s['layers']], g)
    return v


# ------------------------------------------------------ bit-exact comparison
def be_bits(a):
    """bit patterns of a float32 array (any byte order) as '>u4'; None if the
    array is not float32"""
    a = np.asarray(a)
    if a.dtype.kind != 'f' or a.dtype.itemsize != 4:
        return None
    a = np.ascontiguousarray(a)
    return a.view(a.dtype.str.replace('f', 'u')).astype('>u4')


def cmp_bits(got, exp, what):
    """got: library variable/array, exp: float32 array.  None or message"""
    try:
        ga = got[...]
    except Exception as e:   # reported by the caller through guard normally
        return '%s: cannot be read (%s: %s)' % (what, type(e).__name__, e)
    if isinstance(ga, np.ma.MaskedArray):
        if np.ma.getmaskarray(ga).any():
            return '%s: has masked cells' % what
        ga = np.ma.getdata(ga)
    ga = np.asarray(ga)
    ea = np.asarray(exp)
    if ga.shape != ea.shape:
        return '%s: shape %r, expected %r' % (what, ga.shape, ea.shape)
    if ga.ndim == 0:
        ga = ga.reshape(1)
        ea = ea.reshape(1)
    gb = be_bits(ga)
    if gb is None:
        return '%s: dtype %s is not float32' % (what, ga.dtype)
    eb = be_bits(ea)
    if gb.tobytes() != eb.tobytes():
        bad = np.argwhere(gb != eb)
        i = tuple(bad[0])
        return ('%s: %d of %d cells differ bitwise; first at %r: got %r '
                '(0x%08x), expected %r (0x%08x)' % (
                    what, len(bad), gb.size, tuple(int(x) for x in i),
                    float(ga[i]), int(gb[i]), float(ea[i]), int(eb[i])))
    return None


# -------------------------------------------------------------- library side
def lib_modules():
    import PseudoNetCDF.camxfiles.Memmaps as MM
    import PseudoNetCDF.camxfiles.Readers as RD
    import PseudoNetCDF.camxfiles.Writers as WR
    return MM, RD, WR


HAS_RECORD_READER = ['uamiv', 'temperature', 'height_pressure', 'humidity',
                     'vertical_diffusivity', 'wind', 'one3d']


def open_lib(spec, path, reader='memmap'):
    MM, RD, WR = lib_modules()
    fmt = spec['fmt']
    mod = MM if reader == 'memmap' else RD
    cls = getattr(mod, fmt)
    if fmt == 'uamiv' and spec.get('endian') == 'little' and \
            reader == 'memmap':
        return cls(path, endian='little')
    if fmt in ('uamiv', 'lateral_boundary'):
        return cls(path)
    return cls(path, spec['ny'], spec['nx'])


def write_lib(spec, f, path):
    """library writer for the format; returns after the handle is closed"""
    MM, RD, WR = lib_modules()
    fmt = spec['fmt']
    fn = getattr(WR, 'ncf2' + fmt)
    out = fn(f, path)
    try:
        out.close()
    except AttributeError:
        pass
    return path


def tflag_array(tf, nvar):
    """(nt, 2) -> (nt, nvar, 2) int32"""
    return np.repeat(np.asarray(tf, 'i')[:, None, :], nvar, axis=1)


def native(a):
    """'>f4' model array -> native float32 with identical bits"""
    return be_bits(a).astype('<u4').view('<f4')


VDTYPES = {'f4': ('f', '<f4'), 'f8': ('d', '<f8'), '>f4': ('>f4', '>f4'),
           'i4': ('i', '<i4')}


def as_vdtype(spec, arr32):
    """the model's float32 values held in the variable dtype of the in-memory
    input (spec['vdtype']: f4 default, f8, big-endian f4, i4).  Every value is
    exactly representable in float32 by construction (i4 is only drawn with
    the integer-valued ramp payload), so the expected on-disk payload is
    unchanged."""
    code, dt = VDTYPES[spec.get('vdtype', 'f4')]
    a = native(arr32)
    if dt == '<f4':
        return a
    out = a.astype(dt)
    if not np.array_equal(out.astype('<f4').view('<u4'), a.view('<u4')):
        from .core import HarnessError
        raise HarnessError('payload is not exactly representable as %s' % dt)
    return out


def creation_order(spec, lay):
    """order in which the data variables are created in the in-memory file
    (spec['vorder'] = permutation of range(len(lay)), route 'pnc' only).
    The formats fix the record order themselves (landuse: land-use record
    first; temperature: surface then layers; wind: U then V; uamiv /
    lateral_boundary: the VAR-LIST order, which is content and is NOT
    permuted), so the bytes written must not depend on it."""
    order = spec.get('vorder')
    if not order or sorted(order) != list(range(len(lay))):
        return lay
    return [lay[i] for i in order]


@st.composite
def input_orders(draw, spec):
    n = len(var_layout(spec))
    if n < 2 or draw(st.booleans()):
        spec['vorder'] = None
        return None
    spec['vorder'] = list(draw(st.permutations(list(range(n)))))
    return spec['vorder']


SLICE_FORMATS = ('temperature', 'height_pressure', 'humidity',
                 'vertical_diffusivity', 'one3d', 'wind', 'cloud_rain')
SLICE_DIMS = (('TSTEP', 'nsteps'), ('LAY', 'nz'), ('ROW', 'ny'),
              ('COL', 'nx'))


@st.composite
def input_slices(draw, spec):
    """window (start, stop) on a non-empty subset of TSTEP/LAY/ROW/COL that
    the re-read file is cut to before it is written; met formats (their
    headers carry no grid origin that slicing would have to move)"""
    if spec['fmt'] not in SLICE_FORMATS or draw(st.integers(0, 2)) != 0:
        spec['slice'] = None
        return None
    out = {}
    for d, key in SLICE_DIMS:
        n = spec[key]
        if n > 1 and draw(st.booleans()):
            a = draw(st.integers(0, n - 1))
            b = draw(st.integers(a + 1, n))
            if (a, b) != (0, n):
                out[d] = [a, b]
    spec['slice'] = out or None
    if out and spec['fmt'] == 'cloud_rain' and spec.get('nvar') == 3:
        # the window must not turn the file into one whose size is also a
        # whole number of 5-variable steps (the format stores no variable
        # count: such a file is ambiguous by construction, see camxspecs)
        e = dict(spec)
        for d, key in SLICE_DIMS:
            if d in out:
                e[key] = out[d][1] - out[d][0]
        if cloud_rain_ambiguous(e):
            spec['slice'] = None
    return spec['slice']


def sliced(spec, m=None):
    """(spec of the sliced file, model restricted to the window)"""
    sl = spec.get('slice')
    if not sl:
        return spec, (m or model_of(spec))
    m = m or model_of(spec)
    e = dict(spec)
    e['slice'] = None
    for d, key in SLICE_DIMS:
        if d in sl:
            e[key] = sl[d][1] - sl[d][0]
    if 'TSTEP' in sl:
        t0 = instants(spec)[sl['TSTEP'][0]]
        e['start'] = [t0.year, t0.timetuple().tm_yday, t0.hour]
    out = Model()
    out.attrs = m.attrs
    out.bits = m.bits
    for d, n in m.dims.items():
        out.dims[d] = (sl[d][1] - sl[d][0]) if d in sl else n
    for name, (dims, arr) in m.vars.items():
        idx = tuple(slice(*sl[d]) if d in sl else slice(None) for d in dims)
        out.vars[name] = (dims, arr[idx])
    ts = slice(*sl['TSTEP']) if 'TSTEP' in sl else slice(None)
    out.tflag = m.tflag[ts]
    out.etflag = m.etflag[ts]
    return e, out


def slice_is_ambiguous(spec):
    sl = spec.get('slice')
    if not sl or spec['fmt'] != 'cloud_rain' or spec.get('nvar') != 3:
        return False
    e = dict(spec)
    for d, key in SLICE_DIMS:
        if d in sl:
            e[key] = sl[d][1] - sl[d][0]
    return cloud_rain_ambiguous(e)


def apply_slice(spec, f):
    sl = spec.get('slice')
    if not sl:
        return f
    return f.sliceDimensions(**{d: slice(a, b) for d, (a, b) in sl.items()})


def bystander_spec(spec):
    """another file of the same format on a different grid (and, where the
    format has them, another species count)"""
    b = dict(spec)
    b['nx'] = spec['nx'] + 1
    b['ny'] = spec['ny'] + 2
    if spec['fmt'] == 'landuse':
        b['nextra'] = 0 if spec['nextra'] else 1
    else:
        b['nz'] = spec['nz'] + 1
    if 'species' in spec:
        b['species'] = list(spec['species']) + ['BYST']
        if 'BYST' in spec['species']:
            b['species'] = list(spec['species'])[:1]
    b.pop('endian', None)
    b.pop('mask', None)
    b.pop('vorder', None)
    return b


def mask_pattern(shape):
    """deterministic mask: every third cell (flat C order), at least one
    masked and one unmasked cell when the array has >= 2 cells"""
    n = int(np.prod(shape))
    return (np.arange(n) % 3 == 1 if n > 1 else
            np.zeros(n, bool)).reshape(shape)


def _fill_kw(spec):
    mk = spec.get('mask')
    if mk and mk['kind'] == 'build' and mk.get('fill') is not None:
        return {'fill_value': mk['fill']}
    if mk and mk['kind'] == 'build':
        return {'fill_value': None}
    return {}


def _masked_build(spec, arr):
    mk = spec.get('mask')
    if mk and mk['kind'] == 'build':
        return np.ma.masked_where(mask_pattern(arr.shape), arr)
    return arr


def apply_lib_mask(spec, f, lay):
    """spec['mask']['kind'] == 'lib': pass the file through the library's own
    mask(where=..., dims=...) - the variables that have the dimensions of the
    first data variable get every third cell masked"""
    mk = spec.get('mask')
    if not mk or mk['kind'] != 'lib':
        return f
    name, dims = lay[0]
    shape = f.variables[name].shape
    kw = {} if mk.get('fill') is None else {'fill_value': mk['fill']}
    g = f.mask(where=mask_pattern(shape), dims=dims, **kw)
    if spec['fmt'] == 'landuse':
        g._newstyle = spec['newstyle']
    return g


def filled_expectation(f, names):
    """what a writer that fills masked cells must put on disk: float32 of
    np.ma.filled(variable) with the variable's own fill value"""
    out = OrderedDict()
    nmask = 0
    for n in names:
        a = f.variables[n][...]
        if isinstance(a, np.ma.MaskedArray):
            nmask += int(np.ma.getmaskarray(a).sum())
        out[n] = np.asarray(np.ma.filled(a)).astype('>f4')
    return out, nmask


@st.composite
def input_masks(draw, spec, routes=('pnc',)):
    """None (most cases) or a mask description for the in-memory writer
    input; masked cases use the ordered ramp payload and float32 variables"""
    if draw(st.integers(0, 3)) != 0:
        spec['mask'] = None
        return None
    kind = draw(st.sampled_from(['build', 'lib']))
    # mask() applies its fill_value to every variable incl. the integer
    # TFLAG, so only values that fit int32 are in its domain
    mk = {'kind': kind,
          'fill': draw(st.sampled_from([-999.0, 1e20, -1.0] if kind == 'build'
                                       else [-999.0, -1.0]))}
    spec['mask'] = mk
    spec['payload'] = {'mode': 'ramp', 'seed': spec['payload']['seed'],
                       'over': []}
    spec['vdtype'] = 'f4'
    return mk


def as_layout(spec, arr):
    """the same values in a non-C-contiguous memory layout
    (spec['memlayout']): 'swap' = stored with the last two axes exchanged
    and presented through swapaxes (each 2-D slab Fortran-contiguous), 'F' =
    Fortran-ordered array, 'stride' = every second element of a wider
    array.  The writers must put the logical (C order) values on disk."""
    kind = spec.get('memlayout')
    if kind == 'swap' and arr.ndim >= 2:
        return np.ascontiguousarray(arr.swapaxes(-1, -2)).swapaxes(-1, -2)
    if kind == 'F':
        return np.asfortranarray(arr)
    if kind == 'stride' and arr.ndim >= 1:
        big = np.zeros(arr.shape[:-1] + (2 * arr.shape[-1],), arr.dtype)
        big[..., ::2] = arr
        return big[..., ::2]
    return arr


@st.composite
def input_layouts(draw, spec):
    spec['memlayout'] = draw(st.sampled_from([None, None, 'swap', 'swap',
                                              'F', 'stride']))
    return spec['memlayout']


def build_lib(spec, route='pnc', with_etflag=False):
    """in-memory library file holding the model's content, carrying the
    metadata the writer of spec['fmt'] documents/uses.

    route 'pnc'   : PseudoNetCDFFile + createDimension/createVariable
    route 'ioapi' : ioapi_base.from_arrays(...) + CAMx header attributes
                    (gridded uamiv only)"""
    from PseudoNetCDF import PseudoNetCDFFile
    m = model_of(spec)
    fmt = spec['fmt']
    lay = var_layout(spec)
    if fmt == 'landuse':
        f = PseudoNetCDFFile()
        f.createDimension('LANDUSE', spec['nland'])
        f.createDimension('ROW', spec['ny'])
        f.createDimension('COL', spec['nx'])
        f._newstyle = spec['newstyle']
        for name, dims in creation_order(spec, lay):
            if spec.get('memlayout') and not spec.get('mask'):
                v = f.createVariable(
                    name, VDTYPES[spec.get('vdtype', 'f4')][0], dims,
                    values=as_layout(spec, as_vdtype(spec,
                                                     m.vars[name][1])))
            else:
                v = f.createVariable(
                    name, VDTYPES[spec.get('vdtype', 'f4')][0], dims,
                    **_fill_kw(spec))
                v[...] = _masked_build(spec,
                                       as_vdtype(spec, m.vars[name][1]))
            v.units = 'Fraction' if 'LANDUSE' in dims else ''
            v.long_name = name.ljust(16)
            v.var_desc = name.ljust(16)
        return apply_lib_mask(spec, f, lay), m
    nvar = len(lay)
    tflag = tflag_array(m.tflag, nvar)
    if route == 'ioapi':
        from PseudoNetCDF.cmaqfiles import ioapi_base
        arrs = OrderedDict()
        arrs['TFLAG'] = tflag
        for name, dims in lay:
            arrs[name] = as_vdtype(spec, m.vars[name][1])
        f = ioapi_base.from_arrays(
            fileattrs=dict(SDATE=int(m.tflag[0, 0]), STIME=int(m.tflag[0, 1]),
                           TSTEP=spec['step_h'] * 10000), **arrs)
        if with_etflag:
            v = f.createVariable('ETFLAG', 'i', ('TSTEP', 'VAR', 'DATE-TIME'))
            v[...] = tflag_array(m.etflag, nvar)
            v.units = '<YYYYDDD,HHMMSS>'
            v.long_name = 'ETFLAG'.ljust(16)
            v.var_desc = 'ETFLAG'.ljust(80)
    else:
        f = PseudoNetCDFFile()
        f.createDimension('TSTEP', spec['nsteps'])
        f.createDimension('DATE-TIME', 2)
        f.createDimension('LAY', spec['nz'])
        f.createDimension('ROW', spec['ny'])
        f.createDimension('COL', spec['nx'])
        f.createDimension('VAR', nvar)
        v = f.createVariable('TFLAG', 'i', ('TSTEP', 'VAR', 'DATE-TIME'))
        v[...] = tflag
        v.units = '<YYYYDDD,HHMMSS>'
        v.long_name = 'TFLAG'.ljust(16)
        v.var_desc = 'TFLAG'.ljust(80)
        if with_etflag:
            v = f.createVariable('ETFLAG', 'i', ('TSTEP', 'VAR', 'DATE-TIME'))
            v[...] = tflag_array(m.etflag, nvar)
            v.units = '<YYYYDDD,HHMMSS>'
            v.long_name = 'ETFLAG'.ljust(16)
            v.var_desc = 'ETFLAG'.ljust(80)
        for name, dims in creation_order(spec, lay):
            if spec.get('memlayout') and not spec.get('mask'):
                v = f.createVariable(
                    name, VDTYPES[spec.get('vdtype', 'f4')][0], dims,
                    values=as_layout(spec, as_vdtype(spec,
                                                     m.vars[name][1])))
            else:
                v = f.createVariable(
                    name, VDTYPES[spec.get('vdtype', 'f4')][0], dims,
                    **_fill_kw(spec))
                v[...] = _masked_build(spec,
                                       as_vdtype(spec, m.vars[name][1]))
            v.units = 'ppm'
            v.long_name = name.ljust(16)
            v.var_desc = name.ljust(80)
        f.SDATE = int(m.tflag[0, 0])
        f.STIME = int(m.tflag[0, 1])
        f.TSTEP = spec['step_h'] * 10000
        f.NVARS = nvar
        f.NLAYS = spec['nz']
        f.NROWS = spec['ny']
        f.NCOLS = spec['nx']
        setattr(f, 'VAR-LIST', ''.join(n.ljust(16) for n, _ in lay))
    for k, val in m.attrs.items():
        if k == 'LSTAGGER':
            continue
        if isinstance(val, float):
            val = np.float32(val)
        elif isinstance(val, int):
            val = np.int32(val)
        setattr(f, k, val)
    if fmt == 'wind':
        # the reader presents LSTAGGER as a numpy int32 scalar (nan when the
        # file has no stagger flag); give the writer the same kind of object
        ls = spec['lstagger']
        f.LSTAGGER = np.float64('nan') if ls is None else np.int32(ls)
    return apply_lib_mask(spec, f, lay), m


# ------------------------------------------- deterministic non-termination
class NonTermination(Exception):
    """a library time/record iterator exceeded its deterministic budget"""


_GUARD = {'installed': False, 'yields': 0, 'nexts': 0, 'timeops': 0}
MAX_TIMEOPS = 200000      # timeadd/timediff calls per case (readers step
#                           through <= 4 time steps; a few hundred calls)
MAX_YIELDS = 10000        # files have <= 4 steps
MAX_NEXTS = 20000         # RecordFile.next calls per case (files have a few
#                           hundred records; readers re-scan per variable)


def install_guards():
    """wrap `timerange` in every camxfiles Read module (and timetuple itself)
    by a counting iterator and count RecordFile.next calls; both raise
    NonTermination when the per-case budget is exhausted.  No wall clock."""
    if _GUARD['installed']:
        return
    import importlib
    from PseudoNetCDF.camxfiles import timetuple, FortranFileUtil
    orig = timetuple.timerange

    def counted(*a, **k):
        for item in orig(*a, **k):
            _GUARD['yields'] += 1
            if _GUARD['yields'] > MAX_YIELDS:
                raise NonTermination('timerange yielded more than %d time '
                                     'steps' % MAX_YIELDS)
            yield item
    counted.__wrapped__ = orig
    for fmt in ['uamiv', 'temperature', 'height_pressure', 'humidity',
                'vertical_diffusivity', 'wind', 'one3d', 'ipr', 'irr',
                'point_source']:
        for sub in ('Read', 'Write'):
            try:
                mod = importlib.import_module(
                    'PseudoNetCDF.camxfiles.%s.%s' % (fmt, sub))
            except Exception:
                continue
            if hasattr(mod, 'timerange'):
                mod.timerange = counted
    # the step-scanning loops of the record readers (`while True: seek;
    # timeadd`) call neither timerange nor RecordFile.next: count the time
    # arithmetic itself
    def counting(fn):
        def wrapper(*a, **k):
            _GUARD['timeops'] += 1
            if _GUARD['timeops'] > MAX_TIMEOPS:
                raise NonTermination('%s called more than %d times in one '
                                     'case' % (fn.__name__, MAX_TIMEOPS))
            return fn(*a, **k)
        wrapper.__wrapped__ = fn
        wrapper.__name__ = fn.__name__
        return wrapper
    ctimeadd = counting(timetuple.timeadd)
    ctimediff = counting(timetuple.timediff)
    for fmt in ['uamiv', 'temperature', 'height_pressure', 'humidity',
                'vertical_diffusivity', 'wind', 'one3d', 'cloud_rain',
                'landuse', 'lateral_boundary']:
        for sub in ('Read', 'Write', 'Memmap'):
            try:
                mod = importlib.import_module(
                    'PseudoNetCDF.camxfiles.%s.%s' % (fmt, sub))
            except Exception:
                continue
            if getattr(mod, 'timeadd', None) is timetuple.timeadd:
                mod.timeadd = ctimeadd
            if getattr(mod, 'timediff', None) is timetuple.timediff:
                mod.timediff = ctimediff
    onext = FortranFileUtil.RecordFile.next

    def cnext(self):
        _GUARD['nexts'] += 1
        if _GUARD['nexts'] > MAX_NEXTS:
            raise NonTermination('RecordFile.next called more than %d times '
                                 'in one case' % MAX_NEXTS)
        return onext(self)
    FortranFileUtil.RecordFile.next = cnext
    _GUARD['installed'] = True


def reset_guards():
    install_guards()
    _GUARD['yields'] = 0
    _GUARD['nexts'] = 0
    _GUARD['timeops'] = 0


def cleanup(*paths):
    import os
    for p in paths:
        try:
            os.remove(p)
        except OSError:
            pass


def drop(*objs):
    """close what can be closed, then collect (releases memmaps)"""
    import gc
    for o in objs:
        try:
            o.close()
        except Exception:
            pass
    del objs
    gc.collect()


def tripped():
    """True if a budget was exhausted in this case (even if the library
    swallowed the NonTermination exception)"""
    return (_GUARD['yields'] > MAX_YIELDS or _GUARD['nexts'] > MAX_NEXTS or
            _GUARD['timeops'] > MAX_TIMEOPS)


# ------------------------------------------------- snapshot of a library file
HDR_ATTRS = ['NAME', 'NOTE', 'ITZON', 'PLON', 'PLAT', 'TLAT1', 'TLAT2',
             'IUTM', 'ISTAG', 'CPROJ', 'XORIG', 'YORIG', 'XCELL', 'YCELL']
VOLATILE = ('CDATE', 'CTIME', 'WDATE', 'WTIME')


class Snap(object):
    def __init__(self):
        self.dims = OrderedDict()
        self.order = []
        self.vars = OrderedDict()     # name -> (dims, float array copy)
        self.tflag = None
        self.etflag = None
        self.attrs = OrderedDict()
        self.varlist = None


def norm_attr(v):
    """comparable form of a header attribute: str stays str; numeric scalars
    -> ('num', float value); arrays -> ('arr', list)"""
    if isinstance(v, (str, bytes)):
        return v.decode() if isinstance(v, bytes) else v
    a = np.asarray(v)
    if a.ndim == 0:
        try:
            x = float(a)
        except (TypeError, ValueError):
            return ('obj', repr(v))
        return ('num', 'nan' if x != x else x)
    return ('arr', a.tolist())


def snapshot_lib(f, spec, names=None):
    """deep copy of what a library CAMx file presents (data as arrays with
    their own memory, so the source may be closed afterwards)"""
    s = Snap()
    fmt = spec['fmt']
    for d in ('TSTEP', 'LAY', 'ROW', 'COL', 'LANDUSE', 'VAR'):
        if d in f.dimensions:
            s.dims[d] = len(f.dimensions[d])
    keys = list(f.variables.keys())
    s.order = [k for k in keys if k not in ('TFLAG', 'ETFLAG')]
    for k in (s.order if names is None else names):
        v = f.variables[k]
        a = v[...]
        if isinstance(a, np.ma.MaskedArray):
            # masked cells stand for the variable's fill value
            a = np.ma.filled(a)
        s.vars[k] = (tuple(getattr(v, 'dimensions', ())), np.array(a))
    if 'TFLAG' in keys:
        s.tflag = np.array(f.variables['TFLAG'][...])
    if 'ETFLAG' in keys:
        s.etflag = np.array(f.variables['ETFLAG'][...])
    want = []
    if fmt in ('uamiv', 'lateral_boundary'):
        want = HDR_ATTRS
    elif fmt == 'wind':
        want = ['LSTAGGER']
    elif fmt == 'cloud_rain':
        want = ['FILEDESC']
    for k in want:
        if hasattr(f, k):
            s.attrs[k] = norm_attr(getattr(f, k))
    if hasattr(f, 'VAR-LIST'):
        vl = getattr(f, 'VAR-LIST')
        s.varlist = [vl[i:i + 16].strip() for i in range(0, len(vl), 16)]
    return s
