"""IoapiSpec (DESIGN 6.2): JSON-able description of a small IOAPI file, its
Hypothesis strategy, the builder that turns it into a library object by one
of several construction routes, and a pure-python/numpy model of what the
file must contain.  Used by C10 and C11; written so that C01/C12/C17 can
import it as well.

Public API
----------
ioapispecs(**opts)   Hypothesis strategy -> spec (plain dict, see below)
preps(spec) / prepare(f, spec, prep) / build(spec, prep)
                     optional source states: 'synced' (default),
                     ['var-added', 'create'|'copy', name], 'no-tflag'
build(spec)          -> library file.  route 'disk' returns an open
                        ``ioapi`` (netCDF backed) object: the caller must
                        ``release(f)`` it (vf.libstate, rule R8b) and drop
                        its reference before the next dataset is opened.
model(spec)          -> IoapiModel (never touches PseudoNetCDF)
data_of(spec, name)  -> float32 ndarray of the variable (deterministic ramp)
spell_slice(draw, a, b, n)
                     start/stop spelling of the range [a, b) incl. None,
                     negative and out-of-range (clamped) values
instants(sdate, stime, tstep, n) / yyyyjjj(dt) / hhmmss(dt) /
tstep_timedelta(tstep) / timedelta_tstep(td)
                     integer-arithmetic time helpers (the time oracle)
STD_DIMS             {1: (TSTEP, LAY, ROW, COL), 2: (TSTEP, LAY, PERIM)}

Spec (all JSON scalars / lists)
-------------------------------
ftype   1 gridded (TSTEP, LAY, ROW, COL) | 2 boundary (TSTEP, LAY, PERIM)
route   'arrays'      ioapi_base.from_arrays(**arrays, fileattrs=...)
        'griddesc'    griddesc(text, ..., withcf=False), data assigned after
        'griddesc_cf' griddesc(text, ..., withcf=True): adds the CF variables
                      layer, level, time, time_bounds, x, y and the grid
                      mapping variable (pyproj is absent, so no lat/lon)
        'disk'        the 'arrays' file saved as NETCDF3_CLASSIC to the
                      worker's scratch directory and re-opened with
                      pncopen(path, format='ioapi')
vars    1-4 listed variable names (<=16 characters, python identifiers,
        upper case, never ending in 'TFLAG')
nt nz ny nx   steps 1-8, layers/rows/cols 1-6.  Boundary files have
        PERIM = 2*nx + 2*ny + 4 (NTHIK = 1) and carry NCOLS/NROWS attributes
        but no ROW/COL dimensions.
sdate stime tstep   YYYYJJJ, HHMMSS, HHMMSS (tstep hours may exceed 23)
xorig yorig xcell ycell   multiples of 1/8 (|orig| <= 2**22, cell <= 2**17)
        so origin + index*cell is exact in float64 and in decimal text
vglvls  nz+1 multiples of 1/64, strictly decreasing from 1 to 0 (exact in
        float32)
dmul    small int that varies the data ramp

Everything random comes from Hypothesis; the builder is deterministic.
"""
import datetime as _dt
import gc

import numpy as np
from hypothesis import strategies as st

UTC = _dt.timezone.utc
ROUTES = ('arrays', 'griddesc', 'griddesc_cf', 'disk')
STD_DIMS = {1: ('TSTEP', 'LAY', 'ROW', 'COL'), 2: ('TSTEP', 'LAY', 'PERIM')}
TSTEPS = (10000, 10000, 3000, 60000, 240000, 1000000, 1500, 120000, 30,
          480000, 20000, 13000)
NAME_POOL = ('O3', 'NO2', 'NO', 'CO', 'PM25_TOT', 'ISOP', 'A', 'B', 'ASO4J',
             'NUMATKN', 'VERY_LONG_NAME16', 'X', 'SO2', 'FORM', 'Z9_',
             'ABCDEFGHIJKLMNO1')
LONG_NAMES = ('A_NAME_LONGER_THAN_16', 'SEVENTEEN_CHARS_X1',
              'VERY_LONG_NAME_OF_24_CHR')
CF_NAMES = ('layer', 'level', 'time', 'time_bounds', 'x', 'y',
            'lambert_conformal_conic')
_PROJ = dict(GDTYP=2, P_ALP=33.0, P_BET=45.0, P_GAM=-97.0, XCENT=-97.0,
             YCENT=40.0)
_ALPHA = 'ABCDEFGHIJKLMNOPQRSTUVWXYZ'
_ALNUM = _ALPHA + '0123456789_'


# ------------------------------------------------------------ time helpers
def is_leap(y):
    return (y % 4 == 0 and y % 100 != 0) or y % 400 == 0


def instant(sdate, stime):
    """YYYYJJJ, HHMMSS -> aware datetime, integer arithmetic only"""
    y, j = divmod(int(sdate), 1000)
    h, rem = divmod(int(stime), 10000)
    mi, s = divmod(rem, 100)
    return _dt.datetime(y, 1, 1, tzinfo=UTC) + _dt.timedelta(
        days=j - 1, hours=h, minutes=mi, seconds=s)


def tstep_timedelta(tstep):
    h, rem = divmod(int(tstep), 10000)
    mi, s = divmod(rem, 100)
    return _dt.timedelta(hours=h, minutes=mi, seconds=s)


def timedelta_tstep(td):
    """timedelta -> IOAPI HHMMSS integer (hours may exceed 23)"""
    secs = td.days * 86400 + td.seconds
    return (secs // 3600) * 10000 + (secs % 3600 // 60) * 100 + secs % 60


def instants(sdate, stime, tstep, n):
    t0 = instant(sdate, stime)
    dt = tstep_timedelta(tstep)
    return [t0 + k * dt for k in range(int(n))]


def yyyyjjj(t):
    return t.year * 1000 + (t.date() - _dt.date(t.year, 1, 1)).days + 1


def hhmmss(t):
    return t.hour * 10000 + t.minute * 100 + t.second


# ------------------------------------------------------------ strategy
@st.composite
def varnames(draw, n):
    out = []
    while len(out) < n:
        if draw(st.integers(0, 3)) > 0:
            nm = draw(st.sampled_from(NAME_POOL))
        else:
            k = draw(st.integers(1, 16))
            nm = draw(st.sampled_from(_ALPHA)) + ''.join(
                draw(st.lists(st.sampled_from(_ALNUM), min_size=k - 1,
                              max_size=k - 1)))
        if nm in out or nm.endswith('TFLAG') or nm in RESERVED:
            nm = 'V%d' % len(out)
        out.append(nm)
    return out


# names that ioapi/eval treat specially or that are file attributes (eval
# exposes attributes as names): never used as variable names
RESERVED = frozenset(['TFLAG', 'ETFLAG', 'NVARS', 'SDATE', 'STIME', 'TSTEP',
                      'NLAYS', 'NROWS', 'NCOLS', 'XORIG', 'YORIG', 'XCELL',
                      'YCELL', 'VGLVLS', 'VGTOP', 'VGTYP', 'GDTYP', 'GDNAM',
                      'UPNAM', 'FTYPE', 'NTHIK', 'P_ALP', 'P_BET', 'P_GAM',
                      'XCENT', 'YCENT', 'CDATE', 'CTIME', 'WDATE', 'WTIME',
                      'EXEC_ID', 'FILEDESC', 'HISTORY', 'IOAPI_VERSION',
                      'PRJNAME', 'VAR', 'LAY', 'ROW', 'COL', 'PERIM'])


@st.composite
def _day(draw):
    """(year, day-of-year) weighted to year ends and the leap day"""
    y = draw(st.one_of(st.integers(1970, 2100),
                       st.sampled_from([1970, 1999, 2000, 2019, 2020, 2024,
                                        2099, 2100])))
    n = 366 if is_leap(y) else 365
    feb28 = 59
    special = [n - 1, n, 1, 2, feb28, feb28 + 1, feb28 + 2]
    j = draw(st.one_of(st.sampled_from(special), st.integers(1, n)))
    return y, j


@st.composite
def _stime(draw):
    kind = draw(st.integers(0, 3))
    if kind <= 1:
        return draw(st.sampled_from([0, 0, 22, 23, 23, 12, 1, 6])) * 10000
    if kind == 2:
        return draw(st.integers(0, 23)) * 10000
    return (draw(st.integers(0, 23)) * 10000 + draw(st.integers(0, 59)) * 100
            + draw(st.integers(0, 59)))


@st.composite
def ioapispecs(draw, routes=ROUTES, ftypes=(1, 1, 2), max_vars=4, max_n=6,
               min_steps=1, max_steps=8, min_lays=1, tsteps=TSTEPS,
               cross_share=3, longvar_share=0, origin_types=False,
               vglvls_kinds=False, short_years=0):
    """Strategy of IoapiSpec dicts.  cross_share: one case in `cross_share`
    (when nt >= 2) has its start time constructed so that the series crosses
    midnight of a weighted day (year end / leap day) inside the file; 0
    disables.  longvar_share: one case in `longvar_share` additionally holds
    a standard-dimension variable whose name has 17-24 characters (spec key
    'longvar'); the library accepts such a variable but cannot list it, so
    it is not in the model's varnames; 0 (default) disables.
    origin_types: XORIG/YORIG are additionally stored as Python int,
    np.int32, np.int64 or np.float32 (spec keys xorig_t / yorig_t; integer
    types get whole-number origins) and the cells as float32 (cell_t).
    vglvls_kinds: the edges are handed to from_arrays as float32 array,
    float64 array or list (vglvls_t) and half of the files use tenths (0.9,
    0.7 ... not float32-representable) instead of multiples of 1/64.
    short_years: one case in `short_years` starts on a date below 1400000
    (YYDDD such as 19001, years before 1400, year 1); 0 disables."""
    ftype = draw(st.sampled_from(list(ftypes)))
    route = draw(st.sampled_from(list(routes)))
    nv = draw(st.integers(1, max_vars))
    names = draw(varnames(nv))
    nt = draw(st.integers(min_steps, max_steps))
    nz = draw(st.integers(min_lays, max_n))
    ny = draw(st.integers(1, max_n))
    nx = draw(st.integers(1, max_n))
    tstep = draw(st.sampled_from(list(tsteps)))
    y, j = draw(_day())
    stime = draw(_stime())
    sdate = y * 1000 + j
    crossing = False
    if cross_share and nt >= 2 and draw(st.integers(1, cross_share)) == 1:
        # midnight at the END of day (y, j) is reached after r steps; half
        # of these series cross into a new year
        if draw(st.booleans()):
            j = 366 if is_leap(y) else 365
        r = draw(st.integers(1, nt - 1))
        mid = _dt.datetime(y, 1, 1, tzinfo=UTC) + _dt.timedelta(days=j)
        t0 = mid - r * tstep_timedelta(tstep)
        if t0.year >= 1970:
            sdate, stime = yyyyjjj(t0), hhmmss(t0)
            crossing = True
    eighth = st.integers(-2 ** 25, 2 ** 25).map(lambda k: k / 8.0)
    cell = st.one_of(st.sampled_from([1000.0, 12000.0, 36000.0, 0.125, 0.25,
                                      4000.0, 1.0]),
                     st.integers(1, 2 ** 20).map(lambda k: k / 8.0))
    xorig, yorig = draw(eighth), draw(eighth)
    xcell = draw(cell)
    ycell = draw(st.one_of(st.just(xcell), cell))
    inner = draw(st.lists(st.integers(1, 63), min_size=nz - 1,
                          max_size=nz - 1, unique=True))
    vglvls = [1.0] + [k / 64.0 for k in sorted(inner, reverse=True)] + [0.0]
    extra = {}
    if vglvls_kinds:
        extra['vglvls_t'] = draw(st.sampled_from(['f4', 'f8', 'list']))
        if draw(st.booleans()):
            tenths = draw(st.lists(st.integers(1, 9), min_size=min(nz - 1, 9),
                                   max_size=min(nz - 1, 9), unique=True))
            if len(tenths) == nz - 1:
                vglvls = [1.0] + [k / 10.0 for k in sorted(
                    tenths, reverse=True)] + [0.0]
    if origin_types:
        kinds = ['f8', 'f8', 'int', 'i4', 'i8', 'f4']
        extra['xorig_t'] = draw(st.sampled_from(kinds))
        extra['yorig_t'] = draw(st.sampled_from(kinds))
        extra['cell_t'] = draw(st.sampled_from(['f8', 'f8', 'f4']))
        if extra['xorig_t'] in ('int', 'i4', 'i8'):
            xorig = float(int(xorig) % 2 ** 20)
        if extra['yorig_t'] in ('int', 'i4', 'i8'):
            yorig = float(-(int(yorig) % 2 ** 20))
        if extra['xorig_t'] == 'f4':
            xorig = float(np.float32(xorig))
        if extra['yorig_t'] == 'f4':
            yorig = float(np.float32(yorig))
    if short_years and draw(st.integers(1, short_years)) == 1 and \
            not crossing:
        yy = draw(st.sampled_from([19, 99, 1, 1200, 1399, 70]))
        sdate = yy * 1000 + draw(st.sampled_from([1, 60, 365]))
    out = dict(ftype=ftype, route=route, vars=names, nt=nt, nz=nz, ny=ny,
               nx=nx, sdate=sdate, stime=stime, tstep=tstep, xorig=xorig,
               yorig=yorig, xcell=xcell, ycell=ycell, vglvls=vglvls,
               dmul=draw(st.integers(1, 5)), crossing=crossing)
    out.update(extra)
    if longvar_share and draw(st.integers(1, longvar_share)) == 1:
        out['longvar'] = draw(st.sampled_from(LONG_NAMES))
        out['longpos'] = draw(st.integers(0, len(names)))
    return out


def spell_slice(draw, a, b, n):
    """(start, stop) spelling of the index range [a, b) of an axis of length
    n (0 <= a < b <= n), drawn among everything a Python slice accepts:
    non-negative, negative (index - n), None at an edge, and - at an edge -
    values beyond the axis (start < -n, stop > n), which slice semantics
    clamp.  range(n)[start:stop] == range(a, b) always holds."""
    k = draw(st.integers(0, 5))
    lo = a
    if a == 0 and k in (1, 4):
        lo = None
    elif a == 0 and k in (2, 5):
        lo = -n - draw(st.sampled_from([1, 1, 2, 5, 100]))
    elif k == 3:
        lo = a - n
    k = draw(st.integers(0, 5))
    hi = b
    if b == n and k in (1, 4):
        hi = None
    elif b == n and k in (2, 5):
        hi = n + draw(st.sampled_from([1, 1, 2, 5, 100]))
    elif b < n and k == 3:
        hi = b - n
    return lo, hi


# ------------------------------------------------------------ model
def nperim(spec):
    return 2 * spec['nx'] + 2 * spec['ny'] + 4


def var_shape(spec):
    if spec['ftype'] == 1:
        return (spec['nt'], spec['nz'], spec['ny'], spec['nx'])
    return (spec['nt'], spec['nz'], nperim(spec))


def built_names(spec):
    """names handed to the constructor: the listed variables plus, when the
    spec has one, the over-long (unlistable) name at position 'longpos'"""
    names = list(spec['vars'])
    if spec.get('longvar'):
        names.insert(int(spec.get('longpos', len(names))), spec['longvar'])
    return names


def data_of(spec, name):
    """deterministic float32 ramp, different per variable, values 0..96"""
    shp = var_shape(spec)
    k = built_names(spec).index(name)
    n = int(np.prod(shp))
    a = (np.arange(n, dtype='i8') * int(spec.get('dmul', 1)) + 7 * k) % 97
    return a.astype('f4').reshape(shp)


class IoapiModel(object):
    """What the file described by a spec must look like.

    dims      dict name -> length (TSTEP, LAY, ROW/COL or PERIM, VAR,
              DATE-TIME)
    std_dims  dimensions of every listed variable
    varnames  listed variables in VAR-LIST order
    attrs     expected SDATE STIME TSTEP XORIG YORIG XCELL YCELL NLAYS NVARS
              (+ NROWS NCOLS), python numbers
    vglvls    float32 array
    times     list of aware datetimes (integer arithmetic)
    tflag     int array (nt, 2): YYYYJJJ, HHMMSS of every step
    has_cf    route adds CF variables (they are not listed)
    """

    def __init__(self, spec):
        self.spec = spec
        self.ftype = spec['ftype']
        self.std_dims = STD_DIMS[self.ftype]
        self.varnames = list(spec['vars'])
        self.has_cf = spec['route'] == 'griddesc_cf'
        d = dict(TSTEP=spec['nt'], LAY=spec['nz'], VAR=len(self.varnames))
        d['DATE-TIME'] = 2
        if self.ftype == 1:
            d['ROW'], d['COL'] = spec['ny'], spec['nx']
        else:
            d['PERIM'] = nperim(spec)
        self.dims = d
        self.vglvls = np.array(spec['vglvls'], dtype='f4')
        self.times = instants(spec['sdate'], spec['stime'], spec['tstep'],
                              spec['nt'])
        self.tflag = np.array([[yyyyjjj(t), hhmmss(t)] for t in self.times],
                              dtype='i8')
        self.attrs = dict(SDATE=spec['sdate'], STIME=spec['stime'],
                          TSTEP=spec['tstep'], XORIG=spec['xorig'],
                          YORIG=spec['yorig'], XCELL=spec['xcell'],
                          YCELL=spec['ycell'], NLAYS=spec['nz'],
                          NVARS=len(self.varnames), NROWS=spec['ny'],
                          NCOLS=spec['nx'])

    def data(self, name):
        return data_of(self.spec, name)

    def crosses_day(self, i0=0, i1=None):
        """True when steps i0..i1 (inclusive) lie on more than one date"""
        ts = self.times[i0:(None if i1 is None else i1 + 1)]
        return len(set(t.date() for t in ts)) > 1


def model(spec):
    return IoapiModel(spec)


# ------------------------------------------------------------ builders
def griddesc_text(spec, gdnam='VFGRID'):
    """GRIDDESC text; numbers written with repr so that they parse back to
    exactly the same float (all values are multiples of 1/8)."""
    p = _PROJ
    return "\n".join([
        "' '",
        "'VFPROJ'",
        "  %d %r %r %r %r %r" % (p['GDTYP'], p['P_ALP'], p['P_BET'],
                                 p['P_GAM'], p['XCENT'], p['YCENT']),
        "' '",
        "'%s'" % gdnam,
        "'VFPROJ' %r %r %r %r %d %d 1" % (
            float(spec['xorig']), float(spec['yorig']), float(spec['xcell']),
            float(spec['ycell']), spec['nx'], spec['ny']),
        "' '"])


_NUMT = {'f8': float, 'int': int, 'i4': np.int32, 'i8': np.int64,
         'f4': np.float32}


def typed(spec, key):
    """XORIG/YORIG/XCELL/YCELL of a spec in the type the spec asks for
    (xorig_t / yorig_t / cell_t; default Python float)"""
    t = spec.get(key + '_t') if key.endswith('orig') else spec.get('cell_t')
    return _NUMT[t or 'f8'](spec[key])


def _build_arrays(spec):
    from PseudoNetCDF.cmaqfiles._ioapi import ioapi_base
    arrays = dict((nm, data_of(spec, nm)) for nm in built_names(spec))
    vt = spec.get('vglvls_t', 'f4')
    if vt == 'list':
        vg = [float(v) for v in spec['vglvls']]
    else:
        vg = np.array(spec['vglvls'], dtype=vt)
    fa = dict(SDATE=int(spec['sdate']), STIME=int(spec['stime']),
              TSTEP=int(spec['tstep']), XORIG=typed(spec, 'xorig'),
              YORIG=typed(spec, 'yorig'), XCELL=typed(spec, 'xcell'),
              YCELL=typed(spec, 'ycell'), VGLVLS=vg)
    if spec['ftype'] == 2:
        fa['NCOLS'] = int(spec['nx'])
        fa['NROWS'] = int(spec['ny'])
    f = ioapi_base.from_arrays(fileattrs=fa, **arrays)
    # updatemeta() lets its defaults win over fileattrs for these keys, so
    # they are set the way a user would: by assignment afterwards
    f.FTYPE = int(spec['ftype'])
    f.VGTYP = 7
    f.GDNAM = 'VFGRID'
    for k, v in _PROJ.items():
        setattr(f, k, v)
    return f


def _build_griddesc(spec, withcf):
    from PseudoNetCDF.cmaqfiles import griddesc
    f = griddesc(griddesc_text(spec), GDNAM='VFGRID',
                 VGLVLS=tuple(float(v) for v in spec['vglvls']),
                 FTYPE=int(spec['ftype']), SDATE=int(spec['sdate']),
                 STIME=int(spec['stime']), TSTEP=int(spec['tstep']),
                 nsteps=int(spec['nt']), var_kwds=built_names(spec),
                 withcf=withcf)
    for nm in built_names(spec):
        f.variables[nm][...] = data_of(spec, nm)
    for key, att in (('xorig', 'XORIG'), ('yorig', 'YORIG'),
                     ('xcell', 'XCELL'), ('ycell', 'YCELL')):
        if spec.get(key + '_t') or (key.endswith('cell') and
                                    spec.get('cell_t')):
            setattr(f, att, typed(spec, key))
    return f


# ------------------------------------------------------------ source states
# A freshly built file is "synced": TFLAG has one column per listed
# variable.  Real sources are not always in that state; `preps` draws and
# `prepare` applies one of
#   'synced'                         nothing
#   ['var-added', 'create'|'copy', name]
#                                    one more standard-dimension variable is
#                                    added with createVariable / copyVariable
#                                    after construction and updatemeta() is
#                                    NOT called: VAR-LIST/NVARS count it,
#                                    TFLAG and VAR still have the old width
#   'no-tflag'                       the TFLAG variable is deleted: the file
#                                    is timed by SDATE/STIME/TSTEP only (or
#                                    by the CF time variable of griddesc_cf)
#   'varlist-stripped'               VAR-LIST lost its trailing blanks
#   'varlist-single-blank'           VAR-LIST holds the names separated by
#                                    single blanks (read by the library
#                                    through its str.split fallback)
# For route 'disk' the state is applied before the file is saved.  The
# decoded times of the source (getTimes) are the same in all three states.
ADDED_NAME = 'ADDED_LATER'


@st.composite
def preps(draw, spec=None, uneven=False):
    """uneven=True adds sources with an uneven time axis (needs nt >= 3):
    ['uneven-list', [i0, i1, ...]]  a prior sliceDimensions(TSTEP=<strictly
                                    increasing, not evenly spaced list>)
    ['uneven-gap', a, b]            steps [0:a] stacked with steps [b:nt],
                                    b > a (two runs with a gap)
    prep_time_index(spec, prep) gives the retained source step indices."""
    if uneven and spec is not None and spec['nt'] >= 3 and \
            draw(st.integers(0, 3)) == 0:
        nt = spec['nt']
        if draw(st.booleans()):
            a = draw(st.integers(1, nt - 2))
            b = draw(st.integers(a + 1, nt - 1))
            return ['uneven-gap', a, b]
        idx = sorted(draw(st.lists(st.integers(0, nt - 1), min_size=2,
                                   max_size=nt - 1, unique=True)))
        return ['uneven-list', idx]
    k = draw(st.integers(0, 7))
    if k <= 1:
        return 'synced'
    if k <= 3:
        return ['var-added', draw(st.sampled_from(['create', 'copy'])),
                ADDED_NAME]
    if k <= 5:
        return 'no-tflag'
    if spec is not None and any(len(v) >= 16 for v in spec['vars']):
        # a blank-separated / unpadded list cannot hold a 16-character name
        # (it has no separator): such a list is not readable input
        return 'synced'
    if k == 7 and spec is not None and \
            len(' '.join(spec['vars'])) % 16 == 0:
        # a blank-separated list whose length happens to be a multiple of
        # 16 is read as fixed-width fields: not readable input either
        return 'synced'
    return 'varlist-stripped' if k == 6 else 'varlist-single-blank'


def listed_fields(varlist):
    return [varlist[i:i + 16].strip() for i in range(0, len(varlist), 16)
            if varlist[i:i + 16].strip()]


def prep_kind(prep):
    if prep is None or prep == 'synced':
        return 'synced'
    return prep if isinstance(prep, str) else prep[0]


def prep_time_index(spec, prep):
    """indices of the spec's time steps that the prepared source holds"""
    kind = prep_kind(prep)
    if kind == 'uneven-list':
        return [int(i) for i in prep[1]]
    if kind == 'uneven-gap':
        return list(range(0, prep[1])) + list(range(prep[2], spec['nt']))
    return list(range(spec['nt']))


def prepare(f, spec, prep):
    """put an in-memory file into the source state `prep` (see above);
    returns the prepared file (a new object for the uneven states)"""
    kind = prep_kind(prep)
    if kind == 'uneven-list':
        return f.sliceDimensions(TSTEP=[int(i) for i in prep[1]])
    if kind == 'uneven-gap':
        return f.sliceDimensions(TSTEP=slice(0, prep[1])).stack(
            f.sliceDimensions(TSTEP=slice(prep[2], None)), 'TSTEP')
    if kind == 'synced':
        return f
    if kind == 'no-tflag':
        del f.variables['TFLAG']
        return f
    if kind == 'varlist-stripped':
        setattr(f, 'VAR-LIST', getattr(f, 'VAR-LIST').rstrip())
        return f
    if kind == 'varlist-single-blank':
        setattr(f, 'VAR-LIST', ' '.join(listed_fields(getattr(f,
                                                              'VAR-LIST'))))
        return f
    if kind == 'var-added':
        how, name = prep[1], prep[2]
        first = spec['vars'][0]
        if how == 'copy':
            f.copyVariable(f.variables[first], key=name)
        else:
            v = f.createVariable(name, 'f', STD_DIMS[spec['ftype']],
                                 units='ppbV')
            v[...] = data_of(spec, first) + 1
        return f
    raise ValueError('unknown prep %r' % (prep,))


def build(spec, prep=None):
    """library object for a spec, optionally put into the source state
    `prep` (see preps/prepare; default: as constructed).  For route 'disk'
    the object holds an open netCDF handle (see module docstring)."""
    route = spec['route']
    if route == 'arrays':
        return prepare(_build_arrays(spec), spec, prep)
    if route == 'griddesc':
        return prepare(_build_griddesc(spec, False), spec, prep)
    if route == 'griddesc_cf':
        return prepare(_build_griddesc(spec, True), spec, prep)
    if route == 'disk':
        from . import libstate
        import PseudoNetCDF as pnc
        mem = prepare(_build_arrays(spec), spec, prep)
        path = libstate.scratch_path('.nc')
        out = mem.save(path, format='NETCDF3_CLASSIC', verbose=0)
        out.close()
        del out, mem
        gc.collect()
        return pnc.pncopen(path, format='ioapi')
    raise ValueError('unknown route %r' % (route,))


def is_disk(spec):
    return spec['route'] == 'disk'


def source_mismatch(f, spec):
    """compare a freshly built file with the model; list of messages (used
    by checks to tell a construction problem from an operation problem)"""
    m = model(spec)
    out = []
    for k, want in m.dims.items():
        if k not in f.dimensions:
            out.append('dimension %s missing' % k)
        elif len(f.dimensions[k]) != want:
            out.append('dimension %s has length %d, expected %d' % (
                k, len(f.dimensions[k]), want))
    for k in ('SDATE', 'STIME', 'TSTEP', 'XORIG', 'YORIG', 'XCELL', 'YCELL',
              'NLAYS', 'NVARS'):
        got = getattr(f, k, None)
        if got is None or got != m.attrs[k]:
            out.append('%s = %r, expected %r' % (k, got, m.attrs[k]))
    vg = np.asarray(getattr(f, 'VGLVLS', []))
    if vg.shape != m.vglvls.shape or not (vg == m.vglvls).all():
        out.append('VGLVLS = %r, expected %r' % (vg.tolist(),
                                                 m.vglvls.tolist()))
    if 'TFLAG' in f.variables:
        tf = np.asarray(f.variables['TFLAG'][:])
        if tf.shape != (spec['nt'], len(spec['vars']), 2) or \
                not (tf[:, 0, :] == m.tflag).all():
            out.append('TFLAG differs from the model')
    else:
        out.append('TFLAG missing')
    for nm in m.varnames:
        if nm not in f.variables:
            out.append('variable %s missing' % nm)
        elif tuple(f.variables[nm].dimensions) != m.std_dims:
            out.append('variable %s has dimensions %r' % (
                nm, tuple(f.variables[nm].dimensions)))
    return out
