"""agentB_ops - the operation catalogue shared by C01 (operation sequences)
and C05 (isolation).

* `Info`: a light model of a live file (dimension name -> length/unlimited,
  variable name -> dims/kind, IOAPI state, coordinate values) from which every
  step's arguments are drawn, so arguments are in-domain by construction
  (DESIGN Appendix C).  It can be taken from a library object
  (`info_of_file`) or from a FileSpec / IoapiSpec (`info_of_spec`).
* `draw_step(draw, info, ...)`: one JSON-able step `{op, args, ood}`.
* `apply_step(f, step, operand=None)`: runs the step on library objects.
* file specs: generic FileSpec (vf.spec) + construction route, IoapiSpec.

No oracle lives here."""
import collections
import gc

import numpy as np
from hypothesis import strategies as st

from . import spec as S

OD = collections.OrderedDict

VOLATILE = ('CDATE', 'CTIME', 'WDATE', 'WTIME')
IOAPI_DIMS = ('TSTEP', 'DATE-TIME', 'LAY', 'VAR', 'ROW', 'COL', 'PERIM')
REDUCERS = ['mean', 'sum', 'min', 'max', 'std', 'var', 'prod']
CALLABLES = ['cumsum', 'first', 'stride2', 'diff', 'rev', 'conv2']
BINOPS = ['+', '-', '*', '/', '//', '%', '<', '<=', '>', '>=', '==', '!=',
          '**']

STRUCTURAL = ['copy', 'slice', 'stack', 'subset', 'renvar', 'rendim',
              'insert', 'rmsing', 'reorder']
NUMERIC = ['apply', 'mask', 'eval', 'binop', 'interp', 'interpsigma']
ALL_OPS = STRUCTURAL + NUMERIC


def func1d(name):
    """shape-deterministic callables for applyAlongDimensions"""
    if name == 'cumsum':
        return lambda x: np.cumsum(x)
    if name == 'first':
        return lambda x: x[:1]
    if name == 'stride2':
        return lambda x: x[::2]
    if name == 'diff':
        return lambda x: np.diff(x)
    if name == 'rev':
        return lambda x: x[::-1]
    if name == 'conv2':
        return lambda x: np.convolve(x, [0.5, 0.5], mode='full')
    if name == 'smean':      # scalar-returning, as numpy.apply_along_axis
        return np.mean       # allows: the axis is reduced to length 1
    if name == 'smax':
        return np.max
    raise KeyError(name)


def func1d_len(name, n):
    return func1d(name)(np.arange(n, dtype='f8')).size


# ------------------------------------------------------------------ Info
class Info(object):
    def __init__(self):
        self.dims = OD()      # name -> (len, unlimited)
        self.vars = OD()      # name -> (dims tuple, kind 'f'/'i'/'S'..)
        self.cls = 'generic'  # generic | netcdf | ioapi
        self.disk = False     # variables are netCDF4.Variable objects
        self.coordvals = {}   # dim name -> list of float (1-D var named d)
        self.masked = []      # names of masked in-memory variables
        self.ndcoords = {}    # N-D coordinate candidates: name -> (dims,
        #                       [dimension names along which every column is
        #                       strictly monotonic])
        self.vglvls = None
        self.nvars = None     # IOAPI: the NVARS attribute
        self.coords = ()

    @property
    def numeric(self):
        return all(k in 'fiu' for (_, k) in self.vars.values())

    @property
    def ioapi_intact(self):
        """an ioapi_base object that still has the IOAPI structure its
        wrappers are written for"""
        if self.cls != 'ioapi':
            return False
        for d in ('TSTEP', 'LAY', 'VAR', 'DATE-TIME'):
            if d not in self.dims:
                return False
        if self.dims['TSTEP'][0] < 1 or self.dims['LAY'][0] < 1:
            return False
        if self.dims['DATE-TIME'][0] != 2 or self.dims['VAR'][0] < 1:
            return False
        tf = self.vars.get('TFLAG')
        if tf is None or tf[0] != ('TSTEP', 'VAR', 'DATE-TIME'):
            return False
        hd = ('ROW' in self.dims and 'COL' in self.dims) or \
            'PERIM' in self.dims
        if not hd:
            return False
        if len(self.vars) < 2:
            # no data variable: VAR is defined as max(NVARS, 1) and the
            # wrappers cannot keep VAR-LIST/NVARS/VAR/TFLAG coherent
            return False
        # the bookkeeping the wrappers rely on (C10's invariant) holds:
        # NVARS == len(VAR) == number of data variables.  A result obtained
        # from an object that had already lost the layout can look right
        # structurally and still carry a stale NVARS (VAR=1, NVARS=2).
        if self.nvars != self.dims['VAR'][0] or \
                self.nvars != len(self.vars) - 1:
            return False
        for k, (vd, kind) in self.vars.items():
            if k == 'TFLAG':
                continue
            if vd not in (('TSTEP', 'LAY', 'ROW', 'COL'),
                          ('TSTEP', 'LAY', 'PERIM')):
                return False
        if self.vglvls is None or len(self.vglvls) != self.dims['LAY'][0] + 1:
            return False
        return True

    @property
    def ioapi_degraded(self):
        return self.cls == 'ioapi' and not self.ioapi_intact

    @property
    def repeated(self):
        """a variable that names one dimension twice (only reachable through
        the out-of-domain insertDimension(existing, newonly=False))"""
        return any(len(set(vd)) != len(vd) for vd, _ in self.vars.values())

    def names(self):
        return set(self.dims) | set(self.vars)

    def fresh(self, prefix, avoid=()):
        used = self.names() | set(avoid)
        i = 0
        while '%s%d' % (prefix, i) in used:
            i += 1
        return '%s%d' % (prefix, i)

    def opdims(self):
        """dimensions that data operations (slice / apply / stack) address:
        on IOAPI files the data dimensions, not the bookkeeping dimensions
        VAR and DATE-TIME of TFLAG"""
        if self.cls == 'ioapi':
            return [d for d in self.dims if d not in ('VAR', 'DATE-TIME')]
        return list(self.dims)

    def oddcoord(self, d):
        """a variable named like dimension d that is not 1-D over d (the
        slicing/interp heuristics take such a variable for the coordinate)"""
        return d in self.vars and self.vars[d][0] != (d,)


def _cls_of(f):
    from PseudoNetCDF.cmaqfiles._ioapi import ioapi_base
    from PseudoNetCDF.core._files import netcdf
    if isinstance(f, ioapi_base):
        return 'ioapi'
    if isinstance(f, netcdf):
        return 'netcdf'
    return 'generic'


def info_of_file(f):
    from PseudoNetCDF.core._files import netcdf
    i = Info()
    i.cls = _cls_of(f)
    i.disk = isinstance(f, netcdf)
    for k, d in f.dimensions.items():
        i.dims[k] = (len(d), bool(d.isunlimited()))
    for k in f.variables.keys():
        v = f.variables[k]
        i.vars[k] = (tuple(v.dimensions), v.dtype.kind)
        if isinstance(v, np.ma.MaskedArray):
            i.masked.append(k)
    for d in i.dims:
        if d in i.vars and i.vars[d][0] == (d,) and i.vars[d][1] in 'fiu':
            a = np.ma.filled(np.ma.asarray(f.variables[d][...]).astype('f8'),
                             np.nan)
            i.coordvals[d] = [float(x) for x in np.asarray(a).ravel()]
    if i.cls != 'ioapi':
        for k, (vd, kind) in i.vars.items():
            if kind != 'f' or len(vd) < 2 or len(set(vd)) != len(vd) or \
                    k in i.dims or any(i.dims[d][0] < 1 for d in vd):
                continue
            a = np.ma.asarray(f.variables[k][...])
            if np.ma.getmaskarray(a).any():
                continue
            a = np.asarray(np.ma.getdata(a), dtype='f8')
            axes = []
            for ax, d in enumerate(vd):
                if a.shape[ax] < 2:
                    continue
                df = np.diff(a, axis=ax)
                if np.isfinite(df).all() and (
                        ((df > 0).all(axis=ax) | (df < 0).all(axis=ax)).all()):
                    axes.append(d)
            if axes:
                i.ndcoords[k] = (vd, axes)
    if i.cls == 'ioapi' and hasattr(f, 'VGLVLS'):
        i.vglvls = [float(x) for x in np.asarray(f.VGLVLS).ravel()]
    if i.cls == 'ioapi':
        try:
            i.nvars = int(getattr(f, 'NVARS'))
        except Exception:
            i.nvars = None
    i.coords = tuple(f.getCoords()) if hasattr(f, 'getCoords') else ()
    return i


def info_of_spec(fs):
    """what info_of_file(build(fs)) gives, without the library"""
    i = Info()
    if fs.get('kind') == 'ioapi':
        nt, nl, nr, nc = fs['shape']
        i.cls = 'ioapi'
        i.dims['TSTEP'] = (nt, True)
        i.dims['LAY'] = (nl, False)
        if fs.get('perim'):
            i.dims['PERIM'] = (nr, False)
            vd = ('TSTEP', 'LAY', 'PERIM')
        else:
            i.dims['ROW'] = (nr, False)
            i.dims['COL'] = (nc, False)
            vd = ('TSTEP', 'LAY', 'ROW', 'COL')
        i.dims['DATE-TIME'] = (2, False)
        i.dims['VAR'] = (len(fs['vars']), False)
        for v in fs['vars']:
            i.vars[v['name']] = (vd, 'f')
        i.vars['TFLAG'] = (('TSTEP', 'VAR', 'DATE-TIME'), 'i')
        i.vglvls = [float(x) for x in fs['vglvls']]
        i.nvars = len(fs['vars'])
        i.coords = ('TFLAG',)
        i.disk = bool(fs.get('disk'))
        return i
    route = fs.get('route', 'create')
    i.cls = 'netcdf' if route.startswith('disk') else 'generic'
    i.disk = route.startswith('disk')
    used = set()
    for v in fs['vars']:
        used.update(v['dims'])
    for n, l, u in fs['dims']:
        if route == 'from_ncvs':
            if n not in used:
                continue
            u = False
        i.dims[n] = (int(l), bool(u))
    for v in fs['vars']:
        kind = np.dtype(S.DT[v['dtype']]).kind
        i.vars[v['name']] = (tuple(v['dims']), kind)
        if (v.get('mask') is not None or v.get('fill') is not None) and \
                not route.startswith('disk'):
            i.masked.append(v['name'])
        if v.get('coord') and len(v['dims']) == 1:
            i.coordvals[v['name']] = [float(x) for x in v['data']]
        if v.get('ndcoord'):
            i.ndcoords[v['name']] = (tuple(v['dims']), [v['ndcoord']])
    if route.startswith('disk'):
        i.coords = tuple(k for k in i.dims if k in i.vars)
    elif fs.get('coordkeys') and route in ('create', 'from_ncf'):
        i.coords = tuple(fs['coordkeys'])
    return i


# ------------------------------------------------------------------ specs
@st.composite
def ioapi_specs(draw, max_n=4, disk=True):
    nt = draw(st.integers(1, max_n))
    nl = draw(st.integers(1, max_n))
    nr = draw(st.integers(1, max_n))
    perim = draw(st.integers(0, 4)) == 0
    nc = 1 if perim else draw(st.integers(1, max_n))
    nv = draw(st.integers(1, 3))
    names = draw(st.lists(st.sampled_from(['O3', 'NO2', 'CO', 'PM25_TOT',
                                           'ISOP']),
                          min_size=nv, max_size=nv, unique=True))
    size = nt * nl * nr * nc
    vs = []
    for n in names:
        data = draw(st.lists(st.integers(-50, 50), min_size=size,
                             max_size=size))
        vs.append(dict(name=n, data=[float(x) / 4 for x in data]))
    # strictly decreasing 1 -> 0 dyadic edges
    inner = draw(st.lists(st.integers(1, 15), min_size=nl - 1,
                          max_size=nl - 1, unique=True))
    vgl = [1.0] + [x / 16.0 for x in sorted(inner, reverse=True)] + [0.0]
    sdate = draw(st.sampled_from([2020001, 2019365, 2020059, 2000366,
                                  1999364]))
    stime = draw(st.sampled_from([0, 120000, 230000, 3000]))
    tstep = draw(st.sampled_from([10000, 3000, 60000, 240000]))
    return dict(kind='ioapi', shape=[nt, nl, nr, nc], perim=perim, vars=vs,
                vglvls=vgl, sdate=sdate, stime=stime, tstep=tstep,
                tflag635=False,
                disk=bool(disk and draw(st.integers(0, 3)) == 0),
                # constructor and user-supplied TFLAG: none (synthesised from
                # SDATE/STIME/TSTEP), one whose VAR length matches the number
                # of variables, one that does not
                ctor=draw(st.sampled_from(['from_arrays', 'from_arrays',
                                           'from_ncvs'])),
                tflag=draw(st.sampled_from([None, None, 'match', 'match',
                                            'mismatch'])),
                tflag_first=draw(st.booleans()))


def build_ioapi(fs):
    from PseudoNetCDF.cmaqfiles._ioapi import ioapi_base
    nt, nl, nr, nc = fs['shape']
    shape = (nt, nl, nr) if fs.get('perim') else (nt, nl, nr, nc)
    arrs = OD()
    for v in fs['vars']:
        arrs[v['name']] = np.array(v['data'], dtype='f').reshape(shape)
    if fs.get('tflag'):
        import datetime
        nv = len(fs['vars'])
        nvl = nv if fs['tflag'] == 'match' else (nv + 1)
        sd, stime, ts = int(fs['sdate']), int(fs['stime']), int(fs['tstep'])
        t0 = datetime.datetime(sd // 1000, 1, 1) + datetime.timedelta(
            days=sd % 1000 - 1, hours=stime // 10000,
            minutes=stime % 10000 // 100, seconds=stime % 100)
        dt = datetime.timedelta(hours=ts // 10000,
                                minutes=ts % 10000 // 100, seconds=ts % 100)
        tf = np.zeros((nt, nvl, 2), dtype='i')
        for ti in range(nt):
            t = t0 + ti * dt
            tf[ti, :, 0] = t.year * 1000 + t.timetuple().tm_yday
            tf[ti, :, 1] = t.hour * 10000 + t.minute * 100 + t.second
        if fs.get('tflag_first'):
            arrs = OD([('TFLAG', tf)] + list(arrs.items()))
        else:
            arrs['TFLAG'] = tf
    fa = dict(SDATE=int(fs['sdate']), STIME=int(fs['stime']),
              TSTEP=int(fs['tstep']),
              VGLVLS=np.array(fs['vglvls'], dtype='f'), VGTOP=5000.,
              XORIG=-1024., YORIG=2048., XCELL=512., YCELL=512.,
              NLAYS=nl, FTYPE=2 if fs.get('perim') else 1)
    if fs.get('ctor', 'from_arrays') == 'from_ncvs':
        # the same construction by hand: variables -> from_ncvs -> metadata
        from PseudoNetCDF.core._variables import PseudoNetCDFVariable
        vs = OD()
        for k, arr in arrs.items():
            if k == 'TFLAG':
                vd = ('TSTEP', 'VAR', 'DATE-TIME')
                at = dict(units='<YYYYDDD,HHMMSS>', long_name='TFLAG',
                          var_desc='TFLAG')
            else:
                vd = ('TSTEP', 'LAY', 'PERIM') if fs.get('perim') else \
                    ('TSTEP', 'LAY', 'ROW', 'COL')
                at = dict(units='unknown', long_name=k, var_desc=k)
            at = dict(units=at['units'].ljust(16),
                      long_name=at['long_name'].ljust(16),
                      var_desc=at['var_desc'].ljust(80))
            vs[k] = PseudoNetCDFVariable.from_array(k, arr, vd, **at)
        f = ioapi_base.from_ncvs(**vs)
        f.updatemeta(fa)
    else:
        f = ioapi_base.from_arrays(fileattrs=fa, **arrs)
    if fs.get('tflag635'):
        f.variables['TFLAG'][:, :, 0] = -635
        f.variables['TFLAG'][:, :, 1] = 0
    return f


ROUTES = ['create', 'create', 'from_ncf', 'from_ncvs', 'disk3', 'disk4']


def disk_format(fs, want):
    """netCDF flavour a FileSpec can be stored in (classic needs the
    unlimited dimension leading in every variable that has it)"""
    unl = [d[0] for d in fs['dims'] if d[2]]
    classic_ok = True
    for v in fs['vars']:
        for u in unl:
            if u in v['dims'] and v['dims'].index(u) != 0:
                classic_ok = False
    if want == 'disk3' and classic_ok:
        return 'NETCDF3_CLASSIC'
    return 'NETCDF4'


def save_released(f, path, fmt):
    """f.save(...) with full handle discipline (DESIGN R8b): the written
    dataset is closed, the LAST reference is dropped and the cyclic GC runs
    before anything else is opened - otherwise the finaliser of the closed
    dataset fires later and closes whatever file has recycled its id (the
    C05 defect would then show up under other names)"""
    o = f.save(path, format=fmt, verbose=0)
    o.close()
    o = None
    gc.collect()


def close_all(handles):
    """close and finalise disk handles; empties the list in place"""
    while handles:
        h = handles.pop()
        try:
            h.close()
        except Exception:
            pass
        h = None
    gc.collect()


def build_packed(fs, keep=None):
    """disk-backed receiver (class netcdf) written with plain netCDF4: a
    packed variable T (int16 + scale_factor/add_offset, with or without
    _FillValue and missing cells), a masked float variable P, a coordinate x
    and optionally a CF time variable"""
    import netCDF4
    from PseudoNetCDF import pncopen
    from . import libstate
    nt, nx = fs['shape']
    path = libstate.scratch_path('.nc')
    ds = netCDF4.Dataset(path, 'w', format=fs['fmt'])
    try:
        ds.title = 'packed'
        ds.createDimension('time', None if fs.get('unlimited') else nt)
        ds.createDimension('x', nx)
        x = ds.createVariable('x', 'f8', ('x',))
        x.units = 'm'
        x[:] = np.array(fs['x'], dtype='f8')
        if fs.get('time'):
            t = ds.createVariable('time', 'f8', ('time',))
            t.units = 'hours since 2000-01-01 00:00:00'
            t[0:nt] = np.array(fs['tvals'], dtype='f8')
        kw = {}
        if fs.get('has_fill'):
            kw['fill_value'] = np.int16(fs['fill'])
        v = ds.createVariable('T', 'i2', ('time', 'x'), **kw)
        v.set_auto_maskandscale(False)
        if fs.get('scale') is not None:
            v.scale_factor = np.float32(fs['scale'])
        if fs.get('offset') is not None:
            v.add_offset = np.float32(fs['offset'])
        v.units = 'K'
        v[0:nt] = np.array(fs['raw'], dtype='i2').reshape(nt, nx)
        pv = ds.createVariable('P', 'f4', ('time', 'x'), fill_value=-999.)
        pv.units = 'Pa'
        pv[0:nt] = np.ma.masked_array(
            np.array(fs['p'], dtype='f4').reshape(nt, nx),
            mask=np.array(fs['pmask'], dtype=bool).reshape(nt, nx))
    finally:
        ds.close()
    f = pncopen(path, format='netcdf')
    if keep is not None:
        keep.append(f)
    return f


def build(fs, keep=None):
    """library object for a spec (FileSpec with optional 'route', or
    IoapiSpec).  Disk routes register what must be released in `keep`."""
    from PseudoNetCDF import PseudoNetCDFFile, pncopen
    from . import libstate
    if fs.get('kind') == 'ioapi':
        f0 = build_ioapi(fs)
        if not fs.get('disk'):
            return f0
        # "a reader": saved as netCDF and reopened through the ioapi reader
        path = libstate.scratch_path('.nc')
        save_released(f0, path, 'NETCDF3_CLASSIC')
        f = pncopen(path, format='ioapi')
        if keep is not None:
            keep.append(f)
        return f
    if fs.get('kind') == 'packed':
        return build_packed(fs, keep)
    route = fs.get('route', 'create')
    f0 = S.build_file(fs)
    if route == 'create':
        if fs.get('coordkeys'):
            f0.setCoords(list(fs['coordkeys']))
        return f0
    if route == 'from_ncf':
        f = PseudoNetCDFFile.from_ncf(f0)
        if fs.get('coordkeys'):
            f.setCoords(list(fs['coordkeys']))
        return f
    if route == 'from_ncvs':
        return PseudoNetCDFFile.from_ncvs(
            **OD((k, v) for k, v in f0.variables.items()))
    fmt = disk_format(fs, route)
    path = libstate.scratch_path('.nc')
    save_released(f0, path, fmt)
    f = pncopen(path, format='netcdf')
    if keep is not None:
        keep.append(f)
    return f


@st.composite
def generic_specs(draw, char=False, routes=ROUTES, **opts):
    o = dict(max_len=4, max_dims=4, max_vars=4, max_rank=3, attrs=True,
             masked=True, char=char)
    o.update(opts)
    fs = draw(S.filespecs(**o))
    fs['route'] = draw(st.sampled_from(list(routes)))
    # one more 1-D coordinate variable in a third of the files (the shared
    # strategy adds one per dimension with probability 1/4 only), so that
    # interpDimension / coordinate-sized slicing are well represented
    have = set(v['name'] for v in fs['vars'])
    cand = [d for d in fs['dims'] if d[0] not in have and d[1] >= 2]
    if cand and draw(st.integers(0, 2)) == 0:
        d = draw(st.sampled_from(cand))
        steps = draw(st.lists(st.integers(1, 3), min_size=d[1],
                              max_size=d[1]))
        sign = draw(st.sampled_from([1, 1, -1]))
        start = draw(st.integers(-9, 9))
        vals = [start + sign * int(x) for x in np.cumsum(steps)]
        fs['vars'].append(dict(name=d[0], dims=[d[0]],
                               dtype=draw(st.sampled_from(['f8', 'f4'])),
                               data=vals, mask=None, fill=None, attrs={},
                               coord=True))
    # an N-D coordinate variable (e.g. a height field zc(time, lev, y)):
    # every column along one axis strictly monotonic, declared on the axis
    # order of a variable - which in general is NOT the order in which the
    # file declares its dimensions - plus, often, a data variable on exactly
    # its dimensions (interpDimension(dimkey, new, coordkey=...))
    big = [d[0] for d in fs['dims'] if d[1] >= 2]
    if len(fs['dims']) >= 2 and big and not char and \
            draw(st.integers(0, 3)) == 0:
        dl = dict((d[0], d[1]) for d in fs['dims'])
        tuples = [tuple(v['dims']) for v in fs['vars']
                  if len(v['dims']) >= 2 and any(x in big for x in v['dims'])]
        if tuples and draw(st.booleans()):
            vd = list(draw(st.sampled_from(tuples)))
        else:
            rk = draw(st.integers(2, min(3, len(fs['dims']))))
            vd = list(draw(st.permutations([d[0] for d in fs['dims']]))[:rk])
            if not any(x in big for x in vd):
                vd[draw(st.integers(0, rk - 1))] = big[0]
                vd = list(OD.fromkeys(vd))
        if len(vd) >= 2:
            axd = draw(st.sampled_from([x for x in vd if x in big]))
            ax = vd.index(axd)
            shape = [dl[x] for x in vd]
            n = shape[ax]
            ncol = int(np.prod(shape)) // n
            starts = draw(st.lists(st.integers(-20, 20), min_size=ncol,
                                   max_size=ncol))
            steps = draw(st.lists(st.integers(1, 4), min_size=n, max_size=n))
            sign = draw(st.sampled_from([1, 1, -1]))
            col = sign * np.cumsum(steps)
            oshape = [x for j, x in enumerate(shape) if j != ax]
            arr = np.array(starts, dtype='f8').reshape(oshape)
            arr = np.expand_dims(arr, ax) + col.reshape(
                [n if j == ax else 1 for j in range(len(shape))])
            fs['vars'].append(dict(name='zc', dims=vd, dtype='f8',
                                   data=[float(x) for x in arr.ravel()],
                                   mask=None, fill=None, attrs={},
                                   ndcoord=axd))
            if draw(st.booleans()):
                size = int(np.prod(shape))
                fs['vars'].append(dict(
                    name='zv', dims=vd, dtype='f4',
                    data=[float(x) for x in draw(st.lists(
                        st.integers(-40, 40), min_size=size, max_size=size))],
                    mask=None, fill=None, attrs={}))
    # coordinates declared through setCoords (in-memory routes): 1-D
    # coordinate variables and/or arbitrary (2-D, masked) variables; they are
    # excluded from arithmetic and ride along in subsetVariables/eval
    if not fs['route'].startswith('disk') and fs['route'] != 'from_ncvs' \
            and draw(st.integers(0, 2)) == 0:
        names = [v['name'] for v in fs['vars']]
        pref = [v['name'] for v in fs['vars'] if v.get('coord') or
                v.get('mask') is not None or len(v['dims']) >= 2]
        k = draw(st.integers(1, min(2, len(names))))
        fs['coordkeys'] = sorted(set(
            draw(st.permutations(pref + names))[:k]))
    return fs


# ------------------------------------------------------------------ drawing
def _sel(draw, n, allow_list):
    kinds = ['slice', 'slice']
    if n >= 1:
        kinds += ['int', 'int'] + (['list'] if allow_list else [])
    kind = draw(st.sampled_from(kinds))
    if kind == 'int':
        return ['int', draw(st.integers(-n, n - 1))]
    if kind == 'slice':
        b = st.one_of(st.none(), st.integers(-n - 1, n + 1))
        step = draw(st.sampled_from([None, None, 1, 2, -1]))
        return ['slice', [draw(b), draw(b), step]]
    k = draw(st.integers(1, 4))
    return ['list', draw(st.lists(st.integers(-n, n - 1), min_size=k,
                                  max_size=k))]


def sel_size(n, kind, val):
    a = np.arange(n)
    if kind == 'int':
        return 1
    if kind == 'slice':
        return a[slice(*val)].size
    return len(val)


def to_selector(kind, val):
    if kind == 'int':
        return int(val)
    if kind == 'slice':
        return slice(*val)
    return [int(i) for i in val]


def draw_slice(draw, info):
    # a variable named like a dimension is taken for its coordinate by
    # sliceDimensions and must then be 1-D over it (CF); other dimensions
    # only in the out-of-domain family
    names = [d for d in info.opdims() if not info.oddcoord(d)]
    k = draw(st.integers(1, min(3, len(names))))
    chosen = list(draw(st.permutations(names))[:k])
    pos = [d for d in names if info.dims[d][0] >= 1]
    zipped = len(pos) >= 2 and draw(st.integers(0, 5)) == 0
    sel = []
    newdims = None
    if zipped:
        zd = list(draw(st.permutations(pos))[:2])
        npts = draw(st.integers(1, 3))
        for d in zd:
            n = info.dims[d][0]
            sel.append([d, 'list', draw(st.lists(st.integers(-n, n - 1),
                                                 min_size=npts,
                                                 max_size=npts))])
        for d in chosen:
            if d not in zd:
                sel.append([d] + _sel(draw, info.dims[d][0], False))
        newdims = [info.fresh('P')]
    else:
        nl = 0
        for d in chosen:
            s = _sel(draw, info.dims[d][0], nl == 0)
            if s[0] == 'list':
                nl += 1
            sel.append([d] + s)
    if info.cls == 'ioapi':
        # the IOAPI wrapper re-derives origin / VGLVLS / start time from the
        # first selected element: a window must select >= 1 element
        for s in sel:
            if sel_size(info.dims[s[0]][0], s[1], s[2]) == 0:
                s[1], s[2] = 'slice', [None, None, None]
    return dict(sel=sel, newdims=newdims)


def draw_apply(draw, info):
    pos = [d for d in info.opdims() if info.dims[d][0] >= 1]
    allpos = all(l >= 1 for l, _ in info.dims.values())
    spos = [d for d in pos if not (info.cls == 'ioapi' and d == 'TSTEP')]
    if allpos and len(spos) >= 2 and draw(st.integers(0, 4)) == 0:
        # several dimensions in ONE call, each with a callable that returns
        # a scalar (np.mean, np.max): every such dimension gets length 1
        k = draw(st.integers(2, min(3, len(spos))))
        chosen = list(draw(st.permutations(spos))[:k])
        return dict(funcs=[[d, 'call', draw(st.sampled_from(
            ['smean', 'smax']))] for d in chosen])
    k = draw(st.integers(1, min(2, len(pos))))
    chosen = list(draw(st.permutations(pos))[:k])
    funcs = []
    for d in chosen:
        # IOAPI: the time flags are reduced by name only (a callable would
        # be applied to TFLAG's YYYYDDD/HHMMSS integers themselves)
        if allpos and draw(st.integers(0, 2)) == 0 and \
                not (info.cls == 'ioapi' and d == 'TSTEP'):
            funcs.append([d, 'call', draw(st.sampled_from(CALLABLES))])
        else:
            funcs.append([d, 'name', draw(st.sampled_from(REDUCERS))])
    # a callable needs every *other* axis non-empty too (np.apply_along_axis)
    # and a second function must not see an axis the first one emptied
    lens = {d: info.dims[d][0] for d in info.dims}
    for fn in funcs:
        if fn[1] == 'call':
            lens[fn[0]] = func1d_len(fn[2], lens[fn[0]])
    if any(v == 0 for v in lens.values()):
        for fn in funcs:
            if fn[1] == 'call' and fn[2] == 'diff':
                fn[2] = 'cumsum'
    return dict(funcs=funcs)


def draw_stack(draw, info):
    d = draw(st.sampled_from(
        [x for x in info.opdims() if not info.oddcoord(x)]))
    n = info.dims[d][0]
    if draw(st.booleans()) or n == 0 or info.cls == 'ioapi':
        other = ['copy']
    else:
        a = draw(st.integers(0, n - 1))
        b = draw(st.integers(a + 1, n))
        other = ['slice', a, b]
    return dict(dim=d, other=other, aslist=draw(st.booleans()))


def draw_subset(draw, info):
    names = list(info.vars)
    k = draw(st.integers(1, len(names)))
    keys = list(draw(st.permutations(names))[:k])
    exclude = draw(st.integers(0, 3)) == 0 and len(names) >= 2
    if exclude:
        keys = keys[:max(1, min(len(keys), len(names) - 1))]
    return dict(keys=keys, exclude=exclude)


def draw_renvar(draw, info):
    names = [k for k in info.vars if not k.endswith('TFLAG')]
    old = draw(st.sampled_from(names))
    multi = draw(st.integers(0, 3)) == 0 and len(names) >= 2
    ren = [[old, info.fresh('r')]]
    if multi:
        old2 = draw(st.sampled_from([k for k in names if k != old]))
        ren.append([old2, info.fresh('r', avoid=[ren[0][1]])])
    return dict(ren=ren, multi=multi)


def draw_rendim(draw, info):
    names = list(info.dims)
    if info.cls == 'ioapi':
        names = [d for d in names if d not in IOAPI_DIMS]
    old = draw(st.sampled_from(names))
    ren = [[old, info.fresh('q')]]
    multi = draw(st.integers(0, 3)) == 0 and len(names) >= 2
    if multi:
        old2 = draw(st.sampled_from([k for k in names if k != old]))
        ren.append([old2, info.fresh('q', avoid=[ren[0][1]])])
    return dict(ren=ren, multi=multi)


def draw_insert(draw, info):
    names = list(info.dims)
    where = draw(st.sampled_from(['none', 'before', 'after']))
    ref = draw(st.sampled_from(names)) if names and where != 'none' else None
    if ref is None:
        where = 'none'
    exnames = info.opdims()   # not the IOAPI bookkeeping dimensions
    existing = bool(exnames) and draw(st.integers(0, 5)) == 0
    if existing:
        # add an existing dimension to the variables that lack it
        name = draw(st.sampled_from(exnames))
        length = info.dims[name][0]
        newonly = True
    else:
        name = info.fresh('k')
        length = draw(st.integers(1, 3))
        newonly = draw(st.booleans())
    return dict(name=name, length=length, where=where, ref=ref,
                newonly=newonly, multionly=draw(st.booleans()))


def draw_rmsing(draw, info):
    names = list(info.dims)
    if names and draw(st.booleans()):
        ones = [d for d in names if info.dims[d][0] == 1]
        pool = ones + ones + names
        return dict(dim=draw(st.sampled_from(pool)))
    return dict(dim=None)


def draw_reorder(draw, info):
    names = list(info.dims)
    if draw(st.integers(0, 3)) > 0:
        # every variable's dimensions are listed
        k = len(names)
    else:
        k = draw(st.integers(2, min(4, len(names))))
    old = list(draw(st.permutations(names))[:k])
    new = list(draw(st.permutations(old)))
    return dict(old=old, new=new, full=(k == len(names)))


def draw_mask(draw, info):
    out = {}
    preds = draw(st.lists(st.sampled_from(
        ['less', 'less_equal', 'greater', 'greater_equal', 'values',
         'equal', 'invalid', 'where']), min_size=1, max_size=3, unique=True))
    if 'where' not in preds and draw(st.booleans()):
        preds.append('where')
    scalars = any(vd == () for vd, _ in info.vars.values())
    for p in preds:
        if p == 'invalid':
            # numpy.ma.masked_invalid raises TypeError on a 0-d array whose
            # value is masked (numpy's own defect): not used with scalars
            if not scalars:
                out[p] = True
        elif p == 'where':
            vk = draw(st.sampled_from(
                [k for k in info.masked if k in info.vars] * 2 +
                list(info.vars)))
            vd = info.vars[vk][0]
            size = int(np.prod([info.dims[d][0] for d in vd])) if vd else 1
            bits = draw(st.lists(st.booleans(), min_size=size, max_size=size))
            out['where'] = dict(var=vk, bits=[int(b) for b in bits],
                                usedims=draw(st.booleans()))
        else:
            out[p] = draw(st.integers(-20, 20))
    out['coords'] = draw(st.booleans())
    return out


def draw_eval(draw, info):
    names = [k for k in info.vars if k.isidentifier() and
             not k.endswith('TFLAG')]
    a = draw(st.sampled_from(names))
    same = [k for k in names if info.vars[k][0] == info.vars[a][0]]
    b = draw(st.sampled_from(same))
    tgt = info.fresh('e')
    form = draw(st.sampled_from([
        '{t} = {a} * 2', '{t} = {a} + {b}', '{t} = np.abs({a}) - {b}',
        '{t} = np.where({a} > {b}, {a}, {b})', '{t} = {a} * 0 + 1.5',
        '{t} = {a} + {b}\n{u} = {a} - 1']))
    if info.disk:
        # netCDF4.Variable objects have no arithmetic: expressions on
        # disk-backed files read the data first (as pncexpr users do)
        a, b = a + '[:]', b + '[:]'
    return dict(expr=form.format(t=tgt, a=a, b=b,
                                 u=info.fresh('e', avoid=[tgt])),
                copyall=draw(st.booleans()))


def draw_binop(draw, info):
    ints = any(k in 'iu' for k2, (_, k) in info.vars.items()
               if k2 not in info.coords)
    ops = [o for o in BINOPS if not (ints and o == '**')]
    op = draw(st.sampled_from(ops))
    kinds = ['copy', 'copy', 'mask']
    data = [k for k in info.vars if k not in info.coords and
            not k.endswith('TFLAG')]
    if len(data) >= 2:
        # the second file lacks some variables of the first (documented:
        # "not found in ifile2; copied")
        kinds += ['subset', 'subset']
    pos = [d for d in info.opdims() if info.dims[d][0] >= 1 and
           not info.oddcoord(d)]
    if pos:
        # same-named variables with different (possibly broadcastable)
        # dimension tuples: an anomaly from a mean whose singleton was
        # removed, a renamed dimension, a reordered operand.  Not a
        # "conforming file": the step is judged as out-of-domain (may raise,
        # else the result must be well-formed)
        kinds += ['meanrm', 'meanrm', 'rendim']
        if len(info.dims) >= 2:
            kinds.append('reorder')
    # an operand with MORE axes (an ensemble / time axis inserted in front
    # of or inside the variables), length 1 and > 1
    kinds += ['insdim', 'insdim']
    kind = draw(st.sampled_from(kinds))
    # both operand orders: derived <op> receiver as well
    swap = kind in ('meanrm', 'rendim', 'reorder', 'insdim') and \
        draw(st.booleans())
    if kind == 'insdim':
        names = list(info.dims)
        where = draw(st.sampled_from(['none', 'none', 'before', 'after']))
        ref = draw(st.sampled_from(names)) if names and where != 'none' \
            else None
        return dict(op=op, other=['insdim', info.fresh('k'),
                                  draw(st.sampled_from([1, 2, 2, 3])),
                                  where if ref else 'none', ref],
                    swap=swap, _ood='binop-nonconforming')
    if kind == 'subset':
        k = draw(st.integers(1, len(data) - 1))
        keys = list(draw(st.permutations(data))[:k])
        return dict(op=op, other=['subset', keys])
    if kind == 'meanrm':
        # the leading dimension of some variable broadcasts; others may not
        lead = [vd[0] for vd, _ in info.vars.values() if vd and vd[0] in pos]
        d = draw(st.sampled_from(lead + lead + pos))
        return dict(op=op, other=['meanrm', d], swap=swap,
                    _ood='binop-nonconforming')
    if kind == 'rendim':
        d = draw(st.sampled_from(pos))
        return dict(op=op, other=['rendim', d, info.fresh('q')], swap=swap,
                    _ood='binop-nonconforming')
    if kind == 'reorder':
        names = list(info.dims)
        new = list(draw(st.permutations(names)))
        return dict(op=op, other=['reorder', names, new], swap=swap,
                    _ood='binop-nonconforming')
    return dict(op=op, other=[kind])


def _monotonic(vals):
    d = np.diff(np.asarray(vals, dtype='f8'))
    return len(vals) >= 2 and np.isfinite(d).all() and \
        ((d > 0).all() or (d < 0).all())


def interp_dims(info):
    allpos = all(v[0] >= 1 for v in info.dims.values())
    if not allpos:
        return []
    return [d for d, vals in info.coordvals.items()
            if d in info.dims and _monotonic(vals)]


def interp_nd(info):
    """(coordkey, dim, free) : N-D coordinate variables usable with
    interpDimension(dim, new, coordkey=coordkey).  Only variables on exactly
    the coordinate's dimensions are interpolated, every other variable is
    copied: the target length is free only when no other variable holds the
    dimension, otherwise it must keep the length"""
    out = []
    for ck, (vd, axes) in info.ndcoords.items():
        if ck not in info.vars or info.vars[ck][0] != vd:
            continue
        for d in axes:
            if d not in info.dims or info.dims[d][0] < 2:
                continue
            free = all(d not in od or od == vd
                       for od, _ in info.vars.values())
            out.append((ck, d, free))
    return out


def draw_interp(draw, info):
    nd = interp_nd(info)
    one = interp_dims(info)
    if nd and (not one or draw(st.integers(0, 2)) > 0):
        ck, d, free = draw(st.sampled_from(nd))
        n = info.dims[d][0]
        m = draw(st.integers(1, 4)) if free else n
        extrap = draw(st.booleans())
        lo, hi = (-1, 5) if extrap else (0, 4)
        fr = draw(st.lists(st.integers(lo, hi), min_size=m, max_size=m))
        return dict(dim=d, coordkey=ck, fracs=[x / 4.0 for x in fr],
                    extrapolate=extrap)
    d = draw(st.sampled_from(one))
    vals = info.coordvals[d]
    lo, hi = min(vals), max(vals)
    m = draw(st.integers(1, 4))
    extrap = draw(st.booleans())
    pts = draw(st.lists(st.integers(int(np.floor(lo)) * 4 - 4,
                                    int(np.ceil(hi)) * 4 + 4),
                        min_size=m, max_size=m, unique=True))
    pts = sorted(p / 4.0 for p in pts)
    if draw(st.booleans()):
        pts = pts[::-1]
    return dict(dim=d, new=pts, extrapolate=extrap)


def sigma_ok(info):
    if not info.ioapi_intact:
        return False
    v = info.vglvls
    return len(v) >= 2 and (np.diff(v) < 0).all() and \
        all(x == x for x in v)


def draw_interpsigma(draw, info):
    v = info.vglvls
    hi, lo = v[0], v[-1]
    m = draw(st.integers(1, 3))
    inner = draw(st.lists(st.integers(1, 31), min_size=m - 1, max_size=m - 1,
                          unique=True))
    new = [hi] + [lo + (hi - lo) * x / 32.0
                  for x in sorted(inner, reverse=True)] + [lo]
    kinds = ['conserve']
    if len(v) >= 3:
        kinds += ['linear', 'linear']
    return dict(vglvls=new, interptype=draw(st.sampled_from(kinds)))


def draw_copy(draw, info):
    fl = [draw(st.booleans()) for _ in range(4)]
    if draw(st.booleans()):
        fl = [True, True, draw(st.booleans()), draw(st.booleans())]
    # variables need their dimensions: (dimensions=False, variables=True)
    # is contradictory unless every variable is a scalar
    if fl[2] and not fl[1] and any(vd for vd, _ in info.vars.values()):
        fl[1] = True
    return dict(props=fl[0], dimensions=fl[1], variables=fl[2], data=fl[3])


DRAW = dict(copy=draw_copy, slice=draw_slice, apply=draw_apply,
            stack=draw_stack, subset=draw_subset, renvar=draw_renvar,
            rendim=draw_rendim, insert=draw_insert, rmsing=draw_rmsing,
            reorder=draw_reorder, mask=draw_mask, eval=draw_eval,
            binop=draw_binop, interp=draw_interp,
            interpsigma=draw_interpsigma)


def applicable(info):
    """operations whose documented domain is non-empty on this file"""
    ops = ['copy', 'insert', 'rmsing']
    nd, nv = len(info.dims), len(info.vars)
    sl = [d for d in info.opdims() if not info.oddcoord(d)]
    if sl:
        ops += ['slice', 'stack']
    if nd >= 1:
        rn = [d for d in info.dims
              if not (info.cls == 'ioapi' and d in IOAPI_DIMS)]
        if rn:
            ops.append('rendim')
    if nd >= 2:
        ops.append('reorder')
    if nv >= 1:
        ops.append('subset')
        if any(not k.endswith('TFLAG') for k in info.vars):
            ops.append('renvar')
    if info.numeric:
        if any(info.dims[d][0] >= 1 for d in info.opdims()):
            ops.append('apply')
        if nv >= 1:
            ops.append('mask')
            ops.append('binop')
            if any(k.isidentifier() and not k.endswith('TFLAG')
                   for k in info.vars):
                ops.append('eval')
        if interp_dims(info) or interp_nd(info):
            ops.append('interp')
        if sigma_ok(info):
            ops.append('interpsigma')
    return ops


def draw_step(draw, info, allow=None, weights=None, rot=0):
    """`rot` rotates the pool (callers pass a number derived from the case
    so far): Hypothesis favours the first element of sampled_from, and a
    fixed order would starve the operations at the end of the list"""
    ops = applicable(info)
    if allow is not None:
        ops = [o for o in ops if o in allow]
    pool = []
    for o in sorted(ops):
        pool += [o] * (weights or {}).get(o, 1)
    # interleave so that neighbours differ, then rotate
    pool = [pool[(i * 7) % len(pool)] for i in range(len(pool))] \
        if len(pool) % 7 else pool
    k = rot % len(pool)
    pool = pool[k:] + pool[:k]
    op = draw(st.sampled_from(pool))
    args = DRAW[op](draw, info)
    return dict(op=op, args=args, ood=args.pop('_ood', None))


# ---- out-of-domain family: arguments the docstrings exclude -------------
OOD_KINDS = ['slice-unknown-dim', 'slice-index-range', 'slice-list-lengths',
             'stack-nonconforming', 'stack-unknown-dim', 'apply-unknown-dim',
             'rendim-unknown', 'renvar-unknown', 'subset-unknown',
             'reorder-unknown', 'insert-existing', 'copy-vars-nodims',
             'rmsing-unknown', 'interp-unknown-dim']


def draw_ood(draw, info):
    kinds = []
    names = list(info.dims)
    pos = [d for d in names if info.dims[d][0] >= 1]
    if names:
        kinds += ['slice-index-range', 'slice-index-range',
                  'insert-existing']
    if len(pos) >= 2:
        kinds += ['slice-list-lengths'] * 2
    if any(info.dims[d][0] >= 2 for d in names) and len(names) >= 2:
        kinds += ['stack-nonconforming'] * 2
    kinds += ['reorder-unknown', 'subset-unknown', 'renvar-unknown',
              'rendim-unknown', 'stack-unknown-dim', 'interp-unknown-dim',
              'apply-unknown-dim', 'slice-unknown-dim', 'rmsing-unknown',
              'copy-vars-nodims']
    odd = [d for d in names if info.oddcoord(d) and info.dims[d][0] >= 1]
    if odd:
        kinds += ['slice-oddcoord'] * 3
    if info.cls == 'ioapi' and 'DATE-TIME' in info.dims and \
            info.dims['DATE-TIME'][0] >= 1:
        kinds += ['slice-ioapi-metadim'] * 2
    kind = draw(st.sampled_from(kinds))
    bad = 'nosuch'
    if kind == 'slice-oddcoord':
        d = draw(st.sampled_from(odd))
        return dict(op='slice', ood=kind, args=dict(
            sel=[[d] + _sel(draw, info.dims[d][0], True)], newdims=None))
    if kind == 'slice-ioapi-metadim':
        return dict(op='slice', ood=kind, args=dict(
            sel=[['DATE-TIME', 'int', draw(st.integers(0, 1)) %
                  info.dims['DATE-TIME'][0]]], newdims=None))
    if kind == 'copy-vars-nodims':
        return dict(op='copy', ood=kind, args=dict(
            props=draw(st.booleans()), dimensions=False, variables=True,
            data=draw(st.booleans())))
    if kind == 'rmsing-unknown':
        return dict(op='rmsing', ood=kind, args=dict(dim=bad))
    if kind == 'slice-unknown-dim':
        return dict(op='slice', ood=kind, args=dict(
            sel=[[bad, 'int', 0]], newdims=None))
    if kind == 'apply-unknown-dim':
        return dict(op='apply', ood=kind, args=dict(
            funcs=[[bad, 'name', 'mean']]))
    if kind == 'rendim-unknown':
        return dict(op='rendim', ood=kind, args=dict(
            ren=[[bad, info.fresh('q')]], multi=False))
    if kind == 'renvar-unknown':
        return dict(op='renvar', ood=kind, args=dict(
            ren=[[bad, info.fresh('r')]], multi=False))
    if kind == 'subset-unknown':
        return dict(op='subset', ood=kind, args=dict(keys=[bad],
                                                     exclude=False))
    if kind == 'reorder-unknown':
        return dict(op='reorder', ood=kind, args=dict(
            old=[bad, 'nosuch2'], new=['nosuch2', bad]))
    if kind == 'stack-unknown-dim':
        return dict(op='stack', ood=kind, args=dict(dim=bad, other=['copy'],
                                                    aslist=False))
    if kind == 'interp-unknown-dim':
        return dict(op='interp', ood=kind, args=dict(dim=bad, new=[0.0, 1.0],
                                                     extrapolate=False))
    if kind == 'slice-index-range':
        d = draw(st.sampled_from(names))
        n = info.dims[d][0]
        i = draw(st.sampled_from([n, n + 2, -n - 1]))
        how = draw(st.sampled_from(['int', 'list']))
        return dict(op='slice', ood=kind, args=dict(
            sel=[[d, how, i if how == 'int' else [i]]], newdims=None))
    if kind == 'insert-existing':
        d = draw(st.sampled_from(names))
        return dict(op='insert', ood=kind, args=dict(
            name=d, length=info.dims[d][0], where='none', ref=None,
            newonly=False, multionly=False))
    if kind == 'slice-list-lengths':
        zd = list(draw(st.permutations(pos))[:2])
        return dict(op='slice', ood=kind, args=dict(
            sel=[[zd[0], 'list', [0]], [zd[1], 'list', [0, 0]]],
            newdims=[info.fresh('P')]))
    if kind == 'stack-nonconforming':
        # the operand is shorter along a dimension that is not stacked
        e = draw(st.sampled_from([x for x in names if info.dims[x][0] >= 2]))
        d = draw(st.sampled_from([x for x in names if x != e]))
        return dict(op='stack', ood=kind, args=dict(
            dim=d, other=['sliceother', e, 0, 1], aslist=False))
    raise KeyError(kind)


# ------------------------------------------------------------------ apply
def derive_operand(f, op, args):
    """the conforming second file of stack / binary operators, derived from
    the receiver through the library itself"""
    o = args['other']
    if o[0] == 'copy':
        return f.copy()
    if o[0] == 'slice':
        return f.sliceDimensions(**{args['dim']: slice(o[1], o[2])})
    if o[0] == 'sliceother':
        return f.sliceDimensions(**{o[1]: slice(o[2], o[3])})
    if o[0] == 'mask':
        return f.mask(greater=0)
    if o[0] == 'subset':
        return f.subsetVariables(list(o[1]))
    if o[0] == 'meanrm':
        return f.applyAlongDimensions(**{o[1]: 'mean'}).removeSingleton(o[1])
    if o[0] == 'rendim':
        return f.renameDimension(o[1], o[2])
    if o[0] == 'reorder':
        return f.reorderDimensions(list(o[1]), list(o[2]))
    if o[0] == 'insdim':
        kw = dict(newonly=True, multionly=False)
        if o[3] == 'before':
            kw['before'] = o[4]
        elif o[3] == 'after':
            kw['after'] = o[4]
        kw[o[1]] = o[2]
        return f.insertDimension(**kw)
    raise KeyError(o[0])


def apply_step(f, step, operand=None):
    """run one step on library file f; returns the resulting file"""
    op, a = step['op'], step['args']
    if op == 'copy':
        return f.copy(props=a['props'], dimensions=a['dimensions'],
                      variables=a['variables'], data=a['data'])
    if op == 'slice':
        kw = OD((d, to_selector(k, v)) for d, k, v in a['sel'])
        if a.get('newdims'):
            kw['newdims'] = tuple(a['newdims'])
        return f.sliceDimensions(**kw)
    if op == 'apply':
        kw = OD()
        for d, how, name in a['funcs']:
            kw[d] = name if how == 'name' else func1d(name)
        return f.applyAlongDimensions(**kw)
    if op == 'stack':
        if operand is None:
            operand = derive_operand(f, op, a)
        return f.stack([operand] if a.get('aslist') else operand, a['dim'])
    if op == 'subset':
        return f.subsetVariables(list(a['keys']), exclude=a['exclude'])
    if op == 'renvar':
        if a['multi']:
            return f.renameVariables(**OD(a['ren']))
        return f.renameVariable(a['ren'][0][0], a['ren'][0][1])
    if op == 'rendim':
        if a['multi']:
            return f.renameDimensions(**OD(a['ren']))
        return f.renameDimension(a['ren'][0][0], a['ren'][0][1])
    if op == 'insert':
        kw = dict(newonly=a['newonly'], multionly=a['multionly'])
        if a['where'] == 'before':
            kw['before'] = a['ref']
        elif a['where'] == 'after':
            kw['after'] = a['ref']
        kw[a['name']] = a['length']
        return f.insertDimension(**kw)
    if op == 'rmsing':
        return f.removeSingleton(a['dim'])
    if op == 'reorder':
        return f.reorderDimensions(list(a['old']), list(a['new']))
    if op == 'mask':
        kw = {}
        for k, v in a.items():
            if k == 'where':
                var = f.variables[v['var']]
                w = np.array(v['bits'], dtype=bool).reshape(var.shape)
                kw['where'] = w
                if v['usedims']:
                    kw['dims'] = tuple(var.dimensions)
            elif k == 'invalid':
                kw['invalid'] = True
            else:
                kw[k] = v
        return f.mask(**kw)
    if op == 'eval':
        return f.eval(a['expr'], copyall=a['copyall'])
    if op == 'binop':
        if operand is None:
            operand = derive_operand(f, op, a)
        if a.get('swap'):
            f, operand = operand, f
        o = a['op']
        if o == '+':
            return f + operand
        if o == '-':
            return f - operand
        if o == '*':
            return f * operand
        if o == '/':
            return f / operand
        if o == '//':
            return f // operand
        if o == '%':
            return f % operand
        if o == '**':
            return f ** operand
        if o == '<':
            return f < operand
        if o == '<=':
            return f <= operand
        if o == '>':
            return f > operand
        if o == '>=':
            return f >= operand
        if o == '==':
            return f == operand
        if o == '!=':
            return f != operand
        raise KeyError(o)
    if op == 'interp' and a.get('coordkey'):
        # N-D coordinate: per column, targets at the given fractions of the
        # column's range, as a variable on the coordinate's dimensions
        from PseudoNetCDF.core._variables import PseudoNetCDFVariable
        cv = f.variables[a['coordkey']]
        vd = tuple(cv.dimensions)
        ax = vd.index(a['dim'])
        old = np.asarray(np.ma.getdata(cv[...]), dtype='f8')
        lo = old.min(axis=ax, keepdims=True)
        hi = old.max(axis=ax, keepdims=True)
        fr = np.array(a['fracs'], dtype='f8').reshape(
            [len(a['fracs']) if j == ax else 1 for j in range(old.ndim)])
        new = PseudoNetCDFVariable.from_array('new', lo + fr * (hi - lo), vd)
        return f.interpDimension(a['dim'], new, coordkey=a['coordkey'],
                                 extrapolate=a['extrapolate'])
    if op == 'interp':
        return f.interpDimension(a['dim'], np.array(a['new'], dtype='f8'),
                                 extrapolate=a['extrapolate'])
    if op == 'interpsigma':
        return f.interpSigma(np.array(a['vglvls'], dtype='f8'),
                             interptype=a['interptype'])
    raise KeyError(op)
