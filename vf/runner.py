"""Check driver: ./check <ID> [--tier quick|thorough] [--seed N] [--replay F]

Exit codes: 0 property held on everything explored (known findings printed
as KNOWN-FINDING lines), 1 at least one VIOLATION line, 2 harness error.
See DESIGN.md section 3.
"""
import argparse
import collections
import hashlib
import importlib
import json
import multiprocessing
import os
import shutil
import sys
import tempfile
import time
import traceback

from .core import (Reject, HarnessError, canon, spec_hash, abridge, eprint,
                   verif_root)

NSHARDS_DEFAULT = 16
MAX_ROUNDS = 5


class Violation(AssertionError):
    pass


def load(prop):
    return importlib.import_module('vf.props.' + prop.lower())


def derive_seed(seed, shard, rnd):
    h = hashlib.sha1(('%d:%d:%d' % (seed, shard, rnd)).encode()).hexdigest()
    return int(h[:12], 16)


class Stats(object):
    def __init__(self):
        self.evaluations = 0
        self.shrink_evals = 0
        self.rejected = 0
        self.budget_skipped = 0
        self.nontrivial = set()
        self.distinct = set()
        self.labels = collections.Counter()
        self.known = collections.Counter()
        self.violations = []   # dicts: sig, detail, spec
        self.samples = []
        self.replayed = 0
        self.enumerated = 0
        self.notes = []
        self.exhaustive = None

    def asdict(self):
        return dict(evaluations=self.evaluations,
                    shrink_evals=self.shrink_evals,
                    rejected=self.rejected,
                    budget_skipped=self.budget_skipped,
                    nontrivial=sorted(self.nontrivial),
                    distinct=len(self.distinct),
                    labels=dict(self.labels), known=dict(self.known),
                    violations=self.violations, samples=self.samples,
                    replayed=self.replayed, enumerated=self.enumerated,
                    notes=self.notes, exhaustive=self.exhaustive)


class Ctx(object):
    """per-worker evaluation context"""

    def __init__(self, mod, prop, stats, journal_path):
        from . import known
        self.mod = mod
        self.prop = prop
        self.stats = stats
        self.journal_path = journal_path
        self.known = known.Matcher(prop)
        self.excluded = set()

    def evaluate(self, runner, spec_for_journal, count=True):
        """runner() -> Result.  Returns (unknown_failures, result or None)."""
        st = self.stats
        if self.journal_path:
            # written before every evaluation: crash diagnosis, and the
            # parent's watchdog reads its mtime as "start of the current case"
            # (interactive modules have no spec yet: 'null')
            try:
                with open(self.journal_path, 'w') as fo:
                    fo.write(canon(spec_for_journal)
                             if spec_for_journal is not None else 'null')
            except Exception:
                pass
        from . import libstate
        libstate.reset()
        try:
            res = runner()
        except Reject:
            if count:
                st.rejected += 1
            return [], None
        spec = res.journal if res.journal is not None else spec_for_journal
        if res.rejected:
            if count:
                st.rejected += 1
            return [], res
        if count:
            st.evaluations += 1
            h = spec_hash(spec)
            st.distinct.add(h)
            for lb in res.labels:
                st.labels[lb] += 1
            if res.nontrivial:
                st.nontrivial.add(h)
                if len(st.samples) < 3:
                    st.samples.append(abridge(spec))
        else:
            st.shrink_evals += 1
        unknown = []
        for f in res.failures:
            kid = self.known.match(spec, f)
            if kid:
                if count:
                    st.known[kid] += 1
            else:
                unknown.append(f)
        return unknown, res


def run_pinned(ctx, tier):
    """replays/<ID>/*.json : known-finding reproducers, regression cases of
    fixed findings, corpus of cases that killed mutants.  Bypasses
    Hypothesis."""
    mod, st = ctx.mod, ctx.stats
    d = os.path.join(verif_root(), 'replays', ctx.prop)
    out = []   # (kind, text)
    if not os.path.isdir(d):
        return out
    for fn in sorted(os.listdir(d)):
        if not fn.endswith('.json'):
            continue
        path = os.path.join(d, fn)
        with open(path) as fi:
            rec = json.load(fi)
        spec = rec['spec']
        expect = rec.get('expect', 'pass')
        unknown, res = ctx.evaluate(lambda: mod.check_case(spec), spec)
        st.replayed += 1
        if res is None:
            raise HarnessError('pinned replay %s was rejected' % path)
        if expect.startswith('known:'):
            kid = expect.split(':', 1)[1]
            matched = [f for f in res.failures
                       if ctx.known.match(spec, f) == kid]
            if matched:
                out.append(('known', kid, matched[0].detail))
            else:
                out.append(('note', kid, 'pinned reproducer of known finding'
                            ' %s no longer fails' % kid))
        # a pinned case that is expected to pass (regression case of a fixed
        # finding, corpus case) is judged strictly: a failure is reported
        # even if it happens to match the matcher of some known finding
        judged = unknown if expect.startswith('known:') else res.failures
        for f in judged:
            if f.sig in ctx.excluded:
                continue
            ctx.excluded.add(f.sig)
            st.violations.append(dict(sig=f.sig, detail=f.detail, spec=spec,
                                      replay=path))
    return out


def run_enumeration(ctx, tier, shard, nshards):
    mod, st = ctx.mod, ctx.stats
    if not hasattr(mod, 'enumerate_cases'):
        return
    n = 0
    for i, spec in enumerate(mod.enumerate_cases(tier)):
        if i % nshards != shard:
            continue
        n += 1
        unknown, res = ctx.evaluate(lambda: mod.check_case(spec), spec)
        st.enumerated += 1
        for f in unknown:
            if f.sig in ctx.excluded:
                continue
            ctx.excluded.add(f.sig)
            st.violations.append(dict(sig=f.sig, detail=f.detail,
                                      spec=(res.journal if res is not None and
                                            res.journal is not None else spec)))


def run_search(ctx, tier, seed, shard, nshards, examples, t_end, shrink_cap):
    import hypothesis
    from hypothesis import given, settings, HealthCheck, Phase, Verbosity
    from hypothesis import strategies as hst
    mod, st = ctx.mod, ctx.stats
    interactive = hasattr(mod, 'interactive')
    per = max(1, examples // nshards)
    # The shard's examples are generated in chunks, each a separate
    # Hypothesis run with its own derived seed; the time budget is checked
    # between chunks (never inside a test body: returning or raising there
    # makes interactive draws look inconsistent to Hypothesis).  A budget
    # hit ends the search as "inconclusive for the remainder".
    chunk = max(20, min(500, per // 8))
    remaining = per
    chunk_no = 0
    rounds = 0
    max_rounds = MAX_ROUNDS
    if os.environ.get('VF_SENSITIVITY'):
        # sensitivity runs (mutants/run_mutants.sh) only need the verdict:
        # hardly any shrinking, stop at the first violation of the shard
        shrink_cap = min(shrink_cap, 10)
        max_rounds = 1
    while remaining > 0:
        if time.time() > t_end:
            st.budget_skipped += remaining
            st.notes.append('time budget reached: %d examples of this shard '
                            'not generated (inconclusive, not a violation)'
                            % remaining)
            break
        n = min(chunk, remaining)
        state = dict(target=None, best=None, best_detail='', calls=0,
                     best_canon=None)

        def body(x):
            counting = state['target'] is None
            if not counting:
                state['calls'] += 1
                if state['calls'] > shrink_cap and not interactive and \
                        canon(x) != state['best_canon']:
                    return
            if interactive:
                unknown, res = ctx.evaluate(lambda: mod.interactive(x.draw),
                                            None, count=counting)
            else:
                unknown, res = ctx.evaluate(lambda: mod.check_case(x), x,
                                            count=counting)
            unknown = [f for f in unknown if f.sig not in ctx.excluded]
            if not unknown:
                return
            if state['target'] is None:
                state['target'] = unknown[0].sig
            hits = [f for f in unknown if f.sig == state['target']]
            if hits:
                spec = res.journal if res.journal is not None else x
                if interactive and state['calls'] > shrink_cap and \
                        canon(spec) != state['best_canon']:
                    return
                state['best'] = spec
                state['best_canon'] = canon(spec)
                state['best_detail'] = hits[0].detail
                raise Violation(state['target'])

        strat = hst.data() if interactive else mod.strategy(tier)
        test = given(strat)(body)
        test = settings(
            max_examples=n, database=None, deadline=None,
            derandomize=False, report_multiple_bugs=False,
            phases=[Phase.generate, Phase.shrink],
            verbosity=Verbosity.quiet, print_blob=False,
            suppress_health_check=[HealthCheck.too_slow,
                                   HealthCheck.data_too_large,
                                   HealthCheck.large_base_example],
        )(test)
        test = hypothesis.seed(derive_seed(seed, shard, chunk_no))(test)
        chunk_no += 1
        remaining -= n
        try:
            test()
        except Violation:
            pass
        except BaseException as e:
            if state['target'] is None:
                # not one of ours: health check / flaky / harness bug
                raise HarnessError('search aborted: %s: %s\n%s' % (
                    type(e).__name__, str(e)[:500],
                    traceback.format_exc()[-3000:]))
            st.notes.append('shrink ended with %s: %s' % (
                type(e).__name__, str(e)[:200]))
        if state['target'] is None:
            continue
        ctx.excluded.add(state['target'])
        st.violations.append(dict(sig=state['target'],
                                  detail=state['best_detail'],
                                  spec=state['best']))
        rounds += 1
        if rounds >= max_rounds:
            break


def worker(prop, tier, seed, shard, nshards, outdir, t_end):
    """runs in a child process; writes result-<shard>.json"""
    res_path = os.path.join(outdir, 'result-%d.json' % shard)
    jpath = os.path.join(outdir, 'journal-%d.json' % shard)
    st = Stats()
    out = dict(ok=False)
    try:
        os.environ['VF_SCRATCH'] = os.path.join(outdir, 'w%d' % shard)
        os.makedirs(os.environ['VF_SCRATCH'], exist_ok=True)
        from . import libstate
        libstate.check_repo()
        mod = load(prop)
        # everything imported so far is permanent: keep it out of the
        # collector's way so that the explicit gc.collect() calls of the
        # disk-handle discipline (R8b) stay cheap
        import gc
        gc.collect()
        gc.freeze()
        ctx = Ctx(mod, prop, st, jpath)
        budget = mod.BUDGET[tier]
        pinned = []
        if shard == 0:
            pinned = run_pinned(ctx, tier)
        run_enumeration(ctx, tier, shard, nshards)
        if budget.get('examples', 0) > 0:
            run_search(ctx, tier, seed, shard, nshards, budget['examples'],
                       t_end, budget.get('shrink_cap', 400))
        if hasattr(mod, 'finish'):
            mod.finish(st)
        out = dict(ok=True, stats=st.asdict(), pinned=pinned)
    except BaseException as e:
        out = dict(ok=False, error='%s: %s' % (type(e).__name__, e),
                   trace=traceback.format_exc(), stats=st.asdict())
    with open(res_path + '.tmp', 'w') as fo:
        json.dump(out, fo, default=str)
    os.replace(res_path + '.tmp', res_path)


def write_evidence(prop, mod, tier, seed, merged, wall, nviol, level=None):
    root = verif_root()
    os.makedirs(os.path.join(root, 'evidence'), exist_ok=True)
    from . import libstate
    cov = dict(
        evaluations=merged['evaluations'],
        distinct_nontrivial=len(merged['nontrivial']),
        distinct_cases=merged['distinct'],
        rule=mod.RULE,
        samples=merged['samples'][:5],
        labels=dict(sorted(merged['labels'].items())),
        rejected=merged['rejected'],
        pinned_replays=merged['replayed'],
        enumerated=merged['enumerated'],
        shrink_evaluations=merged['shrink_evals'],
        skipped_after_time_budget=merged['budget_skipped'],
        known_hits=merged['known'],
        tree=libstate.tree_id(),
        notes=merged['notes'][:20],
    )
    if merged.get('exhaustive') is not None:
        cov['exhaustive'] = bool(merged['exhaustive'])
        if hasattr(mod, 'EXHAUSTIVE_NOTE'):
            cov['exhaustive_scope'] = mod.EXHAUSTIVE_NOTE
    ev = dict(property_id=prop, tier=tier, seed=int(seed),
              level=level or mod.LEVEL, coverage=cov,
              assumptions=list(getattr(mod, 'ASSUMPTIONS', [])),
              wall_s=round(wall, 2), violations=int(nviol))
    edir = os.path.join(root, 'evidence')
    if os.path.realpath(libstate.repo_src()) != '/repo/src':
        # runs against a scratch copy (mutants, proposed fixes) never
        # overwrite the evidence of /repo
        edir = os.path.join(edir, 'scratch')
        os.makedirs(edir, exist_ok=True)
    path = os.path.join(edir, prop + '.json')
    with open(path + '.tmp', 'w') as fo:
        json.dump(ev, fo, indent=1, sort_keys=True, default=str)
    os.replace(path + '.tmp', path)
    try:
        import jsonschema
        sch = '/root/.vp/EVIDENCE.schema.json'
        if not os.path.exists(sch):
            sch = os.path.join(root, 'schemas', 'EVIDENCE.schema.json')
        if os.path.exists(sch):
            jsonschema.validate(json.load(open(path)), json.load(open(sch)))
    except ImportError:
        pass
    return path


def merge(results):
    m = dict(evaluations=0, shrink_evals=0, rejected=0, budget_skipped=0,
             nontrivial=set(), distinct=0, labels=collections.Counter(),
             known=collections.Counter(), violations=[], samples=[],
             replayed=0, enumerated=0, notes=[], exhaustive=None)
    for r in results:
        s = r['stats']
        for k in ('evaluations', 'shrink_evals', 'rejected', 'budget_skipped',
                  'replayed', 'enumerated', 'distinct'):
            m[k] += s[k]
        m['nontrivial'].update(s['nontrivial'])
        m['labels'].update(s['labels'])
        m['known'].update(s['known'])
        m['violations'].extend(s['violations'])
        for x in s['samples']:
            if len(m['samples']) < 5:
                m['samples'].append(x)
        m['notes'].extend(s['notes'])
        if s.get('exhaustive') is not None:
            m['exhaustive'] = (s['exhaustive'] if m['exhaustive'] is None
                               else (m['exhaustive'] and s['exhaustive']))
    m['known'] = dict(m['known'])
    return m


def main(argv=None):
    ap = argparse.ArgumentParser()
    ap.add_argument('prop')
    ap.add_argument('--tier', default=os.environ.get('VERIF_TIER', 'quick'))
    ap.add_argument('--seed', type=int,
                    default=int(os.environ.get('VERIF_SEED', '1') or 1))
    ap.add_argument('--replay', default=None)
    ap.add_argument('--shards', type=int,
                    default=int(os.environ.get('VF_SHARDS', NSHARDS_DEFAULT)))
    a = ap.parse_args(argv)
    prop = a.prop.upper()
    tier = a.tier if a.tier in ('quick', 'thorough') else 'quick'
    t0 = time.time()
    try:
        mod = load(prop)
    except Exception:
        eprint(traceback.format_exc())
        print('HARNESS-ERROR property=%s cannot import check module' % prop)
        return 2

    if a.replay:
        return replay_one(prop, mod, a.replay)

    budget = mod.BUDGET[tier]
    nshards = int(budget.get('shards', a.shards))
    t_end = t0 + float(os.environ.get('VF_MAX_S') or
                        budget.get('max_s', 900 if tier == 'quick' else 3600))
    base = '/dev/shm' if os.path.isdir('/dev/shm') and \
        os.access('/dev/shm', os.W_OK) else None
    outdir = tempfile.mkdtemp(prefix='vf-%s-' % prop, dir=base)
    crashed = []
    results = []
    hung = {}
    case_max = 0.0
    try:
        ctxm = multiprocessing.get_context('fork')
        procs = []
        for sh in range(nshards):
            p = ctxm.Process(target=worker, args=(prop, tier, a.seed, sh,
                                                  nshards, outdir, t_end))
            p.start()
            procs.append(p)
        # watchdog: a worker whose current case (journal written before
        # every evaluation) has been running for case_max_s is killed and
        # reported as INCONCLUSIVE (exit 2) - a wall-clock limit is never a
        # violation; deterministic iteration counters inside the checks are
        # what turns non-termination into a violation
        case_max = float(os.environ.get('VF_CASE_MAX_S') or
                         budget.get('case_max_s', 900))
        started = time.time()
        hung = {}
        while any(p.is_alive() for p in procs):
            time.sleep(0.2)
            now = time.time()
            for sh, p in enumerate(procs):
                if not p.is_alive() or sh in hung:
                    continue
                jp = os.path.join(outdir, 'journal-%d.json' % sh)
                try:
                    t_case = os.path.getmtime(jp)
                except OSError:
                    t_case = started
                if now - t_case > case_max:
                    spec = None
                    try:
                        spec = json.load(open(jp))
                    except Exception:
                        pass
                    hung[sh] = spec
                    p.kill()
        for sh, p in enumerate(procs):
            p.join()
            if sh in hung:
                continue
            rp = os.path.join(outdir, 'result-%d.json' % sh)
            if os.path.exists(rp):
                with open(rp) as fi:
                    results.append(json.load(fi))
            else:
                jp = os.path.join(outdir, 'journal-%d.json' % sh)
                spec = None
                if os.path.exists(jp):
                    try:
                        spec = json.load(open(jp))
                    except Exception:
                        spec = None
                crashed.append((sh, p.exitcode, spec))
    finally:
        shutil.rmtree(outdir, ignore_errors=True)

    errors = [r for r in results if not r.get('ok')]
    merged = merge(results)
    root = verif_root()
    rc = 0
    # de-duplicate violations by signature across shards
    seen = {}
    for v in merged['violations']:
        seen.setdefault(v['sig'], v)
    crash_is_violation = getattr(mod, 'CRASH_IS_VIOLATION', False)
    for sh, code, spec in crashed:
        if crash_is_violation and spec is not None:
            seen.setdefault('hard-crash|exit=%s' % code, dict(
                sig='hard-crash|exit=%s' % code,
                detail='worker process died (exit %s)' % code, spec=spec))
        else:
            errors.append(dict(error='worker %d died with exit code %s' %
                               (sh, code), trace='', spec=spec))
    fdir = os.path.join(root, 'replays', prop, 'found')
    for sh, spec in sorted(hung.items()):
        os.makedirs(fdir, exist_ok=True)
        hp = os.path.join(fdir, '%s-hang-%d.json' % (prop, sh))
        with open(hp, 'w') as fo:
            json.dump(dict(property=prop, sig='inconclusive|case-wall-limit',
                           detail='case still running after %.0f s' %
                           case_max, spec=spec, expect='pass'), fo, indent=1,
                      default=str)
        errors.append(dict(error='INCONCLUSIVE: worker %d killed, one case '
                           'ran longer than %.0f s (spec saved as %s)' %
                           (sh, case_max, hp), trace=''))
    for sig, v in sorted(seen.items()):
        rc = 1
        if v.get('replay'):
            path = v['replay']
        else:
            os.makedirs(fdir, exist_ok=True)
            path = os.path.join(fdir, '%s-%s.json' % (
                prop, hashlib.sha1(sig.encode()).hexdigest()[:10]))
            with open(path, 'w') as fo:
                json.dump(dict(property=prop, sig=sig, detail=v['detail'],
                               spec=v['spec'], expect='pass'), fo, indent=1,
                          default=str)
        print('VIOLATION property=%s replay=%s' % (prop, path))
        print('  signature: %s' % sig)
        print('  detail: %s' % v['detail'][:600].replace('\n', ' '))
    # known findings: print one line per listed finding that reproduced
    from . import known
    printed = set()
    for r in results:
        for item in r.get('pinned', []):
            if item[0] == 'known' and item[1] not in printed:
                printed.add(item[1])
                print('KNOWN-FINDING: property=%s %s %s' % (
                    prop, item[1], known.describe(item[1])))
            elif item[0] == 'note':
                print('NOTE: %s' % item[2])
    for kid, n in sorted(merged['known'].items()):
        if kid not in printed:
            printed.add(kid)
            print('KNOWN-FINDING: property=%s %s %s' % (
                prop, kid, known.describe(kid)))
    wall = time.time() - t0
    try:
        path = write_evidence(prop, mod, tier, a.seed, merged, wall, len(seen))
    except Exception:
        eprint(traceback.format_exc())
        print('HARNESS-ERROR property=%s evidence could not be written/'
              'validated' % prop)
        return 2
    if errors:
        for e in errors[:3]:
            eprint(e.get('error'))
            eprint(e.get('trace', ''))
        print('HARNESS-ERROR property=%s %d worker error(s): %s' % (
            prop, len(errors), str(errors[0].get('error'))[:300]))
        return 1 if rc == 1 else 2
    print('%s tier=%s seed=%d evaluations=%d distinct_nontrivial=%d '
          'rejected=%d known_hits=%s violations=%d wall=%.1fs evidence=%s' % (
              prop, tier, a.seed, merged['evaluations'],
              len(merged['nontrivial']), merged['rejected'],
              merged['known'], len(seen), wall, path))
    return rc


def replay_one(prop, mod, path):
    from . import libstate, known
    libstate.check_repo()
    os.environ.setdefault('VF_SCRATCH', tempfile.mkdtemp(prefix='vf-rp-'))
    os.makedirs(os.environ['VF_SCRATCH'], exist_ok=True)
    try:
        with open(path) as fi:
            rec = json.load(fi)
        spec = rec['spec'] if isinstance(rec, dict) and 'spec' in rec else rec
        libstate.reset()
        res = mod.check_case(spec)
        matcher = known.Matcher(prop)
        rc = 0
        for f in res.failures:
            kid = matcher.match(spec, f)
            if kid:
                print('KNOWN-FINDING: property=%s %s %s' % (
                    prop, kid, known.describe(kid)))
            else:
                rc = 1
                print('VIOLATION property=%s replay=%s' % (prop, path))
                print('  signature: %s' % f.sig)
                print('  detail: %s' % f.detail[:1000])
        if rc == 0:
            print('%s replay %s: held (labels=%s)' % (prop, path, res.labels))
        return rc
    finally:
        shutil.rmtree(os.environ['VF_SCRATCH'], ignore_errors=True)


if __name__ == '__main__':
    try:
        sys.exit(main())
    except HarnessError as e:
        eprint('harness error: %s' % e)
        sys.exit(2)
