"""bpch plug-in of the truncation check C14 (vf/props/c14.py PLUGINS table).

One spec = one small GEOS-Chem binary punch file + its tracerinfo.dat /
diaginfo.dat.  The file is produced by the independent codec
vf/ref/bpch_ref.py (agentF's, imported, not edited); two plug-ins share the
spec: 'bpch' (bpch1, the memmap reader whose itemcount arithmetic C14
anchors) and 'bpch2' (the block-walking reader).

spec: {'fmt': 'bpch'|'bpch2', 'ni', 'nj', 'nt', 'tau0', 'dt', 'start',
       'tracers': [{'cat', 'offset', 'id', 'name', 'nl', 'scale', 'unit'}],
       'payload': {'mode', 'seed', 'over'}}
A "time block" is the run of data blocks (one per tracer) that share
tau0/tau1; the file holds nt of them.  Data blocks are three Fortran records
(36-byte grid header, 168-byte tracer header, data)."""
import contextlib
import gc
import io
import os
from collections import OrderedDict

import numpy as np
from hypothesis import strategies as st

from . import camxspec as C
from .ref import bpch_ref as B

CATS = [('IJ-AVG-$', 0), ('IJ-24H-$', 0), ('ANTHSRCE', 1000),
        ('PEDGE-$', 10000), ('DAO-FLDS', 11000), ('CHEM-L=$', 2000)]
NAMES = ['NOx', 'Ox', 'PAN', 'CO', 'ALK4', 'ISOP', 'HNO3', 'PSURF', 'OH']
SCALES = [1.0, 1e9, 1e6, 2.5, 1e-3]
UNITS = ['ppbv', 'ppbC', 'v/v', 'hPa', 'kg']
HEADER_END = 136          # 40-byte ftype record + 80-byte title record


# ------------------------------------------------------------------ strategy
@st.composite
def bpchspecs(draw, readers=('bpch', 'bpch', 'bpch2')):
    s = OrderedDict(fmt=draw(st.sampled_from(list(readers))))
    s['ni'] = draw(st.sampled_from([1, 2, 3]))
    s['nj'] = draw(st.sampled_from([1, 2]))
    s['nt'] = draw(st.sampled_from([2, 2, 3, 3, 1]))
    ntr = draw(st.sampled_from([2, 2, 1]))
    if s['nt'] == 1:
        ntr = 2
    cats = draw(st.permutations(CATS))
    names = draw(st.permutations(NAMES))
    same_cat = draw(st.booleans())
    trs = []
    for i in range(ntr):
        cat, off = cats[0] if same_cat else cats[i]
        trs.append(dict(cat=cat, offset=off, id=draw(st.integers(1, 60)) + i
                        * 61, name=names[i],
                        nl=draw(st.sampled_from([1, 1, 2])),
                        scale=draw(st.sampled_from(SCALES)),
                        unit=draw(st.sampled_from(UNITS))))
    s['tracers'] = trs
    s['tau0'] = draw(st.sampled_from([0.0, 175320.0, 140256.0, 8760.5]))
    s['dt'] = draw(st.sampled_from([1.0, 24.0, 744.0, 0.5]))
    s['start'] = draw(st.sampled_from([[1, 1, 1], [13, 50, 1], [2, 3, 2]]))
    s['payload'] = draw(C.payloads())
    return dict(s)


def canonical(fmt):
    return dict(fmt=fmt, ni=3, nj=2, nt=3, tau0=175320.0, dt=24.0,
                start=[13, 50, 1],
                tracers=[dict(cat='IJ-AVG-$', offset=0, id=1, name='NOx',
                              nl=2, scale=1e9, unit='ppbv'),
                         dict(cat='PEDGE-$', offset=10000, id=1, name='PSURF',
                              nl=1, scale=1.0, unit='hPa')],
                payload=dict(mode='bits', seed=14, over=[]))


# --------------------------------------------------------------------- model
def var_key(tr):
    return '%s_%s' % (tr['cat'], tr['name'])


def model(spec):
    """OrderedDict key -> '>f4' array (nt, nl, nj, ni); taus (nt, 2)"""
    ni, nj, nt = spec['ni'], spec['nj'], spec['nt']
    sizes = [nt * t['nl'] * nj * ni for t in spec['tracers']]
    bits = C.expand_payload(spec['payload'], sum(sizes))
    out = OrderedDict()
    pos = 0
    for t, n in zip(spec['tracers'], sizes):
        out[var_key(t)] = bits[pos:pos + n].view('>f4').reshape(
            nt, t['nl'], nj, ni)
        pos += n
    taus = np.array([[spec['tau0'] + i * spec['dt'],
                      spec['tau0'] + (i + 1) * spec['dt']]
                     for i in range(nt)], 'f8')
    return out, taus, bits


def blocks(spec):
    arrs, taus, _ = model(spec)
    out = []
    for t in range(spec['nt']):
        for tr in spec['tracers']:
            out.append(dict(
                modelname='GEOS5_47L', res=[2.5, 2.0], halfpolar=1,
                center180=1, category=tr['cat'], tracer=tr['id'],
                unit='v/v', tau0=float(taus[t, 0]), tau1=float(taus[t, 1]),
                reserved='', dim=[spec['ni'], spec['nj'], tr['nl']],
                start=spec['start'],
                data=np.ascontiguousarray(arrs[var_key(tr)][t]).tobytes()))
    return out


def encode(spec):
    return B.encode(dict(ftype='CTM bin 02',
                         title='GEOS-CHEM binary punch file v. 2.0',
                         blocks=blocks(spec)))


def prepare(spec, d):
    """tracerinfo.dat / diaginfo.dat next to the prefix files (with comment
    header, >= 2 rows each: the one-row and no-comment table classes are C18
    findings and not the subject here)"""
    rows = [dict(name=t['name'], fullname='%s tracer' % t['name'],
                 molwt=1.2e-2, carbon=1, tracer=t['id'] + t['offset'],
                 scale=t['scale'], unit=t['unit']) for t in spec['tracers']]
    rows.append(dict(name='DECOY', fullname='decoy', molwt=1.0, carbon=1,
                     tracer=99999, scale=1.0, unit='unitless'))
    with open(os.path.join(d, 'tracerinfo.dat'), 'w') as fo:
        fo.write(B.tracerinfo_text(rows, comments=True))
    seen = []
    drows = []
    for t in spec['tracers']:
        if t['cat'] not in seen:
            seen.append(t['cat'])
            drows.append(dict(offset=t['offset'], category=t['cat'],
                              comment='%s diagnostic' % t['cat']))
    drows.append(dict(offset=3000, category='UNUSED-$', comment='unused'))
    with open(os.path.join(d, 'diaginfo.dat'), 'w') as fo:
        fo.write(B.diaginfo_text(drows, comments=True))


def layout(spec, raw):
    """(end of the file header, [end offset of each time block]) and, as an
    attribute of the function result, nothing else: per-tracer completeness
    is recomputed by block_ends()"""
    dec = B.decode(raw)
    per = len(spec['tracers'])
    offs = [b['offset'] for b in dec['blocks']] + [len(raw)]
    ends = [offs[(i + 1) * per] for i in range(spec['nt'])]
    return HEADER_END, ends


def block_ends(spec, raw):
    """key -> [end offset of the data block of time t]"""
    dec = B.decode(raw)
    per = len(spec['tracers'])
    offs = [b['offset'] for b in dec['blocks']] + [len(raw)]
    out = {}
    for i, tr in enumerate(spec['tracers']):
        out[var_key(tr)] = [offs[t * per + i + 1] for t in range(spec['nt'])]
    return out


class BpchExpected(object):
    def __init__(self, spec, raw):
        self.vars, self.taus, self.bits = model(spec)
        self.nsteps = spec['nt']
        self.block_ends = block_ends(spec, raw)
        self.nj, self.ni = spec['nj'], spec['ni']


def expected(spec):
    return BpchExpected(spec, encode(spec))


# -------------------------------------------------------------------- reader
class BpchObs(object):
    def __init__(self):
        self.dims = {}
        self.vars = OrderedDict()
        self.tau0 = None
        self.tau1 = None


def _quiet(fn, *a, **k):
    with contextlib.redirect_stdout(io.StringIO()):
        return fn(*a, **k)


def open_and_read(spec, path, mode='r'):
    """open the prefix with the reader named by spec['fmt'] (unscaled, so
    that values are the stored REAL*4 bits) and read every tracer variable and
    tau0/tau1; whatever the reader raises propagates"""
    from PseudoNetCDF.geoschemfiles import bpch1, bpch2
    cls = bpch1 if spec['fmt'] == 'bpch' else bpch2
    f = None
    try:
        if mode == 'r':
            f = _quiet(cls, path, noscale=True)
        else:
            f = _quiet(cls, path, noscale=True, mode=mode)
        o = BpchObs()
        for d in ('time', 'latitude', 'longitude'):
            if d in f.dimensions:
                o.dims[d] = len(f.dimensions[d])
        known_keys = [var_key(t) for t in spec['tracers']]
        keys = [k for k in f.variables.keys()]
        for k in keys:
            if k in known_keys or '_' in k and k.split('_')[0] in \
                    [t['cat'] for t in spec['tracers']]:
                a = f.variables[k][...]
                if isinstance(a, np.ma.MaskedArray):
                    a = np.ma.getdata(a)
                o.vars[k] = np.array(a)
        o.tau0 = np.array(f.variables['tau0'][...])
        o.tau1 = np.array(f.variables['tau1'][...])
        return o
    finally:
        for k in ('_tracerinfofile', '_diaginfofile'):
            fo = getattr(f, k, None) if f is not None else None
            if fo is not None and hasattr(fo, 'close'):
                try:
                    fo.close()
                except Exception:
                    pass
        del f
        gc.collect(1)


# --------------------------------------------------------------------- judge
def judge(spec, exp, o, complete, k):
    """[(clause, message, tag)] for one prefix of k bytes whose read
    completed.  A time block (step) is complete when ALL data blocks that
    carry its tau0 are inside the prefix.  What is exposed must be complete
    and true: time = m <= (complete time blocks) <= n; the variable set of
    the exposed steps equals the full file's and every tracer variable has
    exactly m leading steps (clause incomplete-time-block otherwise: a step
    with tracers missing is not a complete step); values bit-identical to the
    full file; tau0/tau1 of the m steps identical."""
    out = []
    n = exp.nsteps
    m = o.dims.get('time')
    if not isinstance(m, (int, np.integer)) or isinstance(m, bool):
        return [('steps-not-integer', 'time has length %r' % (m,), '')]
    m = int(m)
    if m < 0 or m > n:
        return [('steps-out-of-range', 'exposes %d time blocks, the full '
                 'file has %d' % (m, n), '')]
    for d, want in (('latitude', exp.nj), ('longitude', exp.ni)):
        if d in o.dims and o.dims[d] != want:
            out.append(('dims-changed', 'dimension %s has length %r, full '
                        'file %r' % (d, o.dims[d], want), ''))
    for key, a in o.vars.items():
        if key not in exp.vars:
            out.append(('unexpected-variable', 'variable %s is not in the '
                        'file (%r)' % (key, list(exp.vars)), ''))
            continue
        full = exp.vars[key]
        mv = a.shape[0] if a.ndim == 4 else -1
        have = sum(1 for e in exp.block_ends[key] if e <= k)
        if mv < 0 or mv > n:
            out.append(('data-differ', 'variable %s has shape %r, full file '
                        '%r' % (key, a.shape, full.shape), ''))
            break
        if mv > have:
            out.append(('incomplete-block-exposed', 'variable %s exposes %d '
                        'time blocks, only %d of its data blocks are complete '
                        'in the prefix' % (key, mv, have), ''))
        msg = C.cmp_bits(a, full[:mv], 'variable %s' % key)
        if msg:
            out.append(('data-differ', msg, ''))
            break
    if m > 0:
        short = [key for key in exp.vars
                 if key not in o.vars or o.vars[key].ndim != 4 or
                 o.vars[key].shape[0] != m]
        if short or m > complete:
            out.append(('incomplete-time-block', 'exposes %d time block(s) '
                        'of which only %d are complete in the prefix; '
                        'tracers missing or shorter than time: %r' % (
                            m, complete, short), ''))
    for nm, got, col in (('tau0', o.tau0, 0), ('tau1', o.tau1, 1)):
        g = np.asarray(got, dtype='f8').ravel()
        w = exp.taus[:m, col]
        if g.shape != w.shape or not np.array_equal(g, w):
            out.append(('tau-differ', '%s %s, full file %s' % (
                nm, g.tolist(), w.tolist()), ''))
    return out


def tag(spec, o):
    mv = sorted(set(a.shape[0] for a in o.vars.values() if a.ndim == 4))
    if len(o.vars) < len(spec['tracers']):
        return 'fewer-tracers'
    if len(mv) > 1:
        return 'ragged'
    return ''
