"""FileSpec: JSON-able description of a generic netCDF-like file, its
Hypothesis strategy, the builder that turns it into a library object, the
pure-numpy model that oracles compute on, snapshots and comparators.
(DESIGN 6.1)"""
import base64
import collections

import numpy as np
from hypothesis import strategies as st

OD = collections.OrderedDict

DT = {'f4': np.float32, 'f8': np.float64, 'i2': np.int16, 'i4': np.int32,
      'i8': np.int64, 'u1': np.uint8, 'i1': np.int8, 'S1': 'S1',
      'u2': np.uint16, 'u4': np.uint32, 'u8': np.uint64}

NEUTRAL_DIMS = ['a', 'b', 'c', 'd', 'e']
KNOWN_DIMS = ['time', 'x', 'y', 'z', 'lev', 'nv', 't', 'lat', 'lon']
VAR_ATTRS = ['units', 'long_name', 'var_desc', 'note', 'scale_q',
             'valid_rng', 'comment', 'n_count', 'x_factor']
GLOBAL_ATTRS = ['title', 'history', 'source', 'n_items', 'x_scale',
                'institution', 'ranges', 'Conventions_q']


# ---------------------------------------------------------------- encoding
def enc_raw(a):
    a = np.ascontiguousarray(a)
    return base64.b64encode(a.tobytes()).decode()


def dec_raw(s, dtype, shape):
    return np.frombuffer(base64.b64decode(s), dtype=dtype).reshape(
        shape).copy()


def enc_attr(v):
    if isinstance(v, str):
        return v
    if isinstance(v, (bool, np.bool_)):
        return {'np': 'i4', 'v': int(v)}
    if isinstance(v, np.ndarray):
        return {'nd': dtcode(v.dtype), 'v': [x.item() for x in v.ravel()]}
    if isinstance(v, np.generic):
        return {'np': dtcode(v.dtype), 'v': v.item()}
    if isinstance(v, (int, float)):
        return {'py': type(v).__name__, 'v': v}
    raise TypeError(type(v))


def dec_attr(e):
    if isinstance(e, str):
        return e
    if 'nd' in e:
        return np.array(e['v'], dtype=DT[e['nd']])
    if 'np' in e:
        return DT[e['np']](e['v'])
    if 'py' in e:
        return int(e['v']) if e['py'] == 'int' else float(e['v'])
    raise ValueError(e)


def dtcode(dt):
    dt = np.dtype(dt)
    if dt.kind == 'S':
        return 'S1'
    return '%s%d' % (dt.kind, dt.itemsize)


# ---------------------------------------------------------------- strategies
def _elements(code, opts):
    vr = opts.get('vrange', 1000)
    if code in ('f4', 'f8'):
        width = 32 if code == 'f4' else 64
        base = st.floats(min_value=-float(vr), max_value=float(vr),
                         allow_nan=False, allow_infinity=False, width=width)
        if opts.get('special_floats'):
            extra = [st.sampled_from([0.0, -0.0, 1.0, -1.0])]
            if opts.get('nonfinite'):
                extra.append(st.sampled_from([float('inf'), float('-inf'),
                                              float('nan')]))
            return st.one_of(base, base, base, *extra)
        return base
    if code == 'S1':
        return st.sampled_from(list('abcxyz '))
    info = np.iinfo(DT[code])
    lo = max(info.min, -vr)
    hi = min(info.max, vr)
    return st.integers(lo, hi)


@st.composite
def attr_values(draw, kinds=('str', 'int', 'float', 'npint', 'npfloat',
                             'array')):
    k = draw(st.sampled_from(list(kinds)))
    if k == 'str':
        return draw(st.text(
            alphabet='abcdefghijklmnopqrstuvwxyzABCXYZ0123456789 _-./:()',
            min_size=1, max_size=12))
    if k == 'int':
        return {'py': 'int', 'v': draw(st.integers(-10**6, 10**6))}
    if k == 'float':
        return {'py': 'float', 'v': draw(st.floats(-1e6, 1e6, allow_nan=False,
                                                   width=64))}
    if k == 'npint':
        return {'np': 'i4', 'v': draw(st.integers(-10**6, 10**6))}
    if k == 'npfloat':
        return {'np': 'f4', 'v': draw(st.floats(-1e6, 1e6, allow_nan=False,
                                                width=32))}
    code = draw(st.sampled_from(['i4', 'f4', 'f8']))
    n = draw(st.integers(2, 4))
    if code == 'i4':
        vals = draw(st.lists(st.integers(-1000, 1000), min_size=n,
                             max_size=n))
    else:
        vals = draw(st.lists(st.floats(-1000, 1000, allow_nan=False,
                                       width=32 if code == 'f4' else 64),
                             min_size=n, max_size=n))
    return {'nd': code, 'v': vals}


@st.composite
def filespecs(draw, **opts):
    """opts: dtypes, masked, char, coordvars, bounds, max_dims, max_len,
    min_len, max_vars, max_rank, unlimited, attrs, special_floats, nonfinite,
    vrange, min_vars, known_dims, need_dim_len2 """
    dtypes = list(opts.get('dtypes', ('f4', 'f8', 'i2', 'i4')))
    max_dims = opts.get('max_dims', 5)
    max_len = opts.get('max_len', 5)
    min_len = opts.get('min_len', 1)
    max_vars = opts.get('max_vars', 5)
    max_rank = opts.get('max_rank', 4)
    pool = list(NEUTRAL_DIMS)
    if opts.get('known_dims', True):
        pool = pool + KNOWN_DIMS
    nd = draw(st.integers(opts.get('min_dims', 1), max_dims))
    names = draw(st.lists(st.sampled_from(pool), min_size=nd, max_size=nd,
                          unique=True))
    lens = [draw(st.integers(min_len, max_len)) for _ in names]
    unl = [False] * nd
    if opts.get('unlimited', True) and draw(st.booleans()):
        if opts.get('unlimited_first', False):
            unl[0] = True
        else:
            unl[draw(st.integers(0, nd - 1))] = True
    dims = [[n, l, u] for n, l, u in zip(names, lens, unl)]
    dlen = dict(zip(names, lens))
    variables = []
    used = set()
    # coordinate variables: 1-D, named like the dimension, strictly monotonic
    if opts.get('coordvars', True):
        for n in names:
            if draw(st.integers(0, 3)) == 0:
                code = draw(st.sampled_from(['f8', 'f4', 'i4']))
                start = draw(st.integers(-20, 20))
                steps = draw(st.lists(st.integers(1, 4), min_size=dlen[n],
                                      max_size=dlen[n]))
                sign = draw(st.sampled_from([1, 1, -1]))
                vals = list(start + sign * np.cumsum(steps))
                vals = [int(v) for v in vals]
                variables.append(dict(
                    name=n, dims=[n], dtype=code, data=vals, mask=None,
                    fill=None, attrs=draw(_attrs(opts, VAR_ATTRS, 2)),
                    coord=True))
                used.add(n)
    nv = draw(st.integers(opts.get('min_vars', 1), max_vars))
    for i in range(nv):
        rank = draw(st.integers(opts.get('min_rank', 0), min(max_rank, nd)))
        vd = draw(st.permutations(names))[:rank] if rank else []
        code = draw(st.sampled_from(dtypes))
        shape = [dlen[d] for d in vd]
        size = int(np.prod(shape)) if shape else 1
        data = draw(st.lists(_elements(code, opts), min_size=size,
                             max_size=size))
        mask = None
        fill = None
        if code != 'S1' and opts.get('masked', True) and \
                draw(st.integers(0, 2)) == 0:
            mask = draw(st.lists(st.booleans(), min_size=size, max_size=size))
            mask = [int(m) for m in mask]
            fill = draw(st.sampled_from(opts.get(
                'fills', [-999, -9999, -1, 99])))
        name = 'v%d' % i
        variables.append(dict(name=name, dims=list(vd), dtype=code,
                              data=data, mask=mask, fill=fill,
                              attrs=draw(_attrs(opts, VAR_ATTRS, 3))))
    if opts.get('char', False) and draw(st.booleans()):
        rank = draw(st.integers(1, min(2, nd)))
        vd = draw(st.permutations(names))[:rank]
        size = int(np.prod([dlen[d] for d in vd]))
        data = draw(st.lists(_elements('S1', opts), min_size=size,
                             max_size=size))
        variables.append(dict(name='label', dims=list(vd), dtype='S1',
                              data=data, mask=None, fill=None,
                              attrs=draw(_attrs(opts, VAR_ATTRS, 1))))
    order = draw(st.permutations(list(range(len(variables)))))
    variables = [variables[i] for i in order]
    gattrs = draw(_attrs(opts, GLOBAL_ATTRS, 4))
    return dict(dims=dims, vars=variables, gattrs=gattrs)


@st.composite
def _attrs(draw, opts, pool, maxn):
    if not opts.get('attrs', True):
        return {}
    n = draw(st.integers(0, maxn))
    keys = draw(st.lists(st.sampled_from(pool), min_size=n, max_size=n,
                         unique=True))
    kinds = opts.get('attr_kinds', ('str', 'int', 'float', 'npint',
                                    'npfloat', 'array'))
    out = {}
    for k in keys:
        out[k] = draw(attr_values(kinds=kinds))
    return out


# ---------------------------------------------------------------- model
class MVar(object):
    def __init__(self, name, dims, data, attrs, fill=None):
        self.name = name
        self.dims = tuple(dims)
        self.data = data        # ndarray or MaskedArray
        self.attrs = attrs      # OD name -> python/numpy value
        self.fill = fill

    @property
    def masked(self):
        return isinstance(self.data, np.ma.MaskedArray)

    def copy(self):
        return MVar(self.name, self.dims, self.data.copy(), OD(self.attrs),
                    self.fill)


class MFile(object):
    def __init__(self):
        self.dims = OD()    # name -> [len, unlimited]
        self.vars = OD()
        self.gattrs = OD()

    def copy(self):
        m = MFile()
        m.dims = OD((k, list(v)) for k, v in self.dims.items())
        m.vars = OD((k, v.copy()) for k, v in self.vars.items())
        m.gattrs = OD(self.gattrs)
        return m


def var_array(v, dlen):
    """decode the data of a spec variable -> ndarray or MaskedArray"""
    shape = tuple(dlen[d] for d in v['dims'])
    code = v['dtype']
    if 'gen' in v:
        # large deterministic ramp (values 0..gen-1 repeating), for cases
        # whose data would not fit a JSON spec
        size = int(np.prod(shape)) if shape else 1
        arr = (np.arange(size) % int(v['gen'])).astype(DT[code]).reshape(
            shape)
    elif 'raw' in v:
        arr = dec_raw(v['raw'], DT[code], shape)
    elif code.startswith('S'):
        arr = np.array([c.encode() for c in v['data']], dtype=code).reshape(
            shape)
    else:
        arr = np.array(v['data'], dtype=DT[code]).reshape(shape)
    if v.get('genmask'):
        # large deterministic mask: every genmask-th cell
        size = int(np.prod(shape)) if shape else 1
        mask = (np.arange(size) % int(v['genmask']) == 0).reshape(shape)
        arr = np.ma.MaskedArray(arr, mask=mask)
    elif v.get('mask') is not None or v.get('fill') is not None:
        mask = np.zeros(shape, dtype=bool) if v.get('mask') is None else \
            np.array(v['mask'], dtype=bool).reshape(shape)
        arr = np.ma.MaskedArray(arr, mask=mask)
        if v.get('fill') is not None:
            arr.fill_value = v['fill']
    return arr


def model_of(spec):
    m = MFile()
    for n, l, u in spec['dims']:
        m.dims[n] = [int(l), bool(u)]
    dlen = {k: v[0] for k, v in m.dims.items()}
    for v in spec['vars']:
        attrs = OD((k, dec_attr(e)) for k, e in v.get('attrs', {}).items())
        m.vars[v['name']] = MVar(v['name'], v['dims'], var_array(v, dlen),
                                 attrs, v.get('fill'))
    m.gattrs = OD((k, dec_attr(e)) for k, e in spec.get('gattrs', {}).items())
    return m


CHAR = {'f4': 'f', 'f8': 'd', 'i2': 'h', 'i4': 'i', 'i8': 'q', 'u1': 'B',
        'i1': 'b', 'S1': 'c', 'u2': 'H', 'u4': 'I', 'u8': 'Q'}


def _char(code):
    # fixed-width strings wider than one character keep their numpy dtype
    return CHAR.get(code, code)


def build_file(spec, cls=None):
    """library object from a spec, through createDimension/createVariable"""
    if cls is None:
        from PseudoNetCDF import PseudoNetCDFFile as cls
    m = model_of(spec)
    f = cls()
    for n, (l, u) in m.dims.items():
        d = f.createDimension(n, l)
        d.setunlimited(u)
    for sv in spec['vars']:
        mv = m.vars[sv['name']]
        code = _char(sv['dtype'])
        if mv.masked:
            var = f.createVariable(mv.name, code, mv.dims,
                                   fill_value=sv.get('fill'))
            var[...] = mv.data
        else:
            var = f.createVariable(mv.name, code, mv.dims)
            var[...] = mv.data
        for k, val in mv.attrs.items():
            setattr(var, k, val)
    for k, val in m.gattrs.items():
        setattr(f, k, val)
    coords = [sv['name'] for sv in spec['vars'] if sv.get('coord')]
    if coords and spec.get('setcoords', False):
        f.setCoords(coords)
    return f


# ---------------------------------------------------------------- snapshots
def get_data(v):
    """(data ndarray, mask bool ndarray or None) of a library variable"""
    a = v[...]
    if a is np.ma.masked:
        # 0-d masked element: numpy hands out the float64 singleton; keep
        # the variable's own dtype
        return np.zeros((), dtype=v.dtype), np.ones((), dtype=bool)
    if isinstance(a, np.ma.MaskedArray):
        return np.asarray(np.ma.getdata(a)), np.ma.getmaskarray(a).copy()
    return np.asarray(a), None


def norm_attr(v):
    """canonical comparable form of an attribute value"""
    if isinstance(v, bytes):
        return ('str', v.decode('latin1'))
    if isinstance(v, str):
        return ('str', v)
    a = np.asarray(v)
    if a.dtype.kind in 'US':
        return ('strarr', tuple(str(x) for x in a.ravel()))
    kind = 'int' if a.dtype.kind in 'iub' else 'float'
    return (kind, a.shape if a.ndim > 0 and a.size != 1 else (),
            a.astype('f8').tobytes() if kind == 'float'
            else tuple(int(x) for x in a.ravel()))


def snapshot(f, skip_attrs=()):
    """deep, comparable copy of everything observable about a file"""
    dims = []
    for k, d in f.dimensions.items():
        dims.append((k, len(d), bool(d.isunlimited())))
    gat = OD()
    for k in f.ncattrs():
        if k in skip_attrs:
            continue
        gat[k] = norm_attr(getattr(f, k))
    vs = OD()
    for k in f.variables.keys():
        v = f.variables[k]
        data, mask = get_data(v)
        at = OD()
        for a in v.ncattrs():
            at[a] = norm_attr(getattr(v, a))
        fill = None
        if isinstance(v, np.ma.MaskedArray):
            try:
                fill = np.asarray(v.fill_value).item()
            except Exception:
                fill = repr(v.fill_value)
        vs[k] = (tuple(v.dimensions), str(data.dtype), data.shape,
                 data.tobytes() if mask is None else
                 np.where(mask, np.zeros((), data.dtype), data).tobytes(),
                 None if mask is None else mask.tobytes(), fill, at)
    return dict(dims=dims, gattrs=gat, vars=vs)


def diff_snapshots(a, b):
    """first difference between two snapshots, or None"""
    if a['dims'] != b['dims']:
        return 'dimensions %r -> %r' % (a['dims'], b['dims'])
    if list(a['gattrs'].items()) != list(b['gattrs'].items()):
        return 'global attributes %r -> %r' % (dict(a['gattrs']),
                                               dict(b['gattrs']))
    if list(a['vars'].keys()) != list(b['vars'].keys()):
        return 'variable names %r -> %r' % (list(a['vars']), list(b['vars']))
    names = ['dimensions', 'dtype', 'shape', 'data', 'mask', 'fill_value',
             'attributes']
    for k in a['vars']:
        for i, (x, y) in enumerate(zip(a['vars'][k], b['vars'][k])):
            if names[i] == 'attributes':
                if list(x.items()) != list(y.items()):
                    return 'variable %s attributes %r -> %r' % (
                        k, dict(x), dict(y))
            elif names[i] == 'fill_value':
                if not (x == y or (x != x and y != y)):
                    return 'variable %s fill_value %r -> %r' % (k, x, y)
            elif x != y:
                if names[i] in ('data', 'mask'):
                    return 'variable %s %s changed' % (k, names[i])
                return 'variable %s %s %r -> %r' % (k, names[i], x, y)
    return None


# ---------------------------------------------------------------- comparators
def cmp_array(lib, exp, what, bits=True, rtol=0.0, atol=0.0,
              check_dtype=True, check_mask=True):
    """lib: library variable / array; exp: ndarray or MaskedArray from the
    model.  Returns None or a message."""
    if hasattr(lib, 'dimensions') or not isinstance(lib, np.ndarray):
        la = lib[...]
        if la is np.ma.masked:
            la = np.ma.MaskedArray(np.zeros((), dtype=lib.dtype), mask=True)
    else:
        la = lib
    ld = np.asarray(np.ma.getdata(la))
    lm = np.ma.getmaskarray(la) if isinstance(la, np.ma.MaskedArray) \
        else np.zeros(ld.shape, bool)
    ed = np.asarray(np.ma.getdata(exp))
    em = np.ma.getmaskarray(exp) if isinstance(exp, np.ma.MaskedArray) \
        else np.zeros(ed.shape, bool)
    if ld.shape != ed.shape:
        return '%s: shape %r, expected %r' % (what, ld.shape, ed.shape)
    if check_dtype and ld.dtype != ed.dtype:
        return '%s: dtype %s, expected %s' % (what, ld.dtype, ed.dtype)
    if check_mask and not np.array_equal(lm, em):
        if lm.size > 64:
            return '%s: mask differs (%d cells masked, expected %d; %d ' \
                'cells disagree)' % (what, int(lm.sum()), int(em.sum()),
                                     int((lm != em).sum()))
        return '%s: mask differs (got %s, expected %s)' % (
            what, lm.astype(int).tolist(), em.astype(int).tolist())
    keep = ~(lm | em)
    if not keep.any():
        return None
    lv = ld[keep]
    ev = ed[keep]
    if bits and ld.dtype == ed.dtype:
        if lv.tobytes() != ev.tobytes():
            return '%s: values differ (got %s, expected %s)' % (
                what, _short(lv), _short(ev))
        return None
    if ld.dtype.kind in 'SU' or ed.dtype.kind in 'SU':
        if not np.array_equal(lv, ev):
            return '%s: values differ (got %s, expected %s)' % (
                what, _short(lv), _short(ev))
        return None
    with np.errstate(all='ignore'):
        lvf = lv.astype('f8')
        evf = ev.astype('f8')
        ok = np.isclose(lvf, evf, rtol=rtol, atol=atol, equal_nan=True)
    if not ok.all():
        return '%s: values differ beyond rtol=%g atol=%g (got %s, ' \
            'expected %s)' % (what, rtol, atol, _short(lv), _short(ev))
    return None


def _short(a):
    s = np.array2string(np.asarray(a).ravel()[:12], separator=',')
    return s


def cmp_attrs(obj, exp, what, skip=()):
    """obj: library file/variable; exp: OD name->value.  Names, order-free,
    values after normalisation."""
    got = OD()
    for k in obj.ncattrs():
        if k in skip:
            continue
        try:
            got[k] = norm_attr(getattr(obj, k))
        except Exception as e:
            return '%s: attribute %s listed but not retrievable (%s)' % (
                what, k, e)
    want = OD((k, norm_attr(v)) for k, v in exp.items() if k not in skip)
    if set(got) != set(want):
        return '%s: attribute names %r, expected %r' % (
            what, sorted(got), sorted(want))
    for k in want:
        if not attr_equal(got[k], want[k]):
            return '%s: attribute %s = %r, expected %r' % (
                what, k, got[k], want[k])
    return None


def attr_equal(a, b):
    if a[0] != b[0]:
        # int vs float holding the same value is a change of kind
        return False
    return a == b


def wellformed(f, what='file'):
    """C01 (a),(b),(d): returns list of messages"""
    out = []
    try:
        dims = {k: len(d) for k, d in f.dimensions.items()}
    except Exception as e:
        return ['%s: dimensions not readable: %s' % (what, e)]
    for k in f.variables.keys():
        try:
            v = f.variables[k]
        except Exception as e:
            out.append('%s: variable %s listed but not retrievable: %s' % (
                what, k, e))
            continue
        vd = getattr(v, 'dimensions', None)
        if not isinstance(vd, tuple):
            out.append('%s: variable %s has dimensions %r' % (what, k, vd))
            continue
        missing = [d for d in vd if d not in dims]
        if missing:
            out.append('%s: variable %s uses dimensions %r that are not in '
                       'the file %r' % (what, k, missing, list(dims)))
            continue
        exp = tuple(dims[d] for d in vd)
        if tuple(v.shape) != exp:
            out.append('%s: variable %s%r has shape %r but its dimensions '
                       'have lengths %r' % (what, k, vd, tuple(v.shape), exp))
        for a in v.ncattrs():
            try:
                getattr(v, a)
            except Exception as e:
                out.append('%s: variable %s attribute %s listed but not '
                           'retrievable: %s' % (what, k, a, e))
    for a in f.ncattrs():
        try:
            getattr(f, a)
        except Exception as e:
            out.append('%s: global attribute %s listed but not retrievable:'
                       ' %s' % (what, a, e))
    return out
