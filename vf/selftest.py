"""setup-time self test: reference codecs vs repository samples (filled in as
codecs are added)"""
import sys


def main():
    try:
        from .ref import selfcheck
    except ImportError:
        print('selftest: no reference codecs yet')
        return 0
    return selfcheck.main()


if __name__ == '__main__':
    sys.exit(main())
