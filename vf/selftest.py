"""setup-time self test of every independent reference model: each must
reproduce the repository's sample files / the literal values asserted by the
repository's own tests (or, where the repository has no sample, hand-computed
anchors) before a check that relies on it is trusted."""
import sys


def main():
    rc = 0
    from .ref import selfcheck
    rc |= 1 if selfcheck.main() else 0
    from .ref import bpch_ref, icartt_ref, arl_ref, caltime
    for name, mod in (('bpch_ref', bpch_ref), ('icartt_ref', icartt_ref),
                      ('arl_ref', arl_ref)):
        errs = mod.selfcheck()
        print('selfcheck %s: %d failure(s)' % (name, len(errs)))
        for e in errs[:10]:
            print('   ', e)
        if errs:
            rc = 1
    res = caltime.selftest()
    errs = res if isinstance(res, (list, tuple)) else ([] if res in (None, True, 0) else [res])
    print('selfcheck caltime: %d failure(s)' % len(errs))
    if errs:
        print('   ', errs[:10])
        rc = 1
    return rc


if __name__ == '__main__':
    sys.exit(main())
