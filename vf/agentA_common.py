"""Helpers shared by C03 / C04 / C06 (agentA): re-encoding numpy arrays into
FileSpec variables, slicing a FileSpec with numpy, redrawing the data of a
schema, dimension comparison.  No PseudoNetCDF import at module level."""
import copy

import numpy as np
from hypothesis import strategies as st

from . import spec as S


def dlen_of(fs):
    return {d[0]: int(d[1]) for d in fs['dims']}


def encode_var(v, arr):
    """return a copy of spec variable `v` holding `arr` (ndarray or
    MaskedArray of the variable's dtype); data as python lists so that the
    replay stays readable"""
    out = {k: copy.deepcopy(x) for k, x in v.items()
           if k not in ('data', 'mask', 'raw')}
    data = np.asarray(np.ma.getdata(arr))
    if v['dtype'] == 'S1':
        out['data'] = [x.decode('latin1') for x in data.ravel().tolist()]
    else:
        out['data'] = data.ravel().tolist()
    if isinstance(arr, np.ma.MaskedArray):
        out['mask'] = [int(x) for x in np.ma.getmaskarray(arr).ravel()]
    else:
        out['mask'] = None
    return out


def slice_spec(fs, dim, a, b):
    """FileSpec of the consecutive piece [a:b) of `fs` along `dim`, computed
    with plain numpy slicing on the decoded arrays (independent of the
    library)"""
    dlen = dlen_of(fs)
    out = dict(dims=[[n, (b - a) if n == dim else l, u]
                     for n, l, u in fs['dims']],
               vars=[], gattrs=copy.deepcopy(fs.get('gattrs', {})))
    for v in fs['vars']:
        arr = S.var_array(v, dlen)
        if dim in v['dims']:
            idx = [slice(None)] * arr.ndim
            idx[list(v['dims']).index(dim)] = slice(a, b)
            arr = arr[tuple(idx)]
        out['vars'].append(encode_var(v, arr))
    for k in fs:
        if k not in out:
            out[k] = copy.deepcopy(fs[k])
    return out


@st.composite
def redraw(draw, fs, opts, newlen=None, share=0.0, int_small=False,
           vary_coords=False, retype=None, edge=None):
    """a FileSpec with the schema of `fs` (names, dims, dtypes, masked-ness,
    attributes) and independently drawn data and masks.  newlen: {dim: len}
    overrides.  share: probability that a cell repeats the value of the
    corresponding cell of `fs` (only where shapes agree).  int_small: integer
    variables hold values 0..3 (exponents).  vary_coords: coordinate
    variables get independent values too (default: they are repeated).
    retype: {variable: dtype code} stores the variable with another dtype;
    edge: {dtype code: values} mixed into the data of retyped variables."""
    newlen = newlen or {}
    out = dict(dims=[[n, int(newlen.get(n, l)), u] for n, l, u in fs['dims']],
               vars=[], gattrs=copy.deepcopy(fs.get('gattrs', {})))
    dlen = dlen_of(out)
    old = dlen_of(fs)
    for v in fs['vars']:
        shape = [dlen[d] for d in v['dims']]
        size = int(np.prod(shape)) if shape else 1
        code = (retype or {}).get(v['name'], v['dtype'])
        nv = {k: copy.deepcopy(x) for k, x in v.items()
              if k not in ('data', 'mask', 'raw')}
        nv['dtype'] = code
        same_shape = all(dlen[d] == old[d] for d in v['dims'])
        if v.get('coord') and same_shape and not vary_coords:
            nv['data'] = list(v['data'])
            nv['mask'] = None
            out['vars'].append(nv)
            continue
        if int_small and code[0] in 'iu':
            el = st.integers(0, 3)
        else:
            el = S._elements(code, opts)
        data = draw(st.lists(el, min_size=size, max_size=size))
        if share > 0 and same_shape and code != 'S1':
            keep = draw(st.lists(st.integers(0, 99), min_size=size,
                                 max_size=size))
            data = [o if k < share * 100 else n
                    for o, n, k in zip(v['data'], data, keep)]
        if edge and v['name'] in (retype or {}) and edge.get(code):
            pick = draw(st.lists(st.integers(0, 2), min_size=size,
                                 max_size=size))
            ev = draw(st.lists(st.sampled_from(edge[code]), min_size=size,
                               max_size=size))
            data = [e if p_ == 0 else x for x, e, p_ in zip(data, ev, pick)]
        nv['data'] = data
        if v.get('mask') is not None:
            nv['mask'] = [int(m) for m in draw(st.lists(
                st.booleans(), min_size=size, max_size=size))]
        else:
            nv['mask'] = None
        out['vars'].append(nv)
    for k in fs:
        if k not in out:
            out[k] = copy.deepcopy(fs[k])
    return out


def cmp_dims(f, want, what='result'):
    """want: name -> (length, unlimited).  Order is not judged.  Returns list
    of messages."""
    out = []
    got = {}
    for k, d in f.dimensions.items():
        got[k] = (len(d), bool(d.isunlimited()))
    if set(got) != set(want):
        out.append('%s: dimensions %r, expected %r' % (
            what, sorted(got), sorted(want)))
        return out
    for k in sorted(want):
        if got[k][0] != want[k][0]:
            out.append('%s: dimension %s has length %d, expected %d' % (
                what, k, got[k][0], want[k][0]))
        elif got[k][1] != bool(want[k][1]):
            out.append('%s: dimension %s unlimited=%s, expected %s' % (
                what, k, got[k][1], bool(want[k][1])))
    return out


def plain(a):
    """MaskedArray / ndarray subclass -> base-class copy"""
    if isinstance(a, np.ma.MaskedArray):
        return np.ma.MaskedArray(np.array(np.ma.getdata(a), copy=True,
                                          subok=False),
                                 mask=np.ma.getmaskarray(a).copy())
    return np.array(a, copy=True, subok=False)


def disk_ok(fs):
    """can the FileSpec be written as classic-model netCDF and read back
    unchanged: an unlimited dimension is used and leads every variable that
    has it; no unmasked-or-masked data cell equals the declared fill (such a
    cell reads back masked); no character variables needed here"""
    for n, l, u in fs['dims']:
        if u:
            if not any(n in v['dims'] for v in fs['vars']):
                return False
            for v in fs['vars']:
                if n in v['dims'] and v['dims'][0] != n:
                    return False
    for v in fs['vars']:
        if v.get('fill') is not None and v['dtype'] != 'S1':
            if any(x == v['fill'] for x in v['data']):
                return False
    return True


def reopen(f):
    """save an in-memory file as NETCDF4_CLASSIC in the worker's scratch
    directory and reopen it with the netcdf class (variables are then
    netCDF4.Variable objects).  R8b: the writer is closed, dropped and
    collected before the reader opens.  Caller: close_disk(g) when done."""
    import gc
    from . import libstate
    from PseudoNetCDF import pncopen
    path = libstate.scratch_path('.nc')
    o = f.save(path, format='NETCDF4_CLASSIC', verbose=0)
    o.close()
    del o
    gc.collect()
    return pncopen(path, format='netcdf'), path


def close_disk(g, path):
    import gc
    import os
    try:
        g.close()
    except Exception:
        pass
    del g
    gc.collect()
    try:
        os.remove(path)
    except OSError:
        pass
