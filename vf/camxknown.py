"""Root-cause predicates shared by the CAMx checks (C08, C09, C13, C14).

A known finding is matched only when BOTH hold: the input class that
triggers the root cause (computed from the case spec) and the symptom the
root cause produces (a short code the comparison routine appends to the
failure's `klass`, or the failing clause + library frame).  Everything else
stays a VIOLATION."""
import datetime

from . import camxspec as C


def _ylen(y):
    return C._ylen(y)


# ------------------------------------------------------------ input classes
def begins(spec):
    return C.instants(spec)[:-1]


def ends(spec):
    return C.instants(spec)[1:]


def straddles_2000(ts):
    """the reader converts these two-digit-year dates together: some are
    19xx and some 20xx"""
    ys = [t.year for t in ts]
    return bool(ys) and min(ys) < 2000 <= max(ys)


def a_step_ends_next_year(spec):
    ts = C.instants(spec)
    return any(a.year != b.year for a, b in zip(ts[:-1], ts[1:]))


def first_step_wraps_midnight(spec):
    ts = C.instants(spec)
    return ts[1].hour < ts[0].hour or ts[1].date() != ts[0].date()


def single_step(spec):
    return spec.get('nsteps') == 1


def one_cell(spec):
    return spec['nx'] * spec['ny'] == 1


def crosses_midnight(spec, with_end):
    ts = C.instants(spec)
    if not with_end:
        ts = ts[:-1]
    return ts[0].date() != ts[-1].date()


def crosses_year(spec, with_end):
    ts = C.instants(spec)
    if not with_end:
        ts = ts[:-1]
    return ts[0].year != ts[-1].year


# ----------------------------------------------------------- symptom codes
def tflag_symptom(got, want, begin=None):
    """got, want: (nt, 2) int arrays (date YYYYJJJ, time HHMMSS).
    '+100y'      : times equal, dates equal except 19xx dates read as 20xx
    'etime=btime': dates equal, times equal the begin times instead
    ''           : anything else"""
    import numpy as np
    got = np.asarray(got)
    want = np.asarray(want)
    if got.shape != want.shape or got.ndim != 2:
        return ''
    dd = got[:, 0].astype('i8') - want[:, 0]
    same_t = (got[:, 1] == want[:, 1]).all()
    if same_t and set(dd.tolist()) <= {0, 100000} and (dd != 0).any() and \
            (want[dd != 0, 0] < 2000000).all():
        return '+100y'
    if begin is not None and (dd == 0).all() and not same_t and \
            (got[:, 1] == np.asarray(begin)[:, 1]).all():
        return 'etime=btime'
    if begin is not None and not same_t and \
            (got[:, 1] == np.asarray(begin)[:, 1]).all() and \
            set(dd.tolist()) <= {0, 100000} and \
            (want[dd != 0, 0] < 2000000).all():
        return 'etime=btime,+100y'
    return ''


def end_symptom(got, want):
    """got, want: lists of (year, jday, hour).  'jday+1' when every
    difference is an end instant Jan 1 00:00 of year Y+1 written as day
    ylen(Y)+1 of year Y"""
    if len(got) != len(want):
        return ''
    hit = False
    for g, w in zip(got, want):
        if g == w:
            continue
        if w[1] == 1 and g[0] == w[0] - 1 and g[1] == _ylen(g[0]) + 1 and \
                g[2] == w[2]:
            hit = True
            continue
        # two-digit years: 1999 -> "99366" is still 1999; 2069 cannot occur
        return ''
    return 'jday+1' if hit else ''
