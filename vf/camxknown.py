"""Root-cause predicates shared by the CAMx checks (C08, C09, C13, C14).

A known finding is matched only when BOTH hold: the input class that
triggers the root cause (computed from the case spec) and the symptom the
root cause produces (a short code the comparison routine appends to the
failure's `klass`, or the failing clause + library frame).  Everything else
stays a VIOLATION."""

from . import camxspec as C


def _ylen(y):
    return C._ylen(y)


# ------------------------------------------------------------ input classes
def begins(spec):
    return C.instants(spec)[:-1]


def ends(spec):
    return C.instants(spec)[1:]


def straddles_2000(ts):
    """the reader converts these two-digit-year dates together: some are
    19xx and some 20xx"""
    ys = [t.year for t in ts]
    return bool(ys) and min(ys) < 2000 <= max(ys)


def a_step_ends_next_year(spec):
    ts = C.instants(spec)
    return any(a.year != b.year for a, b in zip(ts[:-1], ts[1:]))


def first_step_wraps_midnight(spec):
    ts = C.instants(spec)
    return ts[1].hour < ts[0].hour or ts[1].date() != ts[0].date()


def uamiv_read_time_class(spec):
    """input classes in which the record-based uamiv reader's time
    arithmetic (hour-valued times, eod=2400 defaults) is known to be wrong:
      * the begin times of the steps lie on more than one date
        (__timerecords subtracts with eod=2400), or
      * the first step ends on a later date than it begins (time_step is
        computed with eod=2400), or
      * the file ends on a later date than it starts and the step is an even
        number of hours (the eod constant is picked by time_step % 2), or
      * the file ends in a later year than it starts (YYJJJ dates are
        subtracted as integers).
    A file that only ENDS at midnight (all begins on one date, odd step) is
    read correctly and is NOT in the class."""
    ts = C.instants(spec)
    b = ts[:-1]
    if b[0].date() != b[-1].date():
        return True
    if ts[1].date() != ts[0].date():
        return True
    if ts[-1].year != ts[0].year:
        return True     # YYJJJ dates are subtracted as integers
    return ts[-1].date() != ts[0].date() and spec['step_h'] % 2 == 0


def single_step(spec):
    return spec.get('nsteps') == 1


def one_cell(spec):
    """one cell per layer, in the file as generated or after the ROW/COL
    window of spec['slice'] (C08/C09 cut the re-read file before writing)"""
    nx, ny = spec['nx'], spec['ny']
    sl = spec.get('slice') or {}
    if 'COL' in sl:
        nx = sl['COL'][1] - sl['COL'][0]
    if 'ROW' in sl:
        ny = sl['ROW'][1] - sl['ROW'][0]
    return nx * ny == 1


def crosses_midnight(spec, with_end):
    ts = C.instants(spec)
    if not with_end:
        ts = ts[:-1]
    return ts[0].date() != ts[-1].date()


def crosses_year(spec, with_end):
    ts = C.instants(spec)
    if not with_end:
        ts = ts[:-1]
    return ts[0].year != ts[-1].year


# ----------------------------------------------------------- symptom codes
def _jday1(date):
    """(Y+1)001 -> Y(ylen+1): the end date the writers produce at a year end"""
    y, j = divmod(int(date), 1000)
    if j == 1:
        return (y - 1) * 1000 + _ylen(y - 1) + 1
    return None


def row_codes(got, want, begin=None):
    """got, want: (nt, 2) int arrays (YYYYJJJ, HHMMSS); begin: the begin
    flags when `want` are end flags.  Every differing row is explained by the
    smallest combination of the known transformations
        'jday+1'      (Y+1)001 written as day ylen+1 of year Y
        '+100y'       a 19xx date presented as 20xx
        'etime=btime' the time of day is the begin time
    or is 'other'.  Returns the sorted list of codes over all rows ([] when
    equal, ['shape'] when the shapes differ)."""
    import itertools
    import numpy as np
    got = np.asarray(got)
    want = np.asarray(want)
    if got.shape != want.shape or got.ndim != 2 or got.shape[1] != 2:
        return ['shape']
    codes = set()
    names = ['jday+1', '+100y', 'etime=btime']
    for i in range(got.shape[0]):
        g = (int(got[i, 0]), int(got[i, 1]))
        w = (int(want[i, 0]), int(want[i, 1]))
        if g == w:
            continue
        found = None
        for n in range(1, 4):
            for sub in itertools.combinations(names, n):
                d, t = w
                ok = True
                if 'jday+1' in sub:
                    d = _jday1(d)
                    ok = d is not None
                if ok and '+100y' in sub:
                    ok = d < 2000000
                    d += 100000
                if ok and 'etime=btime' in sub:
                    ok = begin is not None
                    if ok:
                        t = int(np.asarray(begin)[i, 1])
                if ok and (d, t) == g:
                    found = sub
                    break
            if found:
                break
        codes.update(found if found else ['other'])
    return sorted(codes)


def tflag_symptom(got, want, begin=None):
    return ','.join(row_codes(got, want, begin))


def time_cause(spec, klass, which):
    """primary known root cause of a time-flag failure whose klass ends with
    '/<codes>' (see row_codes), or None.  which: 'begin' | 'end'.  Every code
    must be accounted for by a root cause whose input class holds."""
    codes = klass.rsplit('/', 1)[-1].split(',')
    if not codes or codes == ['']:
        return None
    fmt = spec['fmt']
    need = []
    for c in codes:
        if c == '+100y':
            # 'end-rt': end flags after a writer round trip; the writers
            # derive the end date from the begin date unless f has ETFLAG
            if which == 'begin':
                ok = straddles_2000(begins(spec))
            elif which == 'end':
                ok = straddles_2000(ends(spec))
            else:
                ok = straddles_2000(begins(spec)) or \
                    straddles_2000(ends(spec))
            if not ok:
                return None
            need.append('century')
        elif c == 'jday+1':
            if which == 'begin' or \
                    fmt not in ('uamiv', 'lateral_boundary') \
                    or not a_step_ends_next_year(spec):
                return None
            need.append('enddate-yearend')
        elif c == 'etime=btime':
            if which == 'begin' or fmt != 'lateral_boundary':
                return None
            need.append('lateral-etflag-btime')
        else:
            return None
    for k in ('lateral-etflag-btime', 'enddate-yearend', 'century'):
        if k in need:
            return k
    return None


def end_symptom(got, want):
    """got, want: lists of (year, jday, hour).  'jday+1' when every
    difference is an end instant Jan 1 00:00 of year Y+1 written as day
    ylen(Y)+1 of year Y"""
    if len(got) != len(want):
        return ''
    hit = False
    for g, w in zip(got, want):
        if g == w:
            continue
        if w[1] == 1 and g[0] == w[0] - 1 and g[1] == _ylen(g[0]) + 1 and \
                g[2] == w[2]:
            hit = True
            continue
        return ''
    return 'jday+1' if hit else ''
