"""agentF: run the C18/C19/C20 mutants (mutants/C1[89]_*.patch, C20_*.patch).

For each patch: fresh scratch copy of /repo/src, patch -p1, run the check
with VF_REPO pointing at the copy, expect exit 1 + VIOLATION; the first
shrunk killing case is copied to replays/<ID>/corpus-<name>.json
(expect: pass).  Usage: python -m vf.agentF_mutants [name-substring ...]"""
import glob
import json
import os
import shutil
import subprocess
import sys

ROOT = os.path.dirname(os.path.dirname(os.path.abspath(__file__)))
SCRATCH = '/var/tmp/agentF-scratch'


def run(patch, shards='4'):
    name = os.path.basename(patch)[:-6]
    prop = name.split('_')[0]
    shutil.rmtree(SCRATCH, ignore_errors=True)
    os.makedirs(SCRATCH)
    shutil.copytree('/repo/src', os.path.join(SCRATCH, 'src'))
    subprocess.check_call('cd %s && patch -p1 -s < %s' % (SCRATCH, patch),
                          shell=True)
    found = os.path.join(ROOT, 'replays', prop, 'found')
    shutil.rmtree(found, ignore_errors=True)
    env = dict(os.environ, VF_REPO=os.path.join(SCRATCH, 'src'),
               VF_SHARDS=shards)
    p = subprocess.run([os.path.join(ROOT, 'check'), prop], env=env,
                       capture_output=True, text=True)
    viol = [ln for ln in p.stdout.split('\n') if ln.startswith('VIOLATION')]
    sigs = [ln.strip() for ln in p.stdout.split('\n')
            if ln.strip().startswith('signature:')]
    killed = p.returncode == 1 and bool(viol)
    corpus = None
    pinned = [ln.split('replay=')[1].strip() for ln in viol
              if 'replay=' in ln and '/found/' not in ln]
    if killed and pinned and not os.path.isdir(found):
        corpus = 'pinned:' + ','.join(os.path.basename(x) for x in pinned)
    if killed and os.path.isdir(found):
        files = sorted(glob.glob(os.path.join(found, '*.json')))
        if files:
            with open(files[0]) as fi:
                rec = json.load(fi)
            corpus = os.path.join(ROOT, 'replays', prop,
                                  'corpus-%s.json' % name[len(prop) + 1:])
            with open(corpus, 'w') as fo:
                json.dump(dict(spec=rec['spec'], expect='pass',
                               note='killed mutant %s (%s)' % (
                                   name, rec.get('sig'))), fo, indent=1)
    shutil.rmtree(found, ignore_errors=True)
    shutil.rmtree(SCRATCH, ignore_errors=True)
    return name, p.returncode, killed, sigs, corpus, p.stdout[-400:]


def main(argv):
    pats = sorted(glob.glob(os.path.join(ROOT, 'mutants', 'C18_*.patch')) +
                  glob.glob(os.path.join(ROOT, 'mutants', 'C19_*.patch')) +
                  glob.glob(os.path.join(ROOT, 'mutants', 'C20_*.patch')))
    if argv:
        pats = [p for p in pats if any(a in p for a in argv)]
    rc = 0
    for p in pats:
        name, code, killed, sigs, corpus, tail = run(p)
        print('%-28s exit=%d %s %s [%s]' % (
            name, code, 'KILLED' if killed else 'SURVIVED',
            '; '.join(sigs)[:300], corpus))
        if not killed:
            rc = 1
            print(tail)
        sys.stdout.flush()
    return rc




def verify_corpus():
    """fast re-check: every mutant is still killed by its pinned corpus
    case alone (./check <ID> --replay corpus-file against the mutated copy,
    expect exit 1) and the same file passes on the unchanged tree"""
    table = {
        'C18_bpch2_lookup_order': 'corpus-bpch2_lookup_order.json',
        'C18_dim_noreverse': 'corpus-dim_noreverse.json',
        'C18_drop_offset': 'corpus-drop_offset.json',
        'C18_skip_off': 'corpus-skip_off_writer_tau1.json',
        'C18_writer_tau1': 'corpus-skip_off_writer_tau1.json',
        'C19_format_5e': 'corpus-format_5e.json',
        'C19_header_count': 'corpus-header_count.json',
        'C19_mask_le': 'corpus-mask_le.json',
        'C19_scale_count': 'corpus-scale_count.json',
        'C20_checksum_256': 'corpus-checksum_256.json',
        'C20_exp_no_plus1': 'corpus-exp_no_plus1.json',
        'C20_reader_levels': 'corpus-reader_levels.json',
        'C20_round_127': 'corpus-round_127.json',
        'C20_unpack_axis': 'corpus-unpack_axis.json',
    }
    rc = 0
    for name, cf in sorted(table.items()):
        prop = name.split('_')[0]
        patch = os.path.join(ROOT, 'mutants', name + '.patch')
        cpath = os.path.join(ROOT, 'replays', prop, cf)
        shutil.rmtree(SCRATCH, ignore_errors=True)
        os.makedirs(SCRATCH)
        shutil.copytree('/repo/src', os.path.join(SCRATCH, 'src'))
        subprocess.check_call('cd %s && patch -p1 -s < %s' % (SCRATCH, patch),
                              shell=True)
        env = dict(os.environ, VF_REPO=os.path.join(SCRATCH, 'src'))
        m = subprocess.run([os.path.join(ROOT, 'check'), prop, '--replay',
                            cpath], env=env, capture_output=True, text=True)
        env = dict(os.environ, VF_REPO='/repo/src')
        u = subprocess.run([os.path.join(ROOT, 'check'), prop, '--replay',
                            cpath], env=env, capture_output=True, text=True)
        sig = [ln.strip() for ln in m.stdout.split('\n')
               if ln.strip().startswith('signature:')]
        ok = m.returncode == 1 and u.returncode == 0
        print('%-26s mutant exit=%d unchanged exit=%d %s %s' % (
            name, m.returncode, u.returncode, 'OK' if ok else 'PROBLEM',
            '; '.join(sig)[:160]))
        if not ok:
            rc = 1
            print(m.stdout[-300:], u.stdout[-300:])
        shutil.rmtree(SCRATCH, ignore_errors=True)
    return rc


if __name__ == '__main__':
    if len(sys.argv) > 1 and sys.argv[1] == '--corpus':
        sys.exit(verify_corpus())
    sys.exit(main(sys.argv[1:]))
