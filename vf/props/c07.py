"""C07 - saving to netCDF and reopening reproduces the file.

Generator: FileSpec restricted to what the flavour can represent x flavour x
compression x fill-declaration style.  Oracle: field-by-field comparison of
pncopen(save(f)) with the numpy model of the spec (which never went through
the library)."""
import gc
import os

import numpy as np
from hypothesis import strategies as st

from ..core import Result, guard
from .. import spec as S
from .. import libstate

ID = 'C07'
LEVEL = 'exploration'
RULE = ('Hypothesis: FileSpec (1-4 dims len 1-4, 1-5 variables rank 0-3 incl.'
        ' scalars and 1-D coordinate variables; dtypes S1 i1 i2 i4 f4 f8 for '
        'classic flavours plus i8 u1 u2 u4 u8 for NETCDF4; masked variables '
        'with the fill declared through fill_value / missing_value / '
        '_FillValue or combinations (equal or different values); str/int/float/numpy-scalar/'
        'array attributes whose names come from a pool, from short names '
        '(type, code, dim, n, ...) and from generated identifiers, excluding '
        'names reserved by numpy/netCDF4/PseudoNetCDF objects and leading '
        'underscores; special floats -0.0 inf nan denormal) x flavour '
        '(NETCDF3_CLASSIC, NETCDF3_64BIT_OFFSET, NETCDF4_CLASSIC, NETCDF4) x '
        'complevel {0,1,9} x reopen route (auto-detect / format=netcdf). '
        'Classic flavours: at most one unlimited dimension, leading in every '
        'variable; NETCDF4: any number/position.  Unlimited dimensions are '
        'used by >=1 variable; unmasked data never equals the declared or '
        'the netCDF default fill.  Oracle: dimension names, order, lengths, '
        'unlimited flags; global and variable attribute names and values '
        '(kind int/float/str, length, values; length-1 arrays == scalars; the '
        'fill declaration compared as a group: an added _FillValue equal to '
        'the declared fill is allowed); variable names, order, dtype, '
        'dimension tuples; masked cells masked, unmasked cells bit-identical; '
        'the reopened object is then saved and reopened once more and '
        'compared again.'
        '  Non-trivial: masked variable, or non-float dtype, or >=2 attribute'
        ' kinds, or an unlimited dimension; distinct by sha1 of the spec.')
ASSUMPTIONS = ['netCDF4-python/libnetcdf store and return what they are '
               'given', 'an unlimited dimension not used by any variable is '
               'not representable in netCDF (its length is defined by data) '
               'and is not generated']
BUDGET = {'quick': dict(examples=3600, max_s=300),
          'thorough': dict(examples=16000, max_s=3000)}

CLASSIC = ('NETCDF3_CLASSIC', 'NETCDF3_64BIT_OFFSET', 'NETCDF4_CLASSIC')
DT_CLASSIC = ['S1', 'i1', 'i2', 'i4', 'f4', 'f8']
DT_NC4 = DT_CLASSIC + ['i8', 'u1', 'u2', 'u4', 'u8']
DECLARED = {'i1': [-120, -101, 0], 'u1': [250, 201, 0],
            'i2': [-9999, -32000, 0], 'u2': [9999, 65000, 0],
            'i4': [-9999, -99999, 0], 'u4': [9999, 99999, 0],
            'i8': [-9999, -99999, 0], 'u8': [9999, 99999, 0],
            'f4': [-9999.0, -999.0, 1e20, 0.0],
            'f8': [-9999.0, -999.0, 1e20, 0.0]}


def _elems(code, special):
    if code == 'S1':
        return st.sampled_from(list('abcxyz'))
    if code in ('f4', 'f8'):
        w = 32 if code == 'f4' else 64
        base = st.floats(-1000, 1000, allow_nan=False, width=w).filter(
            lambda x: x not in (-999.0,))
        if special:
            sp = [0.0, -0.0, float('inf'), float('-inf'), float('nan'),
                  1e-40 if code == 'f4' else 5e-324]
            return st.one_of(base, base, st.sampled_from(sp))
        return base
    if code == 'i1':
        return st.integers(-100, 100)
    if code == 'u1':
        return st.integers(0, 200)
    if code[0] == 'u':
        return st.integers(0, 1000)
    return st.integers(-1000, 1000)


# spellings of one type that createVariable accepts: numpy character code(s),
# the kind+size form and the numpy name ('l' is int64 on this platform)
TYPECODES = {
    'S1': ['c', 'S1'], 'i1': ['b', 'i1', 'int8'], 'i2': ['h', 'i2', 'int16'],
    'i4': ['i', 'i4', 'int32'], 'i8': ['q', 'l', 'i8', 'int64'],
    'u1': ['B', 'u1', 'uint8'], 'u2': ['H', 'u2', 'uint16'],
    'u4': ['I', 'u4', 'uint32'], 'u8': ['Q', 'L', 'u8', 'uint64'],
    'f4': ['f', 'f4', 'float32'], 'f8': ['d', 'f8', 'float64']}
_RESERVED = None


def reserved_names():
    """names that cannot be used as attribute names on the in-memory
    objects (methods/properties of ndarray, MaskedArray, the PseudoNetCDF
    classes and netCDF4 objects) or that netCDF4 gives a meaning of its own
    (auto scaling / masking)"""
    global _RESERVED
    if _RESERVED is None:
        import netCDF4
        from PseudoNetCDF import PseudoNetCDFFile
        from PseudoNetCDF.core._variables import (PseudoNetCDFVariable,
                                                  PseudoNetCDFMaskedVariable)
        r = set()
        for o in (np.ndarray, np.ma.MaskedArray, PseudoNetCDFVariable,
                  PseudoNetCDFMaskedVariable, PseudoNetCDFFile,
                  netCDF4.Variable, netCDF4.Dataset):
            r.update(dir(o))
        r.update(['typecode', 'dimensions', 'variables', 'groups',
                  'scale_factor', 'add_offset', 'missing_value', 'valid_min',
                  'valid_max', 'valid_range', 'fill_value', '_FillValue',
                  'calendar', 'units', 'name', 'format', 'path', 'parent',
                  'datatype', 'dtype', 'scale', 'mask', 'always_mask',
                  'chartostring', 'auto_complex'])
        _RESERVED = r
    return _RESERVED


SHORT_NAMES = ['type', 'code', 'dim', 'n', 'od', 'dims', 'desc', 't1', 'a_b',
               'Title', 'ID', 'k', 'ns', 'io', 'me', 'ens', 'typ', 'sion',
               # double underscores inside or at the end of a name (only a
               # LEADING underscore marks a name the writer may skip)
               'grid__type', 'a__b', 'trailer__', 'x__', 'cell__methods']


@st.composite
def attr_dict(draw, pool, maxn):
    """attribute dictionary with names from the fixed pool, from a list of
    short names (incl. substrings of words the writer treats specially) and
    freely generated identifiers"""
    n = draw(st.integers(0, maxn))
    out = {}
    for _ in range(n):
        kind = draw(st.integers(0, 3))
        if kind == 0:
            k = draw(st.sampled_from(SHORT_NAMES))
        elif kind == 1:
            k = draw(st.text(alphabet='abcdefghijklmnopqrstuvwxyz',
                             min_size=1, max_size=6))
            if draw(st.booleans()):
                k = k + draw(st.sampled_from(['_1', '2', '_x', 'Z', '__v',
                                              '__']))
        else:
            k = draw(st.sampled_from(pool))
        if k in reserved_names() or k.startswith('_') or k in out:
            continue
        out[k] = draw(S.attr_values())
    return out


@st.composite
def cases(draw, tier='quick'):
    flavour = draw(st.sampled_from(CLASSIC + ('NETCDF4', 'NETCDF4')))
    nc4 = flavour == 'NETCDF4'
    dtypes = DT_NC4 if nc4 else DT_CLASSIC
    nd = draw(st.integers(1, 4))
    names = draw(st.lists(st.sampled_from(S.NEUTRAL_DIMS + S.KNOWN_DIMS),
                          min_size=nd, max_size=nd, unique=True))
    lens = [draw(st.integers(1, 4)) for _ in names]
    unl = [False] * nd
    if nc4:
        for i in range(nd):
            unl[i] = draw(st.integers(0, 3)) == 0
    elif draw(st.booleans()):
        unl[draw(st.integers(0, nd - 1))] = True
    dlen = dict(zip(names, lens))
    unlset = [n for n, u in zip(names, unl) if u]
    special = draw(st.booleans())
    variables = []
    nv = draw(st.integers(1, 5))
    used = set()
    for i in range(nv):
        rank = draw(st.integers(0, min(3, nd)))
        vd = list(draw(st.permutations(names))[:rank])
        if not nc4 and unlset and unlset[0] in vd:
            vd.remove(unlset[0])
            vd.insert(0, unlset[0])
        coord = False
        name = 'v%d' % i
        if rank == 1 and vd[0] not in used and draw(st.booleans()):
            name = vd[0]
            coord = True
        used.update(vd)
        code = draw(st.sampled_from(dtypes))
        size = int(np.prod([dlen[d] for d in vd])) if vd else 1
        data = draw(st.lists(_elems(code, special), min_size=size,
                             max_size=size))
        mask = None
        fillattrs = {}
        fill = None
        if code != 'S1' and draw(st.integers(0, 2)) == 0:
            mask = [int(b) for b in draw(st.lists(st.booleans(),
                                                  min_size=size,
                                                  max_size=size))]
            fill = draw(st.sampled_from(DECLARED[code]))
            if fill == 0:
                # unmasked data never equals the declared fill
                data = [1 if x == 0 else x for x in data]
            style = draw(st.sampled_from(
                ['fill_value', 'missing_value', '_FillValue',
                 'fill_value+missing_value', 'missing_value+_FillValue']))
            for k in style.split('+'):
                fillattrs[k] = fill
            if '+' in style and draw(st.integers(0, 2)) == 0:
                # two declarations with different values (CF allows
                # missing_value != _FillValue); the mask must still survive
                other = [x for x in DECLARED[code] if x != fill][0]
                fillattrs[style.split('+')[1]] = other
        vattrs = draw(attr_dict(S.VAR_ATTRS, 3))
        if code in ('f4', 'i2', 'i4') and not special and \
                draw(st.integers(0, 3)) == 0:
            # CF range attributes typed WIDER than the variable (float64 /
            # Python numbers on a float32 or integer variable), with values
            # the variable's own type cannot hold exactly; they enclose the
            # data, so a reader that applies them masks nothing
            lo = float(min(data)) - 0.1 - draw(st.integers(0, 6)) / 7.0
            hi = float(max(data)) + 0.1 + draw(st.integers(0, 6)) / 3.0
            rstyle = draw(st.sampled_from(['valid_min+valid_max',
                                           'valid_range', 'actual_range',
                                           'valid_min', 'valid_max']))
            if 'valid_min' in rstyle:
                vattrs['valid_min'] = {'py': 'float', 'v': lo}
            if 'valid_max' in rstyle:
                vattrs['valid_max'] = {'py': 'float', 'v': hi}
            if rstyle in ('valid_range', 'actual_range'):
                vattrs[rstyle] = {'nd': 'f8', 'v': [lo, hi]}
        variables.append(dict(name=name, dims=vd, dtype=code, data=data,
                              mask=mask, fill=fill, fillattrs=fillattrs,
                              coord=coord, tc=draw(st.sampled_from(
                                  TYPECODES[code])),
                              attrs=vattrs))
    # every unlimited dimension is used by at least one variable
    for u in unlset:
        if u not in used:
            code = draw(st.sampled_from(['f4', 'i4']))
            data = draw(st.lists(_elems(code, False), min_size=dlen[u],
                                 max_size=dlen[u]))
            variables.append(dict(name='u_' + u, dims=[u], dtype=code,
                                  data=data, mask=None, fill=None,
                                  fillattrs={}, attrs={}))
    gattrs = draw(attr_dict(S.GLOBAL_ATTRS, 4))
    fs = dict(dims=[[n, l, u] for n, l, u in zip(names, lens, unl)],
              vars=variables, gattrs=gattrs)
    complevel = draw(st.sampled_from([0, 0, 1, 9])) if flavour.startswith(
        'NETCDF4') else 0
    route = draw(st.sampled_from(['auto', 'netcdf']))
    return dict(file=fs, flavour=flavour, complevel=complevel, route=route)


def strategy(tier):
    return cases(tier)


def enumerate_cases(tier):
    """a few files holding one variable larger than 16 MiB (writers may
    treat large variables differently, e.g. slab-wise), record counts that
    are not multiples of any natural slab size"""
    big = [('NETCDF4_CLASSIC', False, 5), ('NETCDF3_64BIT_OFFSET', True, 7)]
    if tier == 'thorough':
        big += [('NETCDF4', True, 3), ('NETCDF3_CLASSIC', False, 9)]
    for flavour, unl, nt in big:
        fs = dict(dims=[['t', nt, unl], ['y', 1200, False], ['x', 1000,
                                                              False]],
                  vars=[dict(name='big', dims=['t', 'y', 'x'], dtype='f4',
                             gen=997, mask=None, fill=None, fillattrs={},
                             coord=False, tc='f', attrs={}),
                        dict(name='small', dims=['t'], dtype='i4',
                             data=list(range(nt)), mask=None, fill=None,
                             fillattrs={}, coord=False, tc='i', attrs={})],
                  gattrs={})
        yield dict(file=fs, flavour=flavour, complevel=0, route='netcdf',
                   resave=False)


def build(fs):
    """own builder: fill declared through the generated attribute style"""
    from PseudoNetCDF import PseudoNetCDFFile
    m = S.model_of(fs)
    f = PseudoNetCDFFile()
    for n, (l, u) in m.dims.items():
        f.createDimension(n, l).setunlimited(u)
    for sv in fs['vars']:
        mv = m.vars[sv['name']]
        kw = dict(sv.get('fillattrs') or {})
        dt = np.dtype(S.DT[sv['dtype']])
        for k in list(kw):
            kw[k] = dt.type(kw[k]) if dt.kind != 'S' else kw[k]
        var = f.createVariable(mv.name, sv.get('tc') or S.CHAR[sv['dtype']],
                               mv.dims, **kw)
        if var.dtype != dt:
            from ..core import HarnessError
            raise HarnessError('typecode %r gave dtype %s, expected %s' % (
                sv.get('tc'), var.dtype, dt))
        var[...] = mv.data
        for k, val in mv.attrs.items():
            setattr(var, k, val)
    for k, val in m.gattrs.items():
        setattr(f, k, val)
    return f, m


FILLKEYS = ('fill_value', 'missing_value', '_FillValue')


def check_case(case):
    r = Result()
    fs = case['file']
    flavour = case['flavour']
    f, m = build(fs)
    path = libstate.scratch_path('.nc' if case['route'] == 'auto' else '.dat')
    kinds = set()
    for mv in list(m.vars.values()):
        for v in mv.attrs.values():
            kinds.add(S.norm_attr(v)[0] + ('arr' if np.ndim(v) else ''))
    for v in m.gattrs.values():
        kinds.add(S.norm_attr(v)[0] + ('arr' if np.ndim(v) else ''))
    nt = any(mv.masked for mv in m.vars.values()) or \
        any(sv['dtype'] not in ('f4', 'f8') for sv in fs['vars']) or \
        len(kinds) >= 2 or any(u for _, (l, u) in m.dims.items())
    r.nontrivial = bool(nt)
    r.label('flavour:' + flavour, 'route:' + case['route'],
            'complevel:%d' % case['complevel'])
    if any(mv.masked for mv in m.vars.values()):
        r.label('masked')
    if any(not mv.dims for mv in m.vars.values()):
        r.label('scalar-var')
    if any(u for _, (l, u) in m.dims.items()):
        r.label('unlimited')
    if any('gen' in sv for sv in fs['vars']):
        r.label('variable>16MiB')
    for sv in fs['vars']:
        r.label('dtype:' + sv['dtype'])
        if any(k in sv.get('attrs', {}) for k in ('valid_min', 'valid_max',
                                                  'valid_range',
                                                  'actual_range')):
            r.label('range-attrs-wider-than-variable')
        if sv.get('fillattrs'):
            r.label('fill:' + '+'.join(sorted(sv['fillattrs'])))
            if len(set(sv['fillattrs'].values())) > 1:
                r.label('fill-declarations-differ')
    try:
        ok, out = guard(r, 'save-raises', lambda: f.save(
            path, format=flavour, complevel=case['complevel'], verbose=0))
        if not ok:
            return r
        libstate.release(out)
        del out
        gc.collect()
        from PseudoNetCDF import pncopen
        kw = {} if case['route'] == 'auto' else dict(format='netcdf')
        ok, g = guard(r, 'reopen-raises', lambda: pncopen(path, **kw))
        if not ok:
            return r
        path2 = path + '.resaved' + ('.nc' if case['route'] == 'auto'
                                      else '.dat')
        try:
            compare(r, g, m, fs)
            if not r.failures and case.get('resave', True):
                # second cycle: the reopened (netCDF-backed) object is itself
                # "any file": saving it again and reopening must reproduce
                # the same content
                r.label('resaved')
                n0 = len(r.failures)
                ok, out2 = guard(r, 'resave-raises', lambda: g.save(
                    path2, format=flavour, complevel=case['complevel'],
                    verbose=0))
                if ok:
                    libstate.release(out2)
                    del out2
                    gc.collect()
                    ok, h = guard(r, 'resave-reopen-raises',
                                  lambda: pncopen(path2, **kw))
                    if ok:
                        try:
                            compare(r, h, m, fs)
                        finally:
                            libstate.release(h)
                            del h
                            gc.collect()
                        for f_ in r.failures[n0:]:
                            f_.clause = 'resave-' + f_.clause
        finally:
            libstate.release(g)
            del g
            gc.collect()
            if os.path.exists(path2):
                os.remove(path2)
    finally:
        if os.path.exists(path):
            os.remove(path)
    return r


def compare(r, g, m, fs):
    got = [(k, len(d), bool(d.isunlimited())) for k, d in
           g.dimensions.items()]
    want = [(k, l, u) for k, (l, u) in m.dims.items()]
    if got != want:
        r.fail('dimensions', 'dimensions %r, expected %r' % (got, want))
    msg = S.cmp_attrs(g, m.gattrs, 'file')
    if msg:
        r.fail('global-attrs', msg)
    if list(g.variables.keys()) != list(m.vars.keys()):
        r.fail('var-names', 'variables %r, expected %r' % (
            list(g.variables.keys()), list(m.vars.keys())))
        return
    for sv in fs['vars']:
        name = sv['name']
        mv = m.vars[name]
        gv = g.variables[name]
        if tuple(gv.dimensions) != mv.dims:
            r.fail('var-dims', 'variable %s dims %r, expected %r' % (
                name, tuple(gv.dimensions), mv.dims))
            continue
        data, mask = S.get_data(gv)
        edt = np.dtype(S.DT[sv['dtype']])
        if data.dtype != edt:
            r.fail('var-dtype', 'variable %s dtype %s, expected %s' % (
                name, data.dtype, edt), klass=sv['dtype'])
            continue
        msg = S.cmp_array(gv, mv.data, 'variable %s' % name, bits=True)
        if msg:
            clause = 'var-mask' if 'mask differs' in msg else 'var-data'
            r.fail(clause, msg, klass=(
                '+'.join(sorted(sv['fillattrs']))
                if sv.get('fillattrs') else sv['dtype']))
        # attributes: ordinary ones exactly, fill declaration as a group
        want = S.OD(mv.attrs)
        declared = sv.get('fillattrs') or {}
        gotnames = [k for k in gv.ncattrs()]
        plain = [k for k in gotnames if k not in FILLKEYS]
        if set(plain) != set(want):
            r.fail('var-attr-names', 'variable %s attributes %r, expected '
                   '%r' % (name, sorted(plain), sorted(want)))
        else:
            for k in want:
                a = S.norm_attr(getattr(gv, k))
                b = S.norm_attr(want[k])
                if a != b:
                    r.fail('var-attr-value', 'variable %s attribute %s = %r,'
                           ' expected %r' % (name, k, a, b),
                           klass=b[0])
        for k in FILLKEYS:
            if k in gotnames:
                val = np.asarray(getattr(gv, k))
                if not declared:
                    r.fail('fill-attr-added', 'variable %s got attribute %s'
                           '=%r but declared no fill' % (name, k, val))
                elif k in declared or k == '_FillValue':
                    allowed = [edt.type(declared[k])] if k in declared \
                        else [edt.type(x) for x in declared.values()]
                    if val.size != 1 or val.ravel()[0] not in allowed:
                        r.fail('fill-attr-value', 'variable %s %s=%r, '
                               'declared %r' % (name, k, val, declared))
                else:
                    r.fail('fill-attr-added', 'variable %s got attribute %s '
                           'not declared (%r)' % (name, k, sorted(declared)))
            elif k in declared:
                r.fail('fill-attr-lost', 'variable %s lost declared '
                       'attribute %s' % (name, k),
                       klass='+'.join(sorted(declared)))
