"""C03 - apply-along-dimension equals the numpy reduction along that axis.

Generator: FileSpec x non-empty subset of dimensions x per-dimension function
(named reducer or 1-D callable with deterministic output length), plain or
documented dictionary form.  Oracle: numpy / numpy.ma applied one axis at a
time on the model, axis retained."""
import itertools

import numpy as np
from hypothesis import strategies as st

from ..core import Result, guard
from .. import spec as S
from .. import known
from .. import agentA_common as A

ID = 'C03'
LEVEL = 'exploration'
RULE = ('Hypothesis: FileSpec (1-5 dims of length 1-5, 1-5 numeric variables '
        'f4/f8/i2/i4 of rank 0-4 over differing dimension subsets, masked and '
        'unmasked, 1-D coordinate variables; a quarter of the in-memory '
        'applyAlongDimensions cases add a variable carrying a named '
        'dimension twice, K(x,x) / K(t,x,x), judged along both axes) x '
        'non-empty subset of '
        'dimensions in permuted keyword order x function per dimension: named '
        'reducer mean/sum/min/max/std/var/prod, or callable np.convolve('
        'valid/same/full, random kernel of 1-3 taps), np.diff (n>=2), x[::k], '
        'np.cumsum, x[:1], np.diff(x, 2), a running sum of width 2-3, '
        'np.ma.convolve; ~1/10 of cases with a callable use '
        "the documented dictionary form {dim: {'func1d': f, **options}}.  Oracle per variable holding named dimensions: "
        'the same numpy / numpy.ma method (axis=i, keepdims=True) or the same '
        '1-D function per slice, one named axis at a time, cast to the stored '
        'dtype; because the statement fixes no order, the result may equal '
        'ANY order of single-axis application (all permutations tried); '
        'floats rtol=1e-5 (f4) / 1e-12 (f8) with atol scaled by the input '
        'magnitude, integers exact after the cast (variables whose uncast '
        'result leaves the integer range are not compared); named reducers: '
        'masks must agree; callables on masked data: values must agree where '
        'the masked-array result is unmasked, and a cell that masked-array '
        'arithmetic masks must be masked or (convolution) equal the value '
        'with masked elements excluded - it must not be computed from data '
        'under the mask; variables lacking every named dimension are '
        'bit-identical with equal attributes; every named dimension and its '
        'coordinate variable have the function\'s output length, other '
        'dimensions and unlimited flags unchanged; same commuting reducer '
        '(sum/min/max/prod, mean on unmasked data) on >=2 dimensions: '
        'library results for reversed keyword order agree.  ~1/5 of cases go '
        'through the command-line string forms core._functions.reduce_dim('
        '"dim,reducer"; half with the method reducers, half with reducers '
        'that are not array methods and go through _getfunc\'s module lookup:'
        ' median/average/amax/amin/ptp on any data, nan* on files without a '
        'masked variable on the dimension; oracle = the plain numpy function '
        'on the VALID elements of every 1-D slice, all-masked slice -> masked) and convolve_dim("dim,mode,w1,..") on one '
        'dimension - the files carry sibling dimensions <dim><digits> (reduced '
        'too by reduce_dim\'s documented fuzzy rule), <dim><digits><text>, '
        '<dim><text>, <text><dim> (never touched), each with a variable - : dimension lengths, values (same tolerances, result dtype '
        'of reduce_dim not judged) and masks, where a cell that should be '
        'masked may instead hold the declared fill value (Pseudo2NetCDF '
        'convention) and convolve_dim on masked data may follow either '
        'numpy.ma.convolve semantics (mask propagated / masked elements '
        'excluded).  A third of the string-form cases and a few '
        'applyAlongDimensions cases run on the file saved as netCDF and '
        'reopened with the netcdf class (variables are netCDF4.Variable, '
        'masked cells hold the fill value on disk).  1/10 of the quick tier (1/8 thorough) runs '
        'ioapi_base.applyAlongDimensions on generated gridded IOAPI files '
        '(routes arrays/griddesc), 2/3 of them after sliceDimensions(TSTEP='
        'index list) so that the time axis is irregular; reducers or '
        'callables on a subset of LAY/ROW/COL/TSTEP; judged: dimension '
        'lengths, data of the listed variables, and bit identity with the '
        'input of every variable lacking all named dimensions (TFLAG '
        'included), and len(VGLVLS) == NLAYS + 1 == len(LAY) + 1; a third of '
        'the IOAPI cases with a callable use the dictionary form, whose '
        'options (step / n / width) change the output length of a function '
        'that has defaults.  Non-trivial: '
        'masked variable reduced over an axis that is neither first nor '
        'last, or a length-changing callable, or a variable lacking the '
        'named dimensions present.  Distinct by sha1 of the case spec.')
ASSUMPTIONS = ['numpy / numpy.ma reductions with keepdims=True and '
               'numpy.ma.convolve are the reference',
               'integer variables keep their dtype: results are cast like '
               'numpy assignment does (truncation)',
               'character variables are outside the domain']
BUDGET = {'quick': dict(examples=9600, max_s=240),
          'thorough': dict(examples=50000, max_s=1100)}

REDUCERS = ['mean', 'sum', 'min', 'max', 'std', 'var', 'prod']
COMMUTING = ('sum', 'min', 'max', 'prod')
# module-level reducers (not ndarray methods) that numpy and numpy.ma both
# provide with (a, axis=, keepdims=), and the numpy-only nan* family (data is
# finite, so they equal their plain counterparts); value = what they compute
# from the valid elements of one 1-D slice
MODRED_BOTH = {'median': np.median, 'average': np.mean, 'amax': np.max,
               'amin': np.min, 'ptp': np.ptp}
MODRED_NP = {'nanmean': np.mean, 'nansum': np.sum, 'nanmin': np.min,
             'nanmax': np.max, 'nanstd': np.std, 'nanvar': np.var,
             'nanmedian': np.median, 'nanprod': np.prod}
FOPTS = dict(max_len=5, max_dims=5, max_vars=5, attrs=True, masked=True,
             char=False, vrange=100, fills=[-999, -9999, -1, 99, 0, 0])


# ------------------------------------------------------------------ strategy
@st.composite
def funcs(draw, n):
    kind = draw(st.sampled_from(['red', 'red', 'red', 'conv', 'maconv',
                                 'diff', 'sub', 'cumsum', 'first', 'diffn',
                                 'win']))
    if kind == 'diffn' and n < 3:
        kind = 'diff'
    if kind == 'diff' and n < 2:
        kind = 'cumsum'
    if kind == 'win' and n < 2:
        kind = 'cumsum'
    if kind == 'win':
        return ['win', draw(st.integers(2, min(3, n)))]
    if kind == 'red':
        return ['red', draw(st.sampled_from(REDUCERS))]
    if kind in ('conv', 'maconv'):
        mode = draw(st.sampled_from(['valid', 'same', 'full']))
        nk = draw(st.integers(1, 3))
        kern = draw(st.lists(st.sampled_from([0.5, 1.0, -1.0, 0.25, 2.0,
                                              0.0, 1.5]),
                             min_size=nk, max_size=nk))
        return [kind, mode, kern]
    if kind == 'sub':
        return ['sub', draw(st.integers(2, 3))]
    return [kind]


@st.composite
def siblings(draw, fs, d):
    """add (in place) 0-3 dimensions whose names extend `d`, each with a
    variable on it: <d><digits> (the documented fuzzy match of reduce_dim
    reduces it too), <d><digits><text>, <d><text> and <text><d> (never
    touched)"""
    have = set(x[0] for x in fs['dims'])
    # one <d><digits> sibling at most: with nested numbers (a1 and a12)
    # reduce_dim's recursion reduces a12 twice, which is not idempotent for
    # ptp/std/var (observed on the unchanged tree, not asserted here)
    pool = [draw(st.sampled_from([d + '1', d + '12', d + '47'])),
            d + '3_edges', d + '2b', d + 'q', 'q' + d]
    k = draw(st.integers(0, 3))
    names = [n for n in draw(st.permutations(pool))[:k] if n not in have]
    if any(x.startswith(d) and x[len(d):].isdigit() for x in have):
        names = [n for n in names if not n[len(d):].isdigit() or
                 not n.startswith(d)]
    others = [x[0] for x in fs['dims'] if x[0] != d]
    for i, n in enumerate(names):
        ln = draw(st.integers(1, 3))
        fs['dims'].append([n, ln, False])
        vd = [n]
        oshape = [ln]
        if others and draw(st.booleans()):
            o = draw(st.sampled_from(others))
            ol = [x[1] for x in fs['dims'] if x[0] == o][0]
            if draw(st.booleans()):
                vd, oshape = [o, n], [ol, ln]
            else:
                vd, oshape = [n, o], [ln, ol]
        size = int(np.prod(oshape))
        code = draw(st.sampled_from(['f4', 'f8', 'i4']))
        data = draw(st.lists(S._elements(code, FOPTS), min_size=size,
                             max_size=size))
        mask = fill = None
        if draw(st.integers(0, 2)) == 0:
            mask = [int(x) for x in draw(st.lists(
                st.booleans(), min_size=size, max_size=size))]
            fill = -999
        fs['vars'].append(dict(name='s%d' % i, dims=vd, dtype=code,
                               data=data, mask=mask, fill=fill, attrs={}))
    return names


@st.composite
def cases(draw, tier='quick'):
    fs = draw(S.filespecs(**FOPTS))
    names = [d[0] for d in fs['dims']]
    dlen = A.dlen_of(fs)
    used = [n for n in names if any(n in v['dims'] for v in fs['vars'])]
    k = draw(st.integers(1, min(3, len(names))))
    pool = draw(st.permutations(used)) + \
        draw(st.permutations([n for n in names if n not in used]))
    chosen = draw(st.permutations(pool[:k]))
    same = draw(st.integers(0, 9)) >= 7
    fl = []
    if same and k >= 2:
        red = ['red', draw(st.sampled_from(REDUCERS))]
        fl = [[d, list(red)] for d in chosen]
    else:
        for d in chosen:
            fl.append([d, draw(funcs(dlen[d]))])
    form = 'plain'
    pick = draw(st.integers(0, 19))
    if pick == 7 and any(fd[0] != 'red' for d, fd in fl):
        form = 'dict'
    if pick >= 12 and used:
        # string forms used by the command line: one dimension
        d = draw(st.sampled_from(used))
        if not isinstance(fs['gattrs'].get('history', ''), str):
            # the string forms append to the (textual) history attribute
            fs['gattrs'].pop('history')
        sub = draw(st.sampled_from(['conv', 'modred', 'method', 'conv',
                                   'modred']))
        draw(siblings(fs, d))
        # a third of the string-form cases run on the file saved as netCDF
        # and reopened (class netcdf: variables are netCDF4.Variable)
        disk = A.disk_ok(fs) and draw(st.integers(0, 2)) == 0
        if sub != 'conv':
            if sub == 'method':
                return dict(file=fs, form='plain', entry='reduce_dim',
                            disk=disk,
                            funcs=[[d, ['red',
                                        draw(st.sampled_from(REDUCERS))]]])
            # reducer names that are NOT array methods: _getfunc resolves
            # them to numpy.ma.<name> for masked data, numpy.<name> otherwise
            names = list(MODRED_BOTH)
            # (netCDF4 hands out every variable as a masked array, so the
            # numpy-only nan* names do not resolve for reopened files)
            fuzzy = any(x[0] != d and x[0].startswith(d) and
                        x[0][len(d):].isdigit() for x in fs['dims'])
            if not disk and not fuzzy and not any(
                    v.get('mask') is not None and d in v['dims']
                    for v in fs['vars']):
                names = names + list(MODRED_NP)
            return dict(file=fs, form='plain', entry='reduce_dim', disk=disk,
                        funcs=[[d, ['modred', draw(st.sampled_from(names))]]])
        fd = draw(funcs(dlen[d]).filter(lambda f: f[0] == 'conv'))
        return dict(file=fs, form='plain', entry='convolve_dim', disk=disk,
                    funcs=[[d, fd]])
    disk = form == 'plain' and pick in (3, 4) and A.disk_ok(fs)
    if not disk and draw(st.integers(0, 3)) == 0:
        # a variable that carries a named dimension TWICE (covariance
        # K(x, x), K(t, x, x)): the function applies along both axes
        x = draw(st.sampled_from([d_ for d_, fd_ in fl]))
        vd = [x, x]
        others = [n for n in names if n != x]
        if others and draw(st.booleans()):
            vd.insert(draw(st.integers(0, 2)), draw(st.sampled_from(others)))
        size = int(np.prod([dlen[n] for n in vd]))
        code = draw(st.sampled_from(['f4', 'f8', 'i4']))
        data = draw(st.lists(S._elements(code, FOPTS), min_size=size,
                             max_size=size))
        mask = fill = None
        if draw(st.integers(0, 2)) == 0:
            mask = [int(b_) for b_ in draw(st.lists(
                st.booleans(), min_size=size, max_size=size))]
            fill = -999
        fs['vars'].append(dict(name='kxx', dims=vd, dtype=code, data=data,
                               mask=mask, fill=fill, attrs={}))
    return dict(file=fs, funcs=fl, form=form, disk=disk)


@st.composite
def ioapi_cases(draw):
    """gridded IOAPI file (routes arrays / griddesc), optionally with an
    irregular time axis made by an index-list selection on TSTEP, x
    functions on a subset of TSTEP/LAY/ROW/COL: named reducers or callables
    on any of them"""
    from .. import ioapispec
    sp = draw(ioapispec.ioapispecs(routes=('arrays', 'griddesc'),
                                   ftypes=(1,), max_n=4, max_steps=6,
                                   max_vars=3))
    tsel = None
    if sp['nt'] >= 3 and draw(st.integers(0, 2)) > 0:
        idx = draw(st.lists(st.integers(0, sp['nt'] - 1),
                            min_size=min(3, sp['nt'] - 1),
                            max_size=sp['nt'] - 1, unique=True))
        tsel = sorted(idx)
    nt = len(tsel) if tsel else sp['nt']
    dl = dict(TSTEP=nt, LAY=sp['nz'], ROW=sp['ny'], COL=sp['nx'])
    k = draw(st.integers(1, 3))
    pool = ['LAY', 'ROW', 'COL', 'LAY', 'ROW', 'COL', 'TSTEP', 'LAY']
    chosen = []
    for d in draw(st.permutations(pool)):
        if d not in chosen:
            chosen.append(d)
    chosen = chosen[:k]
    fl = []
    for d in chosen:
        if draw(st.integers(0, 2)) > (1 if d == 'LAY' else 0):
            fl.append([d, ['red', draw(st.sampled_from(REDUCERS))]])
        elif d in ('LAY', 'TSTEP') and dl[d] >= 2 and draw(st.booleans()):
            # functions whose output length is set by an option
            k_ = draw(st.sampled_from(['sub', 'win'] +
                                      (['diffn'] if dl[d] >= 3 else [])))
            fl.append([d, [k_, draw(st.integers(2, min(3, dl[d])))]
                       if k_ != 'diffn' else ['diffn']])
        else:
            fl.append([d, draw(funcs(dl[d]).filter(
                lambda f: f[0] != 'maconv'))])
    form = 'plain'
    if any(fd[0] != 'red' for d, fd in fl) and draw(st.booleans()):
        form = 'dict'
    return dict(entry='ioapi', ioapi=sp, tsel=tsel, funcs=fl, form=form)


def strategy(tier):
    if tier == 'quick':
        return st.one_of(cases(tier), cases(tier), cases(tier), cases(tier),
                         cases(tier), cases(tier), cases(tier), cases(tier),
                         cases(tier), ioapi_cases())
    if tier == 'thorough':
        return st.one_of(cases(tier), cases(tier), cases(tier), cases(tier),
                         cases(tier), cases(tier), cases(tier),
                         ioapi_cases())
    return cases(tier)


# ------------------------------------------------------------------ functions
def lib_func(fd):
    """what is handed to the library"""
    kind = fd[0]
    if kind == 'red':
        return fd[1]
    if kind == 'conv':
        mode, kern = fd[1], list(fd[2])
        return lambda x: np.convolve(x, kern, mode=mode)
    if kind == 'maconv':
        mode, kern = fd[1], list(fd[2])
        return lambda x: np.ma.convolve(x, kern, mode=mode)
    if kind == 'diff':
        return np.diff
    if kind == 'sub':
        step = int(fd[1])
        return lambda x: x[::step]
    if kind == 'cumsum':
        return np.cumsum
    if kind == 'first':
        return lambda x: x[:1]
    if kind == 'diffn':
        return lambda x: np.diff(x, 2)
    if kind == 'win':
        width = int(fd[1])
        return lambda x: _win(x, width=width)
    raise ValueError(fd)


def _sub(x, step=1):
    """every step-th element; the default keeps the length"""
    return x[::step]


def _win(x, width=1):
    """running sum over `width` consecutive elements (n - width + 1 values);
    the default keeps the length.  Slicing and adding only, so masked slices
    stay masked."""
    m = x.shape[0] - width + 1
    out = x[0:m]
    for k in range(1, width):
        out = out + x[k:k + m]
    return out


def dict_form(fd):
    """the documented dictionary form {'func1d': f, **options}: a function
    WITH defaults plus the options that give it the case's behaviour (the
    options change the output length for sub / diffn / win)"""
    kind = fd[0]
    if kind == 'conv':
        return dict(func1d=np.convolve, v=list(fd[2]), mode=fd[1])
    if kind == 'diff':
        return dict(func1d=np.diff, n=1)
    if kind == 'diffn':
        return dict(func1d=np.diff, n=2)
    if kind == 'sub':
        return dict(func1d=_sub, step=int(fd[1]))
    if kind == 'win':
        return dict(func1d=_win, width=int(fd[1]))
    return dict(func1d=lib_func(fd))


def out_len(fd, n):
    if fd[0] in ('red', 'modred'):
        return 1
    return int(np.asarray(lib_func(fd)(np.arange(n, dtype='f8'))).size)


def apply_1d(arr, axis, fn):
    """independent of np.apply_along_axis: explicit loop over 1-D slices of a
    plain or masked array; fn returns a 1-D plain or masked array"""
    masked = isinstance(arr, np.ma.MaskedArray)
    moved = np.moveaxis(arr, axis, -1)
    lead = moved.shape[:-1]
    res = []
    for idx in np.ndindex(*lead):
        res.append(fn(moved[idx]))
    n = res[0].shape[0]
    dt = np.result_type(*[np.ma.getdata(x).dtype for x in res])
    data = np.zeros(lead + (n,), dtype=dt)
    mask = np.zeros(lead + (n,), dtype=bool)
    for idx, x in zip(np.ndindex(*lead), res):
        data[idx] = np.ma.getdata(x)
        mask[idx] = np.ma.getmaskarray(x)
    data = np.moveaxis(data, -1, axis)
    mask = np.moveaxis(mask, -1, axis)
    if masked:
        return np.ma.MaskedArray(data, mask=mask)
    return data


def model_step(arr, axis, fd):
    """one single-axis application on the model: the numpy / numpy.ma
    reduction method, or the very function handed to the library applied to
    every 1-D slice by an explicit loop (what the function does with a
    masked slice is the function's business: np.convolve ignores masks,
    np.ma.convolve / np.diff / np.cumsum / slicing honour them)"""
    if fd[0] == 'red':
        return getattr(arr, fd[1])(axis=axis, keepdims=True)
    if fd[0] == 'modred':
        # masked elements excluded, as masked-array arithmetic does: the
        # plain numpy function on the valid elements of every 1-D slice; a
        # slice without valid elements gives a masked cell
        base = dict(MODRED_BOTH, **MODRED_NP)[fd[1]]

        def one(x):
            if isinstance(x, np.ma.MaskedArray):
                v = x.compressed()
                if v.size == 0:
                    return np.ma.MaskedArray([0.0], mask=[True])
                return np.ma.MaskedArray([base(v)], mask=[False])
            return np.atleast_1d(base(np.asarray(x)))
        return apply_1d(arr, axis, one)
    fn = lib_func(fd)
    return apply_1d(arr, axis, lambda x: np.ma.atleast_1d(fn(x))
                    if isinstance(x, np.ma.MaskedArray)
                    else np.atleast_1d(fn(x)))


def cast_to(res, dtype):
    """what numpy assignment into a variable of `dtype` stores.  Returns
    (array, comparable) - comparable False when a float result does not fit
    an integer dtype (undefined conversion)."""
    dtype = np.dtype(dtype)
    data = np.asarray(np.ma.getdata(res))
    mask = np.ma.getmaskarray(res) if isinstance(res, np.ma.MaskedArray) \
        else None
    comparable = True
    if dtype.kind in 'iu' and data.dtype.kind == 'f':
        info = np.iinfo(dtype)
        live = data if mask is None else data[~mask]
        if live.size and (not np.isfinite(live).all() or
                          live.max() >= info.max or live.min() <= info.min):
            comparable = False
    with np.errstate(all='ignore'):
        out = data.astype(dtype)
    if mask is not None:
        out = np.ma.MaskedArray(out, mask=mask)
    return out, comparable


def tolerances(dtype, src, fl):
    dtype = np.dtype(dtype)
    if dtype.kind != 'f':
        return None
    rtol = 1e-5 if dtype.itemsize == 4 else 1e-12
    data = np.asarray(np.ma.getdata(src)).astype('f8')
    scale = float(np.abs(data).max()) if data.size else 1.0
    scale = max(scale, 1.0) * max(data.size, 1)
    for d, fd in fl:
        if fd[0] in ('conv', 'maconv'):
            scale *= max(1.0, float(np.abs(fd[2]).sum()))
        if fd[0] == 'red' and fd[1] == 'var':
            scale *= scale
    return rtol, rtol * scale


# ------------------------------------------------------------------ check
def check_string_form(case):
    """core._functions.reduce_dim / convolve_dim ('dim,func' and
    'dim,mode,w1,w2,..'): one dimension; result dtype is not judged for
    reduce_dim (it is numpy's); for convolve_dim the function is the
    library's own choice, so on masked data the result must follow one of
    numpy.ma.convolve's two semantics (mask propagated, or masked elements
    excluded) - data under the mask must not leak into unmasked output."""
    from PseudoNetCDF.core import _functions as F
    r = Result()
    fs = case['file']
    m = S.model_of(fs)
    f = _input(case, r, m)
    d, fd = case['funcs'][0]
    entry = case['entry']
    r.label('entry:' + entry, 'f:' + (fd[0] if fd[0] not in ('red', 'modred')
                                      else fd[0] + ':' + fd[1]))
    n = m.dims[d][0]
    if entry == 'reduce_dim':
        arg = '%s,%s' % (d, fd[1])
        ok, out = guard(r, 'reduce_dim-raises', lambda: F.reduce_dim(f, arg))
        newlen = 1
    else:
        w32 = np.array(fd[2], dtype='f')
        arg = ','.join([d, fd[1]] + [repr(float(w)) for w in fd[2]])
        ok, out = guard(r, 'convolve_dim-raises',
                        lambda: F.convolve_dim(f, arg))
        newlen = int(np.convolve(w32, np.arange(n), mode=fd[1]).size)
    # dimensions the call changes: the named one; reduce_dim's documented
    # fuzzy rule also reduces every dimension named <dim><digits>
    R = S.OD([(d, newlen)])
    if entry == 'reduce_dim':
        for dn in m.dims:
            if dn != d and dn.startswith(d) and dn[len(d):].isdigit():
                R[dn] = 1
                r.label('sibling:dim+digits(reduced)')
    for dn in m.dims:
        if dn in R or d not in dn:
            continue
        rest = dn[len(d):] if dn.startswith(d) else None
        if rest is None:
            r.label('sibling:text+dim')
        elif rest[:1].isdigit():
            r.label('sibling:dim+digits+text')
        else:
            r.label('sibling:dim+text')
    rdim = {}
    for mv in m.vars.values():
        hit = [x for x in mv.dims if x in R]
        if len(hit) == 1:
            rdim[mv.name] = hit[0]
        elif len(hit) > 1:
            rdim[mv.name] = None      # not generated; not judged
    touched = [mv for mv in m.vars.values() if d in mv.dims]
    nt = any(mv.name not in rdim for mv in m.vars.values())
    if nt:
        r.label('var-lacking-dims')
    if newlen != n and entry == 'convolve_dim':
        nt = True
        r.label('length-changing-callable')
    for mv in touched:
        if mv.masked:
            r.label('masked-touched')
            if fd[0] == 'modred':
                r.label('modred-on-masked-variable')
                if np.ma.getmaskarray(mv.data).any():
                    nt = True
                    r.label('modred-with-masked-cells')
            i = list(mv.dims).index(d)
            if 0 < i < len(mv.dims) - 1:
                nt = True
                r.label('masked-middle-axis')
    r.nontrivial = nt
    if not ok:
        return r
    for msg in S.wellformed(out, 'result'):
        r.fail('result-malformed', msg, klass=entry)
    if r.failures:
        return r
    for dn, (l, u) in m.dims.items():
        if dn in R and entry == 'reduce_dim' and not any(
                dn in mv.dims for mv in m.vars.values()):
            continue    # legacy form drops a dimension no variable uses
        if dn not in out.dimensions:
            r.fail('dims', 'dimension %s missing' % dn, klass=entry)
            continue
        want = R[dn] if dn in R else l
        if len(out.dimensions[dn]) != want:
            r.fail('dims', 'dimension %s has length %d, expected %d' % (
                dn, len(out.dimensions[dn]), want), klass=entry)
    if r.failures:
        return r
    for name, mv in m.vars.items():
        if name not in out.variables:
            r.fail('var-names', 'variable %s missing' % name, klass=entry)
            continue
        ov = out.variables[name]
        what = '%s: variable %s%r' % (entry, name, mv.dims)
        if mv.masked:
            # these forms copy through Pseudo2NetCDF, which stores masked
            # cells as the declared fill value (the netCDF convention); a
            # cell that should be masked may therefore be unmasked and hold
            # the variable's fill value
            la = A.plain(ov[...])
            fv = getattr(ov, 'fill_value', getattr(ov, '_FillValue', None))
            if fv is not None and np.shape(la) == np.shape(mv.data):
                asfill = np.ma.getmaskarray(mv.data) & (
                    np.asarray(np.ma.getdata(la)) == fv)
                if (asfill & ~np.ma.getmaskarray(la)).any():
                    r.label('masked-cells-stored-as-fill')
                ov = np.ma.MaskedArray(np.asarray(np.ma.getdata(la)),
                                       mask=np.ma.getmaskarray(la) | asfill)
        if name not in rdim:
            msg = S.cmp_array(ov, mv.data, 'untouched ' + what, bits=True)
            if msg:
                r.fail('untouched-data', msg, klass=entry)
            continue
        if rdim[name] is None:
            continue
        ax = list(mv.dims).index(rdim[name])
        tol = tolerances(np.float32 if mv.data.dtype.kind != 'f'
                         else mv.data.dtype, mv.data, [[d, fd]])
        cands = []
        with np.errstate(all='ignore'):
            if entry == 'reduce_dim':
                cands.append(model_step(mv.data, ax, fd))
                if mv.data.dtype.kind in 'iu':
                    # (result dtype is not judged: a chain of fuzzy
                    # reductions may store it in the variable's own
                    # integer type, truncated like numpy assignment)
                    c2, okc = cast_to(cands[0], mv.data.dtype)
                    if okc:
                        cands.append(c2)
            elif mv.masked:
                for prop in (True, False):
                    cands.append(apply_1d(mv.data, ax, lambda x: np.ma.convolve(
                        w32, x, mode=fd[1], propagate_mask=prop)))
            else:
                cands.append(apply_1d(mv.data, ax, lambda x: np.convolve(
                    w32, x, mode=fd[1])))
        first = None
        for exp in cands:
            if entry == 'convolve_dim':
                exp, comparable = cast_to(exp, mv.data.dtype)
                if not comparable:
                    continue
            intres = np.ma.getdata(exp).dtype.kind in 'iu'
            msg = S.cmp_array(ov, exp, what, check_dtype=False,
                              **(dict(bits=True) if intres and
                                 np.asarray(np.ma.getdata(
                                     ov[...])).dtype.kind in 'iu'
                                 else dict(bits=False, rtol=tol[0],
                                           atol=tol[1])))
            if not msg:
                first = None
                break
            if first is None:
                first = msg
        if first:
            clause = 'string-form-mask' if 'mask differs' in first \
                else 'string-form-values'
            r.fail(clause, first, klass=entry + '/' +
                   ('masked' if mv.masked else 'plain'))
    return r


def check_ioapi(case):
    """ioapi_base.applyAlongDimensions on a gridded IOAPI file, optionally
    after sliceDimensions(TSTEP=[index list]) (irregular time axis).  Judged:
    lengths of TSTEP/LAY/ROW/COL, the data of the listed variables, and
    every variable that lacks all named dimensions - TFLAG included - which
    must be bit-identical to the input file's.  Other metadata belong to
    C10."""
    from .. import ioapispec
    r = Result()
    sp = case['ioapi']
    tsel = case.get('tsel')
    fl = [[d, list(fd)] for d, fd in case['funcs']]
    fmap = S.OD((d, fd) for d, fd in fl)
    r.label('entry:ioapi', 'route:' + sp['route'], 'ndims:%d' % len(fl))
    r.label(*['f:' + (fd[0] if fd[0] != 'red' else 'red:' + fd[1])
              for d, fd in fl])
    f = ioapispec.build(sp)
    dims = ioapispec.STD_DIMS[1]
    shape = list(ioapispec.var_shape(sp))
    if tsel:
        irregular = len(set(np.diff(tsel).tolist())) > 1 or tsel[0] != 0 \
            or (len(tsel) > 1 and tsel[1] - tsel[0] != 1)
        r.label('time-axis:' + ('irregular' if len(set(
            np.diff(tsel).tolist())) > 1 else 'index-list'))
        ok, f = guard(r, 'ioapi-slice-raises',
                      lambda: f.sliceDimensions(TSTEP=list(tsel)))
        if not ok:
            # selecting the time steps is C02/C11 business: not judged here
            r.failures.pop()
            r.rejected = True
            return r
        shape[0] = len(tsel)
    else:
        r.label('time-axis:regular')
    form = case.get('form', 'plain')
    r.label('form:' + form)
    kw = S.OD((d, dict_form(fd) if form == 'dict' and fd[0] != 'red'
               else lib_func(fd)) for d, fd in fl)
    if 'LAY' in fmap:
        r.label('LAY-named:' + ('reducer' if fmap['LAY'][0] == 'red'
                                else 'callable'))
        if form == 'dict' and fmap['LAY'][0] in ('sub', 'diffn', 'win'):
            r.label('LAY-dictform-length-option')
    dl = dict(zip(dims, shape))
    # variables of the INPUT that lack every named dimension
    before = S.OD()
    for k_, v_ in f.variables.items():
        if not any(d in fmap for d in v_.dimensions):
            before[k_] = (tuple(v_.dimensions), A.plain(v_[...]))
    if 'TFLAG' in before:
        r.label('TFLAG-lacks-named-dims')
        if any(fd[0] == 'red' for d, fd in fl):
            r.label('TFLAG-lacks-dims+named-reducer')
    r.nontrivial = any(fd[0] != 'red' and out_len(fd, dl[d]) != dl[d]
                       for d, fd in fl) or len(fl) >= 2 or bool(before)
    ok, out = guard(r, 'apply-raises',
                    lambda: f.applyAlongDimensions(**kw))
    if not ok:
        r.failures[-1].klass = 'ioapi'
        return r
    for d in dims:
        want = out_len(fmap[d], dl[d]) if d in fmap else dl[d]
        if d not in out.dimensions or len(out.dimensions[d]) != want:
            r.fail('dims', 'ioapi: dimension %s has length %s, expected %d'
                   % (d, len(out.dimensions[d]) if d in out.dimensions
                      else None, want), klass='ioapi')
    if r.failures:
        return r
    # the wrapper recomputes the vertical level edges: one more edge than
    # layers (only the COUNT is asserted; the values are C10's business)
    nl = len(out.dimensions['LAY'])
    vg = np.atleast_1d(np.asarray(getattr(out, 'VGLVLS', [])))
    if vg.size != nl + 1:
        r.fail('ioapi-vglvls-count', 'ioapi: %d layers but VGLVLS has %d '
               'edges %s' % (nl, vg.size, vg.tolist()), klass='ioapi')
    if int(getattr(out, 'NLAYS', -1)) != nl:
        r.fail('ioapi-nlays', 'ioapi: NLAYS=%r, LAY has %d' % (
            getattr(out, 'NLAYS', None), nl), klass='ioapi')
    for name, (vd, arr) in before.items():
        if name not in out.variables:
            r.fail('var-names', 'ioapi: variable %s missing' % name,
                   klass='ioapi')
            continue
        msg = S.cmp_array(out.variables[name], arr,
                          'ioapi: untouched variable %s%r' % (name, vd),
                          bits=True)
        if msg:
            r.fail('untouched-data', msg, klass='ioapi/' + (
                'TFLAG' if name == 'TFLAG' else 'other'))
    for name in sp['vars']:
        if name not in out.variables:
            r.fail('var-names', 'ioapi: variable %s missing' % name)
            continue
        data = ioapispec.data_of(sp, name)
        if tsel:
            data = data[list(tsel)]
        mv = S.MVar(name, dims, data, S.OD())
        axes = [(i, d) for i, d in enumerate(dims) if d in fmap]
        if axes:
            judge_var(r, name, mv, out.variables[name], axes, fmap)
    return r


_OPEN = []      # disk-backed inputs of the running case: (file, path)


def _input(case, r, m):
    """the library file of a case: built in memory, or (case['disk']) saved
    as netCDF and reopened with the netcdf class.  The model of a reopened
    file holds the declared fill value under masked cells, as the file does
    (only functions that ignore masks can see it)."""
    f = S.build_file(case['file'])
    if not case.get('disk'):
        r.label('input:memory')
        return f
    g, path = A.reopen(f)
    _OPEN.append((g, path))
    r.label('input:netcdf-reopened')
    for mv in m.vars.values():
        if mv.masked and mv.fill is not None:
            mv.data = mv.data.copy()
            d_ = np.ma.getdata(mv.data)
            d_[np.ma.getmaskarray(mv.data)] = mv.fill
            if np.ma.getmaskarray(mv.data).any():
                r.label('netcdf-input-with-missing-cells')
    return g


def check_case(case):
    try:
        return _check_case(case)
    finally:
        while _OPEN:
            A.close_disk(*_OPEN.pop())


def _check_case(case):
    if case.get('entry', 'method') == 'ioapi':
        return check_ioapi(case)
    if case.get('entry', 'method') != 'method':
        return check_string_form(case)
    r = Result()
    fs = case['file']
    m = S.model_of(fs)
    f = _input(case, r, m)
    fl = [[d, list(fd)] for d, fd in case['funcs']]
    fmap = S.OD((d, fd) for d, fd in fl)
    form = case.get('form', 'plain')

    def kwargs(order):
        kw = S.OD()
        for d in order:
            fd = fmap[d]
            lf = lib_func(fd)
            if form == 'dict' and fd[0] != 'red':
                # documented: "a dictionary ... must include func1d as a
                # function and any keyword arguments as additional options"
                lf = dict_form(fd)
            kw[d] = lf
        return kw

    # ---- labels / non-triviality
    r.label('entry:method', 'form:' + form, 'ndims:%d' % len(fl))
    kinds = [fd[0] if fd[0] != 'red' else 'red:' + fd[1] for d, fd in fl]
    r.label(*['f:' + k for k in kinds])
    nt = False
    for d, fd in fl:
        n = m.dims[d][0]
        if fd[0] != 'red' and out_len(fd, n) != n:
            nt = True
            r.label('length-changing-callable')
        if out_len(fd, n) == 0:
            r.label('length-0-output')
        if m.dims[d][1]:
            r.label('unlimited-dim-named')
        if d in m.vars:
            r.label('coordvar-on-named-dim')
    touched_any = False
    for mv in m.vars.values():
        axes = [i for i, d in enumerate(mv.dims) if d in fmap]
        if not axes:
            nt = True
            r.label('var-lacking-dims')
            continue
        touched_any = True
        if len(axes) >= 2:
            r.label('var-multi-axis')
        if len(set(mv.dims)) < len(mv.dims):
            r.label('var-repeated-named-dim')
        if mv.masked:
            r.label('masked-touched')
            if any(0 < i < len(mv.dims) - 1 for i in axes):
                nt = True
                r.label('masked-middle-axis')
            if any(fmap[mv.dims[i]][0] != 'red' for i in axes):
                r.label('masked-callable')
        if mv.data.dtype.kind == 'i':
            r.label('int-touched')
    if not touched_any:
        r.label('no-var-touched')
    r.nontrivial = nt

    order = [d for d, fd in fl]
    ok, out = guard(r, 'apply-raises',
                    lambda: f.applyAlongDimensions(**kwargs(order)),
                    )
    if not ok:
        r.failures[-1].klass = 'form=' + form
        return r
    for msg in S.wellformed(out, 'result'):
        r.fail('result-malformed', msg)
    if r.failures:
        return r
    # ---- dimensions
    want = {}
    for d, (n, u) in m.dims.items():
        want[d] = (out_len(fmap[d], n) if d in fmap else n, u)
    for msg in A.cmp_dims(out, want, 'result'):
        r.fail('dims', msg)
    if set(out.variables.keys()) != set(m.vars.keys()):
        r.fail('var-names', 'variables %r, expected %r' % (
            sorted(out.variables.keys()), sorted(m.vars.keys())))
        return r
    msg = S.cmp_attrs(out, m.gattrs, 'file')
    if msg:
        r.fail('global-attrs', msg)
    # ---- variables
    for name, mv in m.vars.items():
        ov = out.variables[name]
        if tuple(ov.dimensions) != tuple(mv.dims):
            r.fail('var-dims', 'variable %s has dimensions %r, expected %r' %
                   (name, tuple(ov.dimensions), mv.dims))
            continue
        axes = [(i, d) for i, d in enumerate(mv.dims) if d in fmap]
        if not axes:
            msg = S.cmp_array(ov, mv.data, 'untouched variable %s%r' % (
                name, mv.dims), bits=True)
            if msg:
                r.fail('untouched-data', msg)
            msg = S.cmp_attrs(ov, mv.attrs, 'variable %s' % name,
                              skip=('fill_value', '_FillValue',
                                    'missing_value'))
            if msg:
                r.fail('untouched-attrs', msg)
            continue
        judge_var(r, name, mv, ov, axes, fmap)
    if r.failures:
        return r
    # ---- keyword order of one commuting reducer
    reds = set(fd[1] for d, fd in fl if fd[0] == 'red')
    allred = all(fd[0] == 'red' for d, fd in fl)
    if allred and len(reds) == 1 and len(fl) >= 2 and form == 'plain':
        red = list(reds)[0]
        anymasked = any(mv.masked for mv in m.vars.values())
        if red in COMMUTING or (red == 'mean' and not anymasked):
            r.label('commuting-order-checked')
            ok, out2 = guard(r, 'apply-raises',
                             lambda: f.applyAlongDimensions(
                                 **kwargs(order[::-1])))
            if ok:
                for name, mv in m.vars.items():
                    a = A.plain(out.variables[name][...])
                    tol = tolerances(a.dtype, mv.data, fl)
                    kw = dict(bits=True) if tol is None or red in (
                        'min', 'max') else dict(bits=False, rtol=tol[0],
                                                atol=tol[1])
                    msg = S.cmp_array(out2.variables[name], a,
                                      'variable %s under reversed keyword '
                                      'order' % name, **kw)
                    if msg:
                        r.fail('keyword-order', msg, klass=red)
    return r


def judge_var(r, name, mv, ov, axes, fmap):
    dtype = mv.data.dtype
    allred = all(fmap[d][0] == 'red' for i, d in axes)
    fl = [[d, fmap[d]] for i, d in axes]
    tol = tolerances(dtype, mv.data, fl)
    what = 'variable %s%r' % (name, mv.dims)
    klass = ('masked' if mv.masked else 'plain') + '/' + \
        '+'.join(sorted(set(fmap[d][0] for i, d in axes)))
    got = A.plain(ov[...])
    gd = np.asarray(np.ma.getdata(got))
    kw = dict(bits=True) if tol is None else dict(
        bits=False, rtol=tol[0], atol=tol[1])
    pre = 'reducer' if allred else 'callable'
    first = None
    ncomp = 0
    for perm in itertools.permutations(axes):
        cur = mv.data
        with np.errstate(all='ignore'):
            for i, d in perm:
                cur = model_step(cur, i, fmap[d])
        exp, comparable = cast_to(cur, dtype)
        if gd.shape != np.ma.getdata(exp).shape:
            r.fail('shape', '%s: shape %r, expected %r' % (
                what, gd.shape, np.ma.getdata(exp).shape), klass=klass)
            return
        if gd.dtype != dtype:
            r.fail('dtype', '%s: dtype %s, expected %s' % (
                what, gd.dtype, dtype), klass=klass)
            return
        if not comparable:
            # a float result outside the integer range has no defined
            # conversion; the library may have followed this order, so the
            # variable is not judged at all
            r.label('int-overflow-not-compared')
            return
        ncomp += 1
        msg = S.cmp_array(got, exp, what, **kw)
        if not msg:
            return
        if first is None:
            clause = pre + ('-mask' if 'mask differs' in msg else '-values')
            first = (clause, msg)
    if first:
        r.fail(first[0], first[1], klass=klass)


# ------------------------------------------------------------------ findings
known.register('C03-dictform-typeerror',
               lambda spec, f: spec.get('form') == 'dict' and
               f.clause == 'apply-raises' and f.where.startswith(
                   'TypeError@core/_files.py:applyAlongDimensions'))
known.register('C03-convolve_dim-masked-data',
               lambda spec, f: spec.get('entry') == 'convolve_dim' and
               f.clause in ('string-form-mask', 'string-form-values') and
               f.klass == 'convolve_dim/masked')


def _has_fuzzy_sibling(spec):
    d = spec['funcs'][0][0]
    return any(x[0] != d and x[0].startswith(d) and x[0][len(d):].isdigit()
               for x in spec['file']['dims'])


known.register('C03-reduce_dim-fuzzy-chain-mask-lost',
               lambda spec, f: spec.get('entry') == 'reduce_dim' and
               _has_fuzzy_sibling(spec) and
               f.clause in ('string-form-mask', 'string-form-values') and
               f.klass == 'reduce_dim/masked')
