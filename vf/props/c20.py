"""C20 - ARL packed-bit: packing error bound, unpack inverts pack, reader on
reference-encoded files.

Field level: pack2d / unpack of noaafiles/_arl.py on generated 2-D fields,
judged by an independent REAL*4 re-computation of the ARL PAKOUT formula in
Python (vf/ref/arl_ref.py).  File level: lat-lon ARL files written by the
reference encoder, read by arlpackedbit; the (always failing, see findings)
writer is run too.  See RULE."""
import datetime
import gc
import math
import os
import shutil

import numpy as np
from hypothesis import strategies as st

from ..core import Result, Reject, guard
from ..ref import arl_ref as A
from .. import libstate
from .. import known

ID = 'C20'
LEVEL = 'exploration'
RULE = (
    'Rule-generated long ramps (family long-ramp: monotone staircases of '
    '100-127 steps per cell over 280-600 cells along x, down the first '
    'column, or diagonal, so that the running step count passes 2^15) are '
    'drawn (~1/12 of the field cases, ~1/10 of the file cases on 300-600 x '
    '3-4 grids) and enumerated in every run.  '
    'Hypothesis, field level (~94% of cases): fields handed to pack2d as '
    'float32 or float64 arrays (family offset64: float64 values that are '
    'not float32-representable, offset + gradient finer than the float32 '
    'spacing); the format stores REAL*4, so VAR1, the bound, the byte '
    'formula and the wrap test are all taken relative to the float32 image '
    'of the input; ny 1-8 x nx '
    '2-16 (|x| <= 1e30, largest neighbour difference 0 or >= 1e-30) from '
    'families random (k/1000 x 10^e, e -27..30), offset (large base + '
    'small variation), constant, integer multiples of 2^k, maxdiff (largest '
    'neighbour difference D = 2^k(1-2^-24), 2^k, 2^k(1+2^-23), k in -20..20,'
    ' alternating +-D along rows / down the first column), carry (a cell '
    'placed f quantisation steps from its neighbour, f in {0.5, 0.5+-2^-n, '
    '0.25, ...}, followed by a jump of +-D; along a row or down the first '
    'column).  Oracle: VAR1 = x[0,0] bit-exact and unpack(...)[0,0] = x[0,0]'
    ' bit-exact; every stored byte equals the unwrapped integer '
    'INT((x-rold)*2^(7-NEXP)+127.5) re-computed in Python with REAL*4 '
    'rounding at each operation, rold following the stored bytes (an integer'
    ' outside 0..255 = wrap-around); KSUM = sum(bytes) mod 255 or the '
    'rotating sum: "checksum equal to the byte sum" can only mean '
    'congruence (hundreds of bytes, three digits); the ARL routine the '
    'module transcribes in its ORIGINAL SERIAL CODE comments folds with '
    'end-around carry (255 for non-zero multiples of 255), the vector code '
    'takes sum % 255 (0), the reader never verifies it - the statement does '
    'not choose the representative of class 0, so both are accepted; fields '
    'with byte sums that are exact multiples of 255 are generated on purpose'
    ' (family ksum255) and the returned value is recorded in the labels; PREC = 2^NEXP/254 (rtol 1e-6);'
    ' |unpack(pack(x)) - x| <= 2*PREC = 2^(NEXP-7)*256/254 element-wise '
    '(the weaker of "one step" and "twice the recorded precision"; float64 '
    'compare of REAL*4 values); first element equal (-0.0 == 0.0).  An '
    'enumeration of the carry construction (k -3..3 x f x signs x D variant '
    'x row/column) is replayed in every run.  File level (~6%): lat-lon ARL files (GRIDX 0) nx, ny '
    '17-24 (a tenth of them, and two enumerated files, with >= 1000 cells on '
    'one side and 3-5 on the other: 1003x4, 4x1003, 3x2001, ...), 1-4 times (gaps 1..744 h: sub-daily, one day, several days, '
    'month/year ends), 2-4 levels (sigma / pressure / '
    'height text), 1-3 surface and 1-3 upper variables (per-level lists: '
    'uniform, fewer names aloft, a name appearing only on a higher level - '
    'also above a level that merely repeats names from below -, differing '
    'order within a level), fields base + amp * '
    'pattern, written by the struct-only reference encoder; arlpackedbit('
    'file) - in 2/3 of the file cases after a second ARL file with another '
    'level table has been opened (kept open or dropped) in between -: data '
    'variable set = surface names + union of the upper-level '
    'names (each variable on exactly the levels that carry it), z = level heights, '
    'SFCVGLVL, times (yy mm dd hh of every index label; the time variable '
    '= exact hours since the first record with that reference instant; '
    'getTimes() = the encoded instants), shapes, every '
    'field within 2^(NEXP-7) of the reference REAL*4 decode of the file '
    'and of the encoded values; writearlpackedbit(file read) judged by the '
    'reference decoder.  Non-trivial: largest difference within 2 ulp of a '
    'power of two, or nx >= 8, or a multi-time multi-level file.  Distinct '
    'by sha1 of the spec.')
ASSUMPTIONS = [
    'vf/ref/arl_ref.py (PAKOUT/PAKINP re-implemented with struct REAL*4 '
    'rounding; anchored on hand-computed examples, the repository has no ARL '
    'sample)',
    'projected grids need pyproj (absent): only lat-lon files are generated',
    'the index record fits in one record (50+nx*ny >= 158+LENH) and nx, ny '
    '>= 3 (implicit preconditions of the reader)',
]
BUDGET = {'quick': dict(examples=9600, max_s=240),
          'thorough': dict(examples=300000, max_s=3000)}

ULP = 2.0 ** -24


# ------------------------------------------------------------------ strategy
def _f(x):
    return A.f32(x)


@st.composite
def field_random(draw):
    ny = draw(st.integers(1, 8))
    nx = draw(st.integers(2, 16))
    # values k/1000 * 10^e: |x| <= 1e30, non-zero differences >= 1e-30
    e = draw(st.integers(-27, 30))
    scale = 10.0 ** e
    m = draw(st.lists(st.integers(-1000, 1000), min_size=ny * nx,
                      max_size=ny * nx))
    vals = [_f(scale * (v / 1000.0)) for v in m]
    return dict(kind='field', family='random', ny=ny, nx=nx,
                rows=[vals[j * nx:(j + 1) * nx] for j in range(ny)])


@st.composite
def field_offset(draw):
    ny = draw(st.integers(1, 8))
    nx = draw(st.integers(2, 16))
    base = draw(st.sampled_from([1.0, -1.0, 273.15, 101325.0, -5e5, 1e6,
                                 3.0e-3, 1e10, -7.5e20]))
    rel = 10.0 ** -draw(st.integers(1, 8))
    m = draw(st.lists(st.floats(-1, 1, allow_nan=False), min_size=ny * nx,
                      max_size=ny * nx))
    vals = [_f(base * (1.0 + rel * v)) for v in m]
    return dict(kind='field', family='offset', ny=ny, nx=nx,
                rows=[vals[j * nx:(j + 1) * nx] for j in range(ny)])


@st.composite
def field_offset64(draw):
    """float64 input that is not float32-representable: a large offset
    plus gradients finer than the float32 spacing at that offset, so that
    the float32 image moves in jumps the float64 array does not have"""
    ny = draw(st.integers(1, 8))
    nx = draw(st.integers(2, 16))
    base = draw(st.sampled_from([101325.0, 273.15, 1.0e6, 5.0e4, -8.5e3,
                                 1.0 + 1e-9]))
    ulp = abs(A.f32(base)) * 2.0 ** -23
    gx = ulp * draw(st.sampled_from([0.1, 0.25, 0.4, 0.6, 1.3, 0.0]))
    gy = ulp * draw(st.sampled_from([0.2, 0.19, 0.55, 1.0, 0.0]))
    if gx == 0 and gy == 0:
        gx = 2e-3
    rows = [[base + gx * i + gy * j for i in range(nx)] for j in range(ny)]
    return dict(kind='field', family='offset64', ny=ny, nx=nx, rows=rows,
                dtype='f8')


def ramp_rows(ny, nx, direction, sign, e, lo, seed, base=0.0):
    """rule-generated monotone ramp / staircase: every cell differs from
    its predecessor (along x, down the first column for 'y', both for
    'diag') by k quantisation steps of 2^e, lo <= k <= 127 with a
    deterministic jitter, so the running step count grows by ~lo..127 per
    cell for hundreds of cells; all values are exact REAL*4 numbers"""
    q = 2.0 ** e

    def k(idx):
        return lo + (idx * 7 + seed * 13 + (idx // 5) * 3) % (128 - lo)
    rows = []
    col = 0
    for j in range(ny):
        if direction in ('y', 'diag') and j:
            col += k(j)
        acc = col
        row = []
        for i in range(nx):
            if direction in ('x', 'diag') and i:
                acc += k(j * 31 + i)
            row.append(A.f32(base + sign * acc * q))
        rows.append(row)
    # the first step of the chain carries the largest difference so that the
    # exponent is the intended one (steps of exactly 2^e)
    return rows


@st.composite
def field_longramp(draw):
    direction = draw(st.sampled_from(['x', 'x', 'y', 'diag']))
    if direction == 'x':
        ny, nx = draw(st.integers(1, 3)), draw(st.integers(280, 600))
    elif direction == 'y':
        ny, nx = draw(st.integers(280, 600)), draw(st.integers(2, 3))
    else:
        ny, nx = draw(st.integers(150, 220)), draw(st.integers(90, 110))
    return dict(kind='field', family='long-ramp:' + direction,
                ramp=dict(ny=ny, nx=nx, dir=direction,
                          sign=draw(st.sampled_from([1, -1])),
                          e=draw(st.integers(-12, 12)),
                          lo=draw(st.sampled_from([100, 110, 120, 64])),
                          seed=draw(st.integers(0, 50)),
                          base=draw(st.sampled_from([0.0, 0.0, 1.0]))))


@st.composite
def field_constant(draw):
    ny = draw(st.integers(1, 8))
    nx = draw(st.integers(2, 16))
    c = _f(draw(st.sampled_from([0.0, 1.0, -1.0, 1e-30, 1e30, -3.5e7,
                                 273.15, 2.0 ** -100])))
    return dict(kind='field', family='constant', ny=ny, nx=nx,
                rows=[[c] * nx for j in range(ny)])


@st.composite
def field_ints(draw):
    ny = draw(st.integers(1, 8))
    nx = draw(st.integers(2, 16))
    k = draw(st.integers(-40, 40))
    lim = draw(st.sampled_from([1, 2, 127, 128, 129, 255, 256, 1000, 65536]))
    m = draw(st.lists(st.integers(-lim, lim), min_size=ny * nx,
                      max_size=ny * nx))
    vals = [_f(v * 2.0 ** k) for v in m]
    return dict(kind='field', family='ints', ny=ny, nx=nx,
                rows=[vals[j * nx:(j + 1) * nx] for j in range(ny)])


@st.composite
def field_ksum255(draw):
    """byte sum an exact multiple of 255 by design: constant fields with
    255*m cells (all bytes 127), or one row of whole steps 127+k whose last
    step is chosen to complete the multiple"""
    if draw(st.sampled_from([True, False])):
        ny, nx = draw(st.sampled_from([[17, 15], [51, 5], [85, 3], [51, 10],
                                       [255, 2], [15, 17]]))
        c = _f(draw(st.sampled_from([0.0, 1.0, -273.15, 5.0e4])))
        return dict(kind='field', family='ksum255:constant', ny=ny, nx=nx,
                    rows=[[c] * nx for j in range(ny)])
    nx = draw(st.integers(3, 16))
    e = draw(st.integers(-20, 20))
    ks = [0, draw(st.integers(64, 120))] + draw(st.lists(
        st.integers(-60, 60), min_size=nx - 3, max_size=nx - 3))
    tot = 127 * nx + sum(ks)
    last = (-tot) % 255
    if last > 127:
        last -= 255
    ks.append(last)
    vals = []
    acc = 0
    for k in ks:
        acc += k
        vals.append(_f(acc * 2.0 ** e))
    return dict(kind='field', family='ksum255:steps', ny=1, nx=nx,
                rows=[vals])


def _dmax(k, variant):
    if variant == 'below':
        return 2.0 ** k * (1.0 - 2.0 ** -24)
    if variant == 'at':
        return 2.0 ** k
    if variant == 'above':
        return 2.0 ** k * (1.0 + 2.0 ** -23)
    if variant == 'below2':
        return 2.0 ** k * (1.0 - 2.0 ** -23)
    return 2.0 ** k * (1.0 - 2.0 ** -8)       # 'safe'


@st.composite
def field_maxdiff(draw):
    ny = draw(st.integers(1, 8))
    nx = draw(st.integers(2, 16))
    k = draw(st.integers(-20, 20))
    variant = draw(st.sampled_from(['below', 'at', 'above', 'below2']))
    d = _dmax(k, variant)
    base = draw(st.sampled_from([0.0, 0.0, 1.0, -1.0, 0.5, 3.0])) * 2.0 ** k
    pattern = draw(st.sampled_from(['zigzag', 'zigzag-down', 'stairs',
                                    'column', 'one']))
    small = draw(st.lists(st.integers(-64, 64), min_size=ny * nx,
                          max_size=ny * nx))
    q = 2.0 ** (k - 9)
    rows = []
    for j in range(ny):
        row = []
        for i in range(nx):
            if pattern == 'zigzag':
                v = base + (d if i % 2 else 0.0)
            elif pattern == 'zigzag-down':
                v = base - (d if i % 2 else 0.0)
            elif pattern == 'stairs':
                up = min(i, 3)
                v = base + d * up - d * max(0, min(i - 3, 3))
            elif pattern == 'column':
                v = base + (d if j % 2 else 0.0) + small[j * nx + i] * q * (
                    1 if i else 0)
            else:
                v = base + small[j * nx + i] * q
                if (j, i) == (ny // 2, nx // 2):
                    v = rows_prev(row, rows, base) + d
            row.append(_f(v))
        rows.append(row)
    return dict(kind='field', family='maxdiff:' + variant, ny=ny, nx=nx,
                rows=rows)


def rows_prev(row, rows, base):
    if row:
        return row[-1]
    if rows:
        return rows[-1][0]
    return base


@st.composite
def field_carry(draw):
    """x[a] sits f steps away from the running value, the next cell jumps
    by the largest difference; nexp is the exponent the exact rule gives for
    that largest difference"""
    ny = draw(st.integers(1, 6))
    nx = draw(st.integers(3, 12))
    k = draw(st.integers(-12, 12))
    variant = draw(st.sampled_from(['below', 'below', 'at', 'above',
                                    'below2']))
    d = _dmax(k, variant)
    nexp = A.nexp_exact(_f(d))
    stp = 2.0 ** (nexp - 7)
    n = draw(st.integers(1, 12))
    frac = draw(st.sampled_from([0.5, 0.5, 0.5 - 2.0 ** -n, 0.5 + 2.0 ** -n,
                                 0.25, 0.75, 1.5, 0.5 - 2.0 ** -16, 0.0]))
    sign_c = draw(st.sampled_from([1.0, -1.0]))
    sign_d = draw(st.sampled_from([1.0, -1.0]))
    where = draw(st.sampled_from(['row', 'row', 'column']))
    pre = draw(st.integers(0, 3))       # plain cells before the carry cell
    base = draw(st.sampled_from([0.0, 0.0, 1.0, -2.0])) * 2.0 ** nexp
    seq = [base] * (pre + 1)
    seq.append(_f(seq[-1] + sign_c * frac * stp))
    seq.append(_f(seq[-1] + sign_d * d))
    more = draw(st.lists(st.sampled_from([0.0, 0.5, -0.5, 1.0, -1.0]),
                         min_size=0, max_size=4))
    for mfrac in more:
        seq.append(_f(seq[-1] + mfrac * d))
    rows = []
    if where == 'row':
        nx = max(nx, len(seq))
        row0 = seq + [seq[-1]] * (nx - len(seq))
        jj = draw(st.integers(0, ny - 1))
        for j in range(ny):
            rows.append(list(row0) if j == jj else [seq[0]] * nx)
    else:
        ny = len(seq)
        for j in range(ny):
            rows.append([seq[j]] * nx)
    return dict(kind='field', family='carry:' + variant, ny=len(rows),
                nx=len(rows[0]), rows=rows)


SFC = ['PRSS', 'T02M', 'U10M', 'V10M', 'SHGT', 'TPP6', 'MSLP', 'PBLH']
UPP = ['HGTS', 'TEMP', 'UWND', 'VWND', 'WWND', 'RELH', 'SPHU', 'TKEN']
LEVELSETS = [['1.0000', '0.9975', '0.9900', '0.9500'],
             ['   0.0', '1000.0', ' 925.0', ' 850.0'],
             ['0.0000', '  10.0', ' 250.0', '5000.0'],
             ['1.0000', '.99750', '.50000', '.00100'],
             ['    0.', ' 1000.', '  925.', '  500.'],
             # sigma levels below 1 with a non-zero fifth decimal
             ['1.0000', '.99715', '.50005', '.00123']]
TIMES0 = [[99, 12, 31, 21], [0, 2, 28, 18], [4, 2, 29, 0], [20, 6, 15, 12],
          [95, 10, 16, 23], [12, 12, 31, 22], [3, 1, 31, 23], [96, 2, 28, 0],
          [21, 11, 30, 6], [99, 12, 1, 0]]
GAPS = [1, 3, 6, 12, 24, 24, 27, 48, 72, 240, 744]


BIGGRIDS = [[1003, 4], [4, 1003], [1000, 5], [3, 2001], [2001, 3],
            [999, 4], [5, 1999]]


@st.composite
def file_case(draw):
    # a small share of grids with >= 1000 cells on one side (the thousands
    # of NX / NY travel in the two grid characters of the label)
    big = draw(st.sampled_from([False] * 9 + [True]))
    if draw(st.sampled_from([False] * 9 + [True])):
        # long ramps through the file route: one long side
        spec = draw(file_case_inner(nts=[1, 2], modes=['uniform'],
                                    nlevs=[2], nsfcs=[1], nupps=[1]))
        direction = draw(st.sampled_from(['x', 'y']))
        n = draw(st.sampled_from([300, 400, 520, 600]))
        m = draw(st.sampled_from([3, 4]))
        spec['nx'], spec['ny'] = (n, m) if direction == 'x' else (m, n)
        spec['ramp'] = dict(dir=direction, e=draw(st.integers(-6, 6)),
                            lo=draw(st.sampled_from([100, 110, 120])))
        return spec
    if big:
        spec = draw(file_case_inner(nts=[1, 2], modes=['uniform'],
                                    nlevs=[2], nsfcs=[1], nupps=[1, 2]))
        spec['nx'], spec['ny'] = draw(st.sampled_from(BIGGRIDS))
        return spec
    return draw(file_case_inner())


@st.composite
def file_case_inner(draw, nts=(1, 2, 2, 3, 3, 4), modes=None, nlevs=None,
                    nsfcs=(1, 2, 3), nupps=None):
    nt = draw(st.sampled_from(list(nts)))
    # per-level variable lists: 'uniform' (same names everywhere), 'fewer'
    # (upper levels drop trailing names, as GDAS/NAM files do), 'late' (a
    # name that first appears on a higher level, possibly above a level that
    # only repeats the names below), any order within a level
    mode = draw(st.sampled_from(modes or ['uniform', 'uniform', 'fewer',
                                          'late', 'late']))
    nlev = draw(st.sampled_from(nlevs or (
        [2, 3, 4] if mode == 'uniform' else [3, 4])))
    nsfc = draw(st.sampled_from(list(nsfcs)))
    nupp = draw(st.sampled_from(nupps or (
        [1, 2, 3] if mode == 'uniform' else [2, 3])))
    sfc = list(draw(st.permutations(SFC)))[:nsfc]
    upp = list(draw(st.permutations(UPP)))[:nupp]
    levels = draw(st.sampled_from(LEVELSETS))[:nlev]
    uplists = [list(upp) for k in range(nlev - 1)]
    if mode == 'fewer':
        j = draw(st.sampled_from(list(range(1, nlev - 1))))
        for k in range(1, nlev - 1):
            d = draw(st.sampled_from([1, nupp - 1])) if k == j else \
                draw(st.sampled_from([0, 1]))
            uplists[k] = upp[:nupp - d]
    elif mode == 'late':
        early = upp[:-1]
        late = upp[-1]
        uplists[0] = list(early)
        for k in range(1, nlev - 2):
            # a level that adds nothing new (repeats names from below)
            uplists[k] = list(draw(st.permutations(early)))[
                :draw(st.sampled_from([len(early), 1]))]
        top = [late] + list(draw(st.permutations(early)))[
            :draw(st.sampled_from([0, 1, len(early)]))]
        uplists[nlev - 2] = list(draw(st.permutations(top)))
    if draw(st.sampled_from([False, False, True])) and mode != 'fewer':
        # same names, different order within a level
        k = draw(st.sampled_from(list(range(nlev - 1))))
        if mode == 'uniform' or k > 0:
            uplists[k] = list(draw(st.permutations(uplists[k])))
    lenh = 108 + 8 + 8 * nsfc + sum(8 + 8 * len(u) for u in uplists)
    nx = draw(st.integers(17, 24))
    ny = draw(st.integers(17, 24))
    while nx * ny < 108 + lenh:
        ny += 1
    t0 = draw(st.sampled_from(TIMES0))
    ff = draw(st.sampled_from([0, 0, 3, 12]))
    base = datetime.datetime(1900 + t0[0] if t0[0] >= 69 else 2000 + t0[0],
                             t0[1], t0[2], t0[3])
    # gaps between consecutive index records: sub-daily, exactly one day,
    # more than a day, several days, a month
    gaps = [draw(st.sampled_from(GAPS)) for t in range(nt - 1)]
    times = []
    d = base
    for t in range(nt):
        if t:
            d = d + datetime.timedelta(hours=gaps[t - 1])
        times.append([d.year % 100, d.month, d.day, d.hour, ff])
    fields = []
    nrec = nt * (nsfc + sum(len(u) for u in uplists))
    for k in range(nrec):
        fields.append([draw(st.sampled_from([0.0, 273.0, 101325.0, -12.5,
                                             1e-4, 5.0e4])),
                       draw(st.sampled_from([0.0, 1.0, 30.0, 2500.0, 1e-6,
                                             0.015625])),
                       draw(st.integers(0, 1000))])
    return dict(kind='file', nx=nx, ny=ny, times=times, levels=levels,
                sfc=sfc, upper=upp, uplists=uplists,
                bystander=draw(st.sampled_from([None, 'open', 'closed'])),
                vsys=draw(st.sampled_from([1, 2, 3, 4])),
                synch=[draw(st.sampled_from([20.0, -30.5, 0.0])),
                       draw(st.sampled_from([-100.0, 0.0, 170.25]))],
                delta=[draw(st.sampled_from([1.0, 0.25, 2.5])),
                       draw(st.sampled_from([1.0, 0.25, 2.5]))],
                fields=fields)


def strategy(tier):
    fld = st.one_of(field_random(), field_random(), field_offset(),
                    field_constant(), field_ints(), field_maxdiff(),
                    field_maxdiff(), field_carry(), field_carry(),
                    field_ksum255(), field_offset64(), field_longramp())

    def with_dtype(args):
        spec, f8 = args
        if spec.get('kind') == 'field' and 'dtype' not in spec:
            spec = dict(spec, dtype='f8' if f8 else 'f4')
        return spec
    fld = st.tuples(fld, st.sampled_from([False, False, True])).map(
        with_dtype)
    return st.sampled_from(list(range(16))).flatmap(
        lambda n: file_case() if n == 0 else fld)


def enumerate_cases(tier):
    for nx, ny in ([1003, 4], [4, 1003]):
        yield _big_file(nx, ny)
    # long ramps (running step count beyond 2^15), field and file route
    for direction, ny, nx in (('x', 1, 520), ('x', 2, 300), ('y', 520, 2),
                              ('diag', 200, 100)):
        for sign in (1, -1):
            yield dict(kind='field', family='long-ramp:' + direction,
                       ramp=dict(ny=ny, nx=nx, dir=direction, sign=sign, e=-3,
                                 lo=110, seed=1, base=0.0))
    for nx, ny, direction in ((520, 3, 'x'), (3, 520, 'y')):
        f = _big_file(nx, ny)
        f['ramp'] = dict(dir=direction, e=-3, lo=110)
        yield f
    ks = range(-3, 4) if tier == 'quick' else range(-12, 13)
    for k in ks:
        for variant in ('below', 'below2', 'at', 'above'):
            d = A.f32(_dmax(k, variant))
            nexp = A.nexp_exact(d)
            stp = 2.0 ** (nexp - 7)
            for frac in (0.0, 0.5, 0.5 - 2.0 ** -10, 0.25):
                for sc in (1.0, -1.0):
                    for sd in (1.0, -1.0):
                        a = A.f32(sc * frac * stp)
                        seq = [0.0, a, A.f32(a + sd * d), A.f32(a + sd * d)]
                        yield dict(kind='field', family='carry:' + variant,
                                   ny=1, nx=4, rows=[seq])
                        yield dict(kind='field', family='carry:' + variant,
                                   ny=4, nx=2, rows=[[v, v] for v in seq])


def _big_file(nx, ny):
    return dict(kind='file', nx=nx, ny=ny, times=[[99, 12, 31, 21, 0]],
                levels=['   0.0', '1000.0'], sfc=['PRSS'], upper=['TEMP'],
                uplists=[['TEMP']], vsys=2, synch=[20.0, -100.0],
                delta=[0.25, 0.25],
                fields=[[101325.0, 2500.0, 1], [273.0, 30.0, 2]])


# ------------------------------------------------------------------ known
def _no_headroom(spec):
    """input class of C20-pack-no-headroom: the largest neighbour
    difference lies in the top 1/128 below a power of two (more than 127
    steps of the exponent the exact rule gives), or is an exact power of two
    (the REAL*4 log quotient may then come out just below the whole number
    and NEXP = log2(RMAX): exactly 128 steps)"""
    if spec.get('kind') == 'file':
        return False
    if 'rows' not in spec:
        return False
    rmax = A.rmax_of([[A.f32(v) for v in row] for row in spec['rows']])
    if rmax == 0:
        return False
    m, e = math.frexp(rmax)
    return m > 127.0 / 128.0 or m == 0.5


known.register(
    'C20-pack-no-headroom',
    lambda spec, f: _no_headroom(spec) and (
        (f.clause == 'byte-wrap' and f.klass == 'no-headroom') or
        (f.clause == 'bound' and f.klass in ('wrap+no-headroom',
                                             'no-headroom<=1.5'))))
known.register(
    'C20-writer-nx-over-999',
    lambda spec, f: spec.get('kind') == 'file' and
    (spec['nx'] >= 1000 or spec['ny'] >= 1000) and
    f.clause == 'written-layout')
known.register(
    'C20-writer-laykeys',
    lambda spec, f: spec.get('kind') == 'file' and f.clause == 'writer' and
    'ValueError@noaafiles/_arl.py:maparlpackedbit' in f.where)


# ------------------------------------------------------------------ oracle
def near_pow2(d):
    if d <= 0 or not math.isfinite(d):
        return False
    m, e = math.frexp(d)          # 0.5 <= m < 1
    return m <= 0.5 * (1 + 2 * 2.0 ** -23) or m >= 1.0 - 2 * 2.0 ** -24


def check_field(spec):
    r = Result()
    if 'ramp' in spec:
        g = spec['ramp']
        rows_in = ramp_rows(g['ny'], g['nx'], g['dir'], g['sign'], g['e'],
                            g['lo'], g['seed'], g.get('base', 0.0) *
                            2.0 ** (g['e'] + 7))
    else:
        rows_in = spec['rows']
    ny, nx = len(rows_in), len(rows_in[0])
    for row in rows_in:
        for v in row:
            if not math.isfinite(v):
                raise Reject()
    # the format stores REAL*4: everything is judged relative to the
    # float32 image of the caller's (possibly float64) array
    rows = [[A.f32(v) for v in row] for row in rows_in]
    if any(not math.isfinite(v) for row in rows for v in row):
        raise Reject()
    dtype = spec.get('dtype', 'f4')
    inexact = any(a != b for ra, rb in zip(rows, rows_in)
                  for a, b in zip(ra, rb))
    rmax = A.rmax_of(rows)
    # stated domain: magnitudes 1e-30..1e30 (of the values and of the
    # largest neighbour difference that fixes the scaling)
    if any(abs(v) > 1.0001e30 for row in rows for v in row) or \
            (rmax != 0 and rmax < 0.9999e-30):
        raise Reject()
    fam = spec.get('family', 'given')
    r.label('field', 'family:' + fam.split(':')[0])
    if ':' in fam:
        r.label(fam)
    if nx >= 8:
        r.label('nx>=8')
    if ny == 1:
        r.label('ny=1')
    np2 = near_pow2(rmax)
    if np2:
        r.label('rmax~2^k')
    if rmax == 0:
        r.label('rmax=0')
    elif rmax < 1e-10 or rmax > 1e10:
        r.label('extreme-magnitude')
    r.nontrivial = bool(np2 or nx >= 8)
    from PseudoNetCDF.noaafiles._arl import pack2d, unpack
    r.label('input:' + dtype)
    if inexact:
        r.label('input-not-float32-exact')
    x = np.array(rows, dtype='f4')
    xin = np.array(rows_in, dtype=dtype)
    ok, res = guard(r, 'pack-raises', lambda: pack2d(xin.copy()))
    if not ok:
        return r
    cvar, prec, nexp, var1, ksum = res
    # other fields of the same shape are packed before the first result is
    # looked at: results of earlier calls must not change
    npk = (int(abs(float(x[0, -1])) * 8) + nx) % 3
    for k in range(npk):
        guard(r, 'pack-raises', lambda: pack2d(
            (xin[::-1, ::-1] * (k + 2) + 1).copy()))
    r.label('packs-in-between=%d' % npk)
    b = np.asarray(cvar).view('uint8').reshape(ny, nx)
    nexp = int(nexp)
    # weaker of the two readings of the statement: one step 2^(NEXP-7) /
    # twice the recorded precision 2*2^NEXP/254
    stp = 2.0 ** (nexp - 7)
    bound = stp * 256.0 / 254.0
    r.label('nexp' + ('<0' if nexp < 0 else '>=0'))
    klass = 'rmax~2^k' if np2 else ''
    if float(np.abs(x.astype('f8') - float(x[0, 0])).max()) / stp > 32767:
        r.label('excursion>32767steps')
    # more than 127 steps of the recorded exponent: no room for the carried
    # half step
    tight = rmax * 2.0 ** (7 - nexp) > 127.0
    if tight:
        r.label('rmax>127steps')
    if not np.float32(var1) == x[0, 0]:
        r.fail('var1-exact', 'VAR1 %r, x[0,0] %r' % (var1, x[0, 0]))
    ic = A.icvals_following(rows, nexp, b.tolist())
    wrapped = [(j, i, ic[j][i], int(b[j, i])) for j in range(ny)
               for i in range(nx)
               if ic[j][i] is not None and not 0 <= ic[j][i] <= 255]
    if wrapped:
        r.label('wrap')
        j, i, want, got = wrapped[0]
        r.fail('byte-wrap', 'cell (%d,%d): the ARL formula gives integer %d,'
               ' stored byte %d (NEXP %d, rmax %r = %.4f steps, %d wrapped '
               'cells)' % (j, i, want, got, nexp, rmax,
                           rmax * 2.0 ** (7 - nexp), len(wrapped)),
               klass='no-headroom' if tight else 'headroom')
    diff = [(j, i, ic[j][i], int(b[j, i])) for j in range(ny)
            for i in range(nx)
            if ic[j][i] is not None and 0 <= ic[j][i] <= 255 and
            ic[j][i] != int(b[j, i])]
    if diff:
        j, i, want, got = diff[0]
        r.fail('byte-formula', 'cell (%d,%d): stored byte %d, the ARL '
               'formula gives %d (NEXP %d)' % (j, i, got, want, nexp),
               klass=klass)
    tot = int(b.astype('i8').sum())
    if tot % 255 == 0 and tot > 0:
        # both representatives of the class are accepted (see RULE); record
        # which one the packer returned
        r.label('bytesum%255==0', 'bytesum%%255==0:KSUM=%d' % int(ksum))
    if int(ksum) not in (tot % 255, A.rotating_sum(b.ravel().tolist())):
        r.fail('checksum', 'KSUM %r, byte sum %d (mod 255 = %d, rotating %d)'
               % (ksum, tot, tot % 255, A.rotating_sum(b.ravel().tolist())))
    wprec = (2.0 ** nexp) / 254.0
    if not abs(float(prec) - wprec) <= 1e-6 * wprec:
        r.fail('prec', 'PREC %r, 2^NEXP/254 = %r' % (prec, wprec))
    ok, u = guard(r, 'unpack-raises', lambda: unpack(
        np.asarray(cvar).reshape(1, ny, nx), np.array([var1], dtype='f4'),
        np.array([nexp], dtype='i4')))
    if not ok:
        return r
    u = np.asarray(u)
    if u.shape != (1, ny, nx):
        r.fail('unpack-shape', 'unpack gives shape %r' % (u.shape,))
        return r
    u = u[0]
    if not u[0, 0] == x[0, 0]:
        r.fail('first-exact', 'unpack(pack(x))[0,0] = %r, x[0,0] = %r' % (
            u[0, 0], x[0, 0]))
    err = np.abs(u.astype('f8') - x.astype('f8'))
    bad = np.argwhere(~(err <= bound))
    if len(bad):
        j, i = bad[0]
        r.label('bound-exceeded')
        worst = float(np.nanmax(err)) / stp
        if wrapped:
            bk = 'wrap+no-headroom' if tight else 'wrap'
        elif tight:
            bk = 'no-headroom<=1.5' if worst <= 1.5 * (1 + 1e-6) else \
                'no-headroom>1.5'
        else:
            bk = klass
        r.fail('bound', 'cell (%d,%d): |unpack(pack(x)) - x| = %g = %.4f '
               'steps > 2*PREC = %g (x=%r, unpacked=%r, NEXP %d, rmax %r = '
               '%.4f steps; %d cells, worst %.4f steps)' % (
                   j, i, err[j, i], err[j, i] / stp, bound, x[j, i], u[j, i],
                   nexp, rmax, rmax / stp, len(bad), worst), klass=bk)
    return r


# ------------------------------------------------------------------ files
def _pattern(i, j, seed):
    return (((i * 7 + j * 13 + seed * 31 + (i * j) % 5) % 17) - 8) / 8.0


def upper_lists(spec):
    """variable names per upper level (explicit lists; older replay files
    give the number of trailing names dropped per level instead)"""
    if spec.get('uplists'):
        return [list(u) for u in spec['uplists']]
    nupp = len(spec['upper'])
    drop = spec.get('drop') or [0] * (len(spec['levels']) - 1)
    return [spec['upper'][:nupp - d] for d in drop]


def upper_union(spec):
    """upper-level names in order of first appearance going up"""
    out = []
    for u in upper_lists(spec):
        for k in u:
            if k not in out:
                out.append(k)
    return out


def file_model(spec):
    nx, ny = spec['nx'], spec['ny']
    varlists = [spec['sfc']] + upper_lists(spec)
    fields = {}
    k = 0
    for ti in range(len(spec['times'])):
        for li, keys in enumerate(varlists):
            for key in keys:
                base, amp, seed = spec['fields'][k]
                k += 1
                if spec.get('ramp'):
                    # long monotone ramp (see ramp_rows), alternating sign
                    g = spec['ramp']
                    fields[(ti, li, key)] = ramp_rows(
                        ny, nx, g['dir'], 1 if k % 2 else -1, g['e'],
                        g['lo'], seed, 0.0)
                    continue
                fields[(ti, li, key)] = [
                    [A.f32(base + amp * _pattern(i, j, seed))
                     for i in range(nx)] for j in range(ny)]
    dlat, dlon = spec['delta']
    slat, slon = spec['synch']
    enc = dict(nx=nx, ny=ny, grid='99', source='VFRF', vsys=spec['vsys'],
               geo=dict(pollat=slat + dlat * (ny - 1),
                        pollon=slon + dlon * (nx - 1), reflat=dlat,
                        reflon=dlon, gridx=0.0, orient=0.0, tanlat=0.0,
                        synchx=1.0, synchy=1.0, synchlat=slat, synchlon=slon,
                        reserved=0.0), geo_nd=2,
               levels=spec['levels'], sfc=spec['sfc'],
               upper=upper_lists(spec),
               times=spec['times'], fields=fields)
    return enc, fields


def check_file(spec):
    r = Result()
    nt = len(spec['times'])
    nlev = len(spec['levels'])
    r.label('file', 'nt=%d' % nt, 'nlev=%d' % nlev,
            'nsfc=%d' % len(spec['sfc']), 'nupp=%d' % len(spec['upper']))
    r.nontrivial = bool(nt >= 2 and nlev >= 3)
    if nt >= 2 and nlev >= 3:
        r.label('multi-time-multi-level')
    if spec.get('bystander'):
        r.label('bystander:' + spec['bystander'])
    if spec.get('ramp'):
        r.label('file-long-ramp:' + spec['ramp']['dir'])
    if spec['nx'] >= 1000 or spec['ny'] >= 1000:
        r.label('grid>=1000:%dx%d' % (spec['nx'] // 1000, spec['ny'] // 1000))
    ul = upper_lists(spec)
    uniform = all(u == ul[0] for u in ul)
    if not uniform:
        r.label('ragged-levels')
    seen = list(ul[0])
    repeated = False
    for u in ul[1:]:
        new_ = [k for k in u if k not in seen]
        if new_:
            r.label('late-variable')
            if repeated:
                r.label('late-after-repeating-level')
        else:
            repeated = True
        seen += new_
    if any(sorted(u) == sorted(ul[0]) and u != ul[0] for u in ul[1:]) or \
            any([k for k in u if k in ul[0]] !=
                [k for k in ul[0] if k in u] for u in ul[1:]):
        r.label('level-order-varies')
    inst = [datetime.datetime(1900 + t[0] if t[0] >= 69 else 2000 + t[0],
                              t[1], t[2], t[3]) for t in spec['times']]
    span = (inst[-1] - inst[0]).total_seconds() / 3600.0
    if nt > 1:
        r.label('span<24h' if span < 24 else 'span=24h' if span == 24 else
                'span>24h')
        if span >= 72:
            r.label('span>=3d')
        if inst[-1].month != inst[0].month:
            r.label('month-rollover')
        if inst[-1].year != inst[0].year:
            r.label('year-rollover')
    t0 = spec['times'][0]
    if nt > 1 and spec['times'][-1][:3] != t0[:3]:
        r.label('day-rollover')
    enc, fields = file_model(spec)
    try:
        buf, info = A.encode(enc)
        dec = A.decode(buf)
    except A.FormatError:
        raise Reject()
    base = libstate.scratch_path('_c20')
    os.makedirs(base)
    path = os.path.join(base, 'in.arl')
    with open(path, 'wb') as fo:
        fo.write(buf)
    f = fb = None
    try:
        from PseudoNetCDF.noaafiles._arl import (arlpackedbit,
                                                 writearlpackedbit)
        ok, f = guard(r, 'reader-open', lambda: arlpackedbit(path))
        if not ok:
            return r
        # bystander: another ARL file with a different level table is opened
        # (and kept open or dropped) before anything is read from the file
        # under test; nothing read from the first file may depend on it
        if spec.get('bystander'):
            bspec = bystander_spec(spec)
            benc, _ = file_model(bspec)
            bbuf, _ = A.encode(benc)
            bpath = os.path.join(base, 'bystander.arl')
            with open(bpath, 'wb') as fo:
                fo.write(bbuf)
            okb, fb = guard(r, 'bystander-open', lambda: arlpackedbit(bpath))
            if okb:
                guard(r, 'bystander-read', lambda: np.asarray(
                    fb.variables[bspec['upper'][0]][...]))
                if spec['bystander'] == 'closed':
                    fb = None
                    gc.collect()
        want = spec['sfc'] + upper_union(spec)
        got = [k for k in f.variables.keys()
               if k not in ('x', 'y', 'x_bounds', 'y_bounds', 'time', 'z',
                            'crs')]
        if sorted(got) != sorted(want):
            r.fail('reader-varlist', 'variables %r, file holds %r' %
                   (got, want))
        ok, z = guard(r, 'reader-levels',
                      lambda: np.asarray(f.variables['z'][...]))
        if ok:
            wz = np.array([float(t) for t in spec['levels'][1:]], dtype='f4')
            if z.shape != wz.shape or not np.array_equal(z.astype('f4'), wz):
                r.fail('reader-levels', 'z = %r, level heights %r' %
                       (z.tolist(), wz.tolist()))
            if float(getattr(f, 'SFCVGLVL', np.nan)) != \
                    float(spec['levels'][0]):
                r.fail('reader-levels', 'SFCVGLVL %r, surface height %r' % (
                    getattr(f, 'SFCVGLVL', None), spec['levels'][0]))
        ok, tm = guard(r, 'reader-times', lambda: _times(f))
        if ok:
            wt = [tuple(t[:4]) for t in spec['times']]
            gt = [(d.year % 100, d.month, d.day, d.hour) for d in tm]
            if gt != wt:
                r.fail('reader-times', 'times %r, index labels %r' % (gt, wt))
        # every decoded time value, exactly: hours since the first index
        # record (two-digit years read the POSIX way, 69-99 -> 19xx)
        ok, hv = guard(r, 'reader-time-values', lambda: (
            np.asarray(f.variables['time'][...]).astype('f8').tolist(),
            str(f.variables['time'].units)))
        if ok:
            whours = [(d - inst[0]).total_seconds() / 3600.0 for d in inst]
            wunits = inst[0].strftime('hours since %Y-%m-%d %H:%M:%S')
            if hv[0] != whours or hv[1].strip() != wunits:
                r.fail('reader-time-values', 'time = %r %r, encoded instants '
                       'are %r hours after %s' % (hv[0], hv[1], whours,
                                                  wunits))
        ok, gt2 = guard(r, 'reader-gettimes', lambda: list(f.getTimes()))
        if ok:
            got = [(d.year, d.month, d.day, d.hour, d.minute, d.second)
                   for d in gt2]
            wantt = [(d.year, d.month, d.day, d.hour, 0, 0) for d in inst]
            if got != wantt:
                r.fail('reader-gettimes', 'getTimes() %r, encoded instants '
                       '%r' % (got, wantt))
        for key in want:
            sfc = key in spec['sfc']
            ok, arr = guard(r, 'reader-getvar',
                            lambda: np.asarray(f.variables[key][...]))
            if not ok:
                continue
            present = [0] if sfc else [
                li + 1 for li, ks in enumerate(upper_lists(spec))
                if key in ks]
            shape = (nt, spec['ny'], spec['nx']) if sfc else \
                (nt, len(present), spec['ny'], spec['nx'])
            if arr.shape != shape:
                r.fail('reader-shape', '%s has shape %r, expected %r' %
                       (key, arr.shape, shape))
                continue
            for ti in range(nt):
                for pi, li in enumerate(present):
                    rec = dec['times'][ti]['records'][(li, key)]
                    bound = A.step(rec['label']['nexp'])
                    a = arr[ti] if sfc else arr[ti, pi]
                    ref = np.array(rec['values'], dtype='f8')
                    err = np.abs(a.astype('f8') - ref)
                    if not (err <= bound).all():
                        j, i = np.argwhere(~(err <= bound))[0]
                        r.fail('reader-bound', '%s time %d level %d cell '
                               '(%d,%d): read %r, reference decode %r, '
                               '2^(NEXP-7) = %g' % (key, ti, li, j, i,
                                                    a[j, i], ref[j, i],
                                                    bound))
                        continue
                    src = np.array(fields[(ti, li, key)], dtype='f8')
                    err = np.abs(a.astype('f8') - src)
                    # VAR1 is stored with 8 digits: allow its rounding
                    tol = bound + 1e-7 * abs(float(src[0, 0]))
                    if not (err <= tol).all():
                        j, i = np.argwhere(~(err <= tol))[0]
                        r.fail('reader-bound-src', '%s time %d level %d cell '
                               '(%d,%d): read %r, encoded value %r, bound %g'
                               % (key, ti, li, j, i, a[j, i], src[j, i], tol))
        # ---- writer direction (observe_at): judged by the reference decoder
        # (the writer takes one z coordinate for all upper variables, so
        # files with level-dependent variable lists are outside its domain)
        if not r.failures and uniform:
            opath = os.path.join(base, 'out.arl')
            ok, _ = guard(r, 'writer', lambda: writearlpackedbit(f, opath))
            if ok:
                check_written(r, spec, dec, fields, opath)
    finally:
        f = fb = None
        gc.collect()
        shutil.rmtree(base, ignore_errors=True)
    return r


def bystander_spec(spec):
    """a small second file: same first upper variable name, but two levels
    from a level set whose heights differ from the file under test"""
    other = [ls for ls in LEVELSETS if ls[1] != spec['levels'][1]][
        len(spec['sfc']) % (len(LEVELSETS) - 1)]
    up = upper_union(spec)[0]
    return dict(kind='file', nx=17, ny=17, times=[spec['times'][0]],
                levels=other[:2], sfc=[spec['sfc'][0]], upper=[up],
                uplists=[[up]], vsys=spec['vsys'], synch=spec['synch'],
                delta=spec['delta'], fields=[[0.0, 1.0, 1], [0.0, 1.0, 2]])


def _times(f):
    tv = f.variables['time']
    units = str(tv.units)
    ref = datetime.datetime.strptime(units.split('since ')[1][:19],
                                     '%Y-%m-%d %H:%M:%S')
    return [ref + datetime.timedelta(hours=float(h))
            for h in np.asarray(tv[...]).tolist()]


def check_written(r, spec, dec, fields, opath):
    with open(opath, 'rb') as fi:
        obuf = fi.read()
    try:
        out = A.decode(obuf)
    except (A.FormatError, ValueError, UnicodeDecodeError) as e:
        r.fail('written-layout', 'writer output is not an ARL file: %s' % e)
        return
    if len(out['times']) != len(dec['times']):
        r.fail('written-times', '%d time periods written, %d read' % (
            len(out['times']), len(dec['times'])))
        return
    for ti, (a, b) in enumerate(zip(out['times'], dec['times'])):
        la = [(float(h), [k for k, c in vs]) for h, vs in a['levels']]
        lb = [(float(h), [k for k, c in vs]) for h, vs in b['levels']]
        if la != lb:
            r.fail('written-levels', 'time %d: level/variable table %r, '
                   'expected %r' % (ti, la, lb))
            continue
        for key, rec in a['records'].items():
            bound = A.step(rec['label']['nexp']) + \
                A.step(b['records'][key]['label']['nexp'])
            va = np.array(rec['values'], dtype='f8')
            vb = np.array(b['records'][key]['values'], dtype='f8')
            if not (np.abs(va - vb) <= bound).all():
                r.fail('written-bound', 'time %d %r: written field differs '
                       'from the field read by more than the quantisation '
                       'steps' % (ti, key))
            if rec['checksum'] not in (A.rotating_sum(rec['data']),
                                       sum(rec['data']) % 255):
                r.fail('written-checksum', 'time %d %r: checksum %d' % (
                    ti, key, rec['checksum']))


def check_case(spec):
    if spec.get('kind') == 'file':
        return check_file(spec)
    return check_field(spec)
