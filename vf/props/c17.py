"""C17 - interpolation weights are linear-exact; conservative regridding
conserves column mass.

Entry points: coordutil.getinterpweights, PseudoNetCDFFile.interpDimension
(1-D coordinate and the multi-dimensional `coordkey` form),
coordutil.sigma2coeff, ioapi_base.interpSigma (linear and conserve).
Oracles are independent: a small piecewise-linear reference written here and
interval-overlap arithmetic for the conservative case (DESIGN 7 C17)."""
import numpy as np
from hypothesis import strategies as st

from ..core import Result, attempt, exc_where
from .. import known

ID = 'C17'
LEVEL = 'exploration'
TOL = 1e-9
RULE = (
    'Hypothesis over four case kinds.  weights: source xs (n=1..8) and '
    'targets (m=1..8) strictly monotonic in either direction, multiples of '
    '1/8, targets coincident with / interleaved between / outside the '
    'source, or the same-size grid shifted by 1/32..1/16 (mode shifted); in '
    '1/3 of the cases the whole axis is mapped to x0 + s*x with x0 in '
    '{1e5, 101325, 2451545, 946684800, 1640995200, +-2e9} and s in {0.25, '
    '1, 8, 60, 3600, 86400} (values large compared with the spacing, still '
    'exact in float64); the linear profile is a*(x-x0)/s+b so that the '
    '1e-9 x field-scale tolerance is not inflated by the coordinate size; getinterpweights(xs, nxs, extrapolate=False|True).  Oracle: '
    'shape (n,m), finite; extrapolate=False -> every weight >= 0; column '
    'sums 1 (1e-9); linear profiles a*x+b reproduced (1e-9 x scale) - for '
    'every target when extrapolating, for in-range targets otherwise, '
    'out-of-range targets give the end value (docstring); targets == source '
    '-> identity; a random field agrees with an independent piecewise-'
    'linear reference at in-range targets.  n=1: raise accepted and '
    'counted, a returned matrix must be all ones.  interpdim: in-memory '
    'file, 1-3 variables of rank 1-4 holding the interpolated dimension at '
    'any axis position plus a variable without it and the 1-D coordinate '
    'variable; interpDimension(dim, targets, extrapolate=...) must equal '
    'the reference applied along that axis (1e-9 x scale), the dimension '
    'gets length m, untouched variables are unchanged.  Variables are f8, '
    'f4, i4 or i2 with arbitrary or linear (a*x+b per column) profiles; '
    'the library keeps a variable\'s dtype (copyVariable + assignment casts '
    'the float result), so integer variables are compared with the float '
    'reference at +-1 unit (truncation/rounding of the cast), f4 at 1e-5 x '
    'scale; the dtype itself must be kept.  interpvars (core._functions, '
    'functional form): same files, weights = getinterpweights(xs, targets)'
    '.T in the documented (new, old) layout with new != old, oracle = those '
    'weights applied along the variable\'s axis (rank 1-4, any position; '
    'same tolerances), dimension length m, variables without the dimension '
    'unchanged.  coordkey: '
    'multi-dimensional coordinate variable with the data variable\'s '
    'dimensions, each column monotonic in its own direction; result per '
    'column equals the reference for in-range targets.  sigma: '
    'source/target sigma edges (1..8 layers each, multiples of 1/64, '
    'strictly decreasing, identical top and bottom, coincident and '
    'interleaved interior edges); sigma2coeff columns weighted by source '
    'thickness must sum to the target thickness and rows to 1 (1e-9); '
    'ioapi_base.interpSigma(conserve) on float64 fields: '
    'sum(v\' dsigma\') == sum(v dsigma) per column and constant in -> '
    'constant out (rtol 1e-6); interpSigma(linear) equals the reference on '
    'layer mid-points; vgtop argument absent / equal to the file VGTOP / '
    'different (10000, 7500, 2500, 0 Pa): target edges are drawn in the '
    'file\'s sigma coordinate and handed over converted by pressure equality '
    'p = vgtop + sigma (101325 - vgtop) (101325 Pa is the surface pressure '
    'the library assumes), the oracle converts the source the same way in '
    'float64 and allows rtol 1e-4 there because the library converts in the '
    'float32 precision of VGLVLS; 1-3 successive interpSigma calls on the '
    'SAME file object with different targets / interptypes / vgtop, every '
    'call judged against the original source.  gcsigma: the interpSigma of '
    'bpch_base and gcnc_base (linear only; conserve raises and is counted) '
    'on files built in memory with the variables they read (etai_pressure, '
    'or P0/hyai/hybi), vgtop 0 or 1600 Pa, extrapolate False/True, target '
    'grids incl. thin surface/top layers whose mid-points lie outside the '
    'source mid-points; oracle: sigma = (p - vgtop)/(p_surface - vgtop), '
    'reference interpolation between layer mid-points for a field, a 1-D '
    'profile, a profile linear in sigma and a constant (1e-9); the reduced-'
    'layer trick (weights[:nlay] for variables on a shorter layer dimension) '
    'is not judged.  Repeated dimension: in 1/3 of the interpdim, sigma and '
    'gcsigma files a variable K carries the interpolated dimension on two '
    'axes (K(z,z), K(a,z,z), K(z,a,z), K(LAY,LAY)); the operator must be '
    'applied along both (W^T K W; conserve: M^T K M with M the interval-'
    'overlap matrix).  Raises are counted, never violations (R3).  '
    'Non-trivial: interleaved edges/targets, or a non-leading interpolation '
    'axis, or a descending coordinate.  Distinct by sha1 of the case spec.')
ASSUMPTIONS = ['float64 arithmetic with dyadic inputs; tolerance 1e-9 '
               'relative to the field scale (1e-6 for the conservative '
               'integrals, as the property states)',
               'masked fields and the bpch/gcnc copies of interpSigma are '
               'outside the generated domain']
BUDGET = {'quick': dict(examples=9600, max_s=200),
          'thorough': dict(examples=400000, max_s=2400)}


# ------------------------------------------------------------------ reference
def ref_interp(xs, ys, t, extrapolate):
    """independent piecewise-linear interpolation of the points (xs, ys) at
    the scalar t; xs strictly monotonic in either direction.  Outside the
    range: the end segment's line (extrapolate) or the end value."""
    xs = [float(x) for x in xs]
    ys = [float(y) for y in ys]
    if xs[0] > xs[-1]:
        xs = xs[::-1]
        ys = ys[::-1]
    n = len(xs)
    if n == 1:
        return ys[0]
    if t <= xs[0]:
        if not extrapolate or t == xs[0]:
            return ys[0]
        i = 0
    elif t >= xs[-1]:
        if not extrapolate or t == xs[-1]:
            return ys[-1]
        i = n - 2
    else:
        i = 0
        while not (xs[i] <= t <= xs[i + 1]):
            i += 1
    w = (t - xs[i]) / (xs[i + 1] - xs[i])
    return ys[i] * (1 - w) + ys[i + 1] * w


def ref_along(xs, arr, axis, targets, extrapolate):
    arr = np.asarray(arr, dtype='d')
    moved = np.moveaxis(arr, axis, -1)
    out = np.empty(moved.shape[:-1] + (len(targets),), dtype='d')
    for ii in np.ndindex(moved.shape[:-1]):
        col = moved[ii]
        out[ii] = [ref_interp(xs, col, t, extrapolate) for t in targets]
    return np.moveaxis(out, -1, axis)


# ------------------------------------------------------------------ strategies
def _mono(draw, n, lo=-40, hi=40, q=0.125):
    """n strictly increasing multiples of q"""
    ks = draw(st.lists(st.integers(lo, hi), min_size=n, max_size=n,
                       unique=True))
    return [k * q for k in sorted(ks)]


@st.composite
def axis_pair(draw, nmin=1):
    """(xs, targets): source points and targets with coincident, interleaved
    and outside points"""
    n = draw(st.sampled_from([k for k in (1, 2, 2, 3, 3, 4, 5, 6, 7, 8)
                              if k >= nmin]))
    xs = _mono(draw, n)
    mode = draw(st.sampled_from(['same', 'inside', 'inside', 'mixed', 'mixed',
                                 'mixed', 'outside', 'shifted', 'shifted']))
    if mode == 'same':
        t = list(xs)
    elif mode == 'shifted':
        # same-size target grid displaced by a fraction of the smallest step
        # (sources are multiples of 1/8): interleaved, never coincident
        sh = draw(st.sampled_from([1 / 16., -1 / 16., 1 / 32., -1 / 32.,
                                   3 / 64.]))
        t = [x + sh for x in xs]
    else:
        m = draw(st.integers(1, 8))
        lo, hi = int(xs[0] * 8), int(xs[-1] * 8)
        if mode == 'inside':
            m = min(m, (hi - lo) * 2 + 1)
            ks = draw(st.lists(st.integers(lo * 2, hi * 2), min_size=m,
                               max_size=m, unique=True))
        elif mode == 'outside':
            ks = draw(st.lists(st.one_of(st.integers(lo * 2 - 60, lo * 2),
                                         st.integers(hi * 2, hi * 2 + 60)),
                               min_size=m, max_size=m, unique=True))
        else:
            ks = draw(st.lists(st.integers(lo * 2 - 30, hi * 2 + 30),
                               min_size=m, max_size=m, unique=True))
        t = [k / 16. for k in sorted(ks)]
    if draw(st.sampled_from([False, False, True])):
        xs = xs[::-1]
    if draw(st.sampled_from([False, False, True])):
        t = t[::-1]
    # a share of coordinates whose VALUES are large compared with their
    # spacing (seconds since 1970 at hourly steps, Julian dates, pressures
    # in Pa): x -> x0 + scale * x, all still exact in float64
    x0, scale = 0.0, 1.0
    if draw(st.integers(0, 2)) == 0:
        x0 = draw(st.sampled_from([1e5, 101325., 2451545., 946684800.,
                                   1640995200., 2e9, -2e9]))
        scale = draw(st.sampled_from([1., 1., 8., 60., 3600., 86400., 0.25]))
        xs = [x0 + scale * x for x in xs]
        t = [x0 + scale * x for x in t]
    return xs, t, mode, x0, scale


def _field(draw, size):
    return [k / 4. for k in draw(st.lists(st.integers(-400, 400),
                                          min_size=size, max_size=size))]


@st.composite
def case_weights(draw):
    xs, t, mode, x0, xscale = draw(axis_pair(nmin=1))
    return dict(kind='weights', xs=xs, nxs=t, mode=mode, x0=x0,
                xscale=xscale,
                extrapolate=draw(st.booleans()),
                field=_field(draw, len(xs)),
                ab=[draw(st.integers(-8, 8)) / 2., draw(st.integers(-20, 20))
                    / 4.])


@st.composite
def case_interpdim(draw):
    xs, t, mode, x0, xscale = draw(axis_pair(nmin=2))
    n = len(xs)
    others = draw(st.sampled_from([[], ['a'], ['a', 'b'], ['b', 'a'],
                                   ['a', 'b', 'c'], ['c', 'a', 'b']]))
    olen = {d: draw(st.integers(1, 3)) for d in others}
    nv = draw(st.integers(1, 3))
    vs = []
    for i in range(nv):
        k = draw(st.sampled_from([j for j in (0, 1, 1, 2, 2, 3, 3)
                                  if j <= len(others)]))
        od = list(draw(st.permutations(others)))[:k]
        pos = draw(st.integers(0, len(od)))
        dims = od[:pos] + ['z'] + od[pos:]
        shape = [n if d == 'z' else olen[d] for d in dims]
        size = int(np.prod(shape))
        dtype = draw(st.sampled_from(['f8', 'f8', 'f4', 'i4', 'i4', 'i2']))
        if dtype in ('i4', 'i2'):
            data = draw(st.lists(st.integers(-400, 400), min_size=size,
                                 max_size=size))
        else:
            data = _field(draw, size)
        profile = draw(st.sampled_from(['arbitrary', 'arbitrary', 'linear']))
        if profile == 'linear':
            # a*x+b along z (x in eighths, so integer for integer dtypes),
            # with a different offset in every column
            a = draw(st.integers(-6, 6)) or 3
            arr = np.array(data, dtype='d').reshape(shape)
            ax = dims.index('z')
            xk = np.array([round((x - x0) / xscale * 8) for x in xs],
                          dtype='d')
            sh = [1] * len(shape)
            sh[ax] = n
            base = np.take(arr, [0], axis=ax)
            arr = base + a * xk.reshape(sh)
            data = [int(v) if dtype in ('i4', 'i2') else float(v)
                    for v in arr.ravel()]
        vs.append(dict(name='v%d' % i, dims=dims, data=data, dtype=dtype,
                       profile=profile))
    extra = None
    if others and draw(st.booleans()):
        d = others[0]
        extra = dict(name='keep', dims=[d], data=_field(draw, olen[d]),
                     dtype='f8')
    kind = draw(st.sampled_from(['interpdim', 'interpdim', 'interpvars']))
    kvar = None
    if kind == 'interpdim' and draw(st.integers(0, 2)) == 0:
        # averaging kernel / covariance: the interpolated dimension on TWO
        # axes, K(z, z) or K(a, z, z) / K(z, a, z)
        kd = draw(st.sampled_from([['z', 'z']] + (
            [[others[0], 'z', 'z'], ['z', others[0], 'z']] if others
            else [['z', 'z']])))
        size = int(np.prod([n if d == 'z' else olen[d] for d in kd]))
        kvar = dict(name='K', dims=kd, data=_field(draw, size), dtype='f8')
    if kind == 'interpvars' and len(t) == n:
        # interpvars finds the old axis of the (new, old) weight matrix by
        # its length: new == old is outside its domain
        t = t[:-1] if len(t) > 1 else t + [t[-1] + 0.0625 * xscale]
        if len(t) == n:
            t = t + [t[-1] + 0.0625 * xscale]
    return dict(kind=kind, xs=xs, nxs=t, mode=mode, x0=x0, xscale=xscale,
                extrapolate=draw(st.booleans()), olen=olen, vars=vs,
                extra=extra, order=draw(st.sampled_from(['z-first',
                                                         'z-last'])),
                unlimited=draw(st.booleans()), kvar=kvar)


@st.composite
def case_coordkey(draw):
    n = draw(st.integers(2, 6))
    m = draw(st.integers(1, 6))
    others = draw(st.lists(st.sampled_from(['a', 'b']), min_size=1,
                           max_size=2, unique=True))
    olen = {d: draw(st.integers(1, 3)) for d in others}
    pos = draw(st.integers(0, len(others)))
    dims = others[:pos] + ['z'] + others[pos:]
    ncol = int(np.prod([olen[d] for d in others]))
    cols = []
    tcols = []
    for c in range(ncol):
        xs = _mono(draw, n)
        lo, hi = int(xs[0] * 16), int(xs[-1] * 16)
        ks = draw(st.lists(st.integers(lo - 8, hi + 8), min_size=m,
                           max_size=m, unique=True))
        t = [k / 16. for k in sorted(ks)]
        if draw(st.sampled_from([False, False, True])):
            xs = xs[::-1]
        if draw(st.sampled_from([False, False, True])):
            t = t[::-1]
        cols.append(xs)
        tcols.append(t)
    return dict(kind='coordkey', dims=dims, olen=olen, n=n, m=m, cols=cols,
                tcols=tcols, data=_field(draw, ncol * n),
                data2=_field(draw, ncol * n),
                extrapolate=draw(st.sampled_from([False, False, True])))


@st.composite
def sigma_edges(draw, top, bot, nlay):
    """nlay+1 strictly decreasing multiples of 1/64 from top to bot"""
    inner = draw(st.lists(st.integers(bot + 1, top - 1), min_size=nlay - 1,
                          max_size=nlay - 1, unique=True)) if nlay > 1 else []
    return [k / 64. for k in sorted([top, bot] + inner, reverse=True)]


FILE_VGTOP = 5000.
# vgtop argument: absent, equal to the file's VGTOP, or a different model top
VGTOPS = [None, None, FILE_VGTOP, 10000., 2500., 7500., 0.]


@st.composite
def case_sigma(draw):
    top = 64
    bot = draw(st.sampled_from([0, 0, 0, 16]))
    span = top - bot
    nl = draw(st.sampled_from([1, 2, 2, 3, 3, 4, 5, 6, 7, 8]))
    ml = draw(st.sampled_from([1, 2, 2, 3, 3, 4, 5, 6, 7, 8]))
    src = draw(sigma_edges(top, bot, nl))
    share = draw(st.sampled_from(['indep'] * 5 + ['subset'] * 2 + ['same']))
    if share == 'same':
        dst = list(src)
    elif share == 'subset' and nl >= 2:
        keep = draw(st.lists(st.sampled_from(src[1:-1]), unique=True,
                             max_size=len(src) - 2)) if nl > 1 else []
        dst = sorted(set([src[0], src[-1]] + keep), reverse=True)
    else:
        dst = draw(sigma_edges(top, bot, ml))
    if share != 'same' and dst == src:
        # Hypothesis likes to repeat draws: force a genuinely different grid
        cand = [k for k in range(bot + 1, top) if k / 64. not in src]
        extra = draw(st.sampled_from(cand)) / 64.
        inner = dst[1:-1]
        if len(inner) >= 7:
            inner = inner[1:]
        dst = sorted(set([dst[0], dst[-1], extra] + inner), reverse=True)
    nt, nr, nc = draw(st.integers(1, 2)), draw(st.integers(1, 2)), \
        draw(st.integers(1, 3))
    spec = dict(kind='sigma', src=src, dst=dst, shape=[nt, nr, nc],
                field=_field(draw, nt * nl * nr * nc),
                const=draw(st.integers(-40, 40)) / 4.,
                interptype=draw(st.sampled_from(['conserve', 'conserve',
                                                 'linear'])),
                extrapolate=draw(st.booleans()),
                vgtop=draw(st.sampled_from(VGTOPS)))
    # 0-2 further regriddings of the SAME file object, each with its own
    # target grid / interptype / vgtop and each judged against the original
    # source (a call must not disturb the file it reads)
    more = []
    for _ in range(draw(st.sampled_from([0, 0, 1, 1, 2]))):
        m2 = draw(st.sampled_from([1, 2, 3, 4, 6]))
        d2 = draw(sigma_edges(top, bot, m2))
        more.append(dict(dst=d2,
                         interptype=draw(st.sampled_from(['conserve',
                                                          'linear'])),
                         extrapolate=draw(st.booleans()),
                         vgtop=draw(st.sampled_from(VGTOPS))))
    spec['more'] = more
    spec['kfield'] = _field(draw, nl * nl) if draw(st.integers(0, 2)) == 0 \
        else None
    return spec


@st.composite
def case_gcsigma(draw):
    """interpSigma of the GEOS-Chem classes (bpch_base, gcnc_base): files
    built in memory with the variables the methods read (etai_pressure /
    P0, hyai, hybi); linear only (conserve is not implemented there)"""
    cls = draw(st.sampled_from(['bpch', 'gcnc']))
    nl = draw(st.sampled_from([2, 2, 3, 3, 4, 5, 6, 8]))
    src = draw(sigma_edges(64, 0, nl))
    ml = draw(st.sampled_from([1, 2, 3, 3, 4, 5, 6, 8]))
    style = draw(st.sampled_from(['indep', 'thin-ends', 'thin-ends', 'same']))
    if style == 'same':
        dst = list(src)
    elif style == 'thin-ends':
        # thin surface and/or top layers: their mid-points lie outside the
        # source mid-points (the extrapolation zone)
        inner = draw(st.lists(st.integers(3, 61), min_size=0,
                              max_size=max(0, ml - 2), unique=True))
        ks = set([64, 0] + inner)
        if draw(st.booleans()):
            ks.add(63)
        if draw(st.booleans()) or 63 not in ks:
            ks.add(1)
        dst = [k / 64. for k in sorted(ks, reverse=True)]
    else:
        dst = draw(sigma_edges(64, 0, ml))
    nt, ny = draw(st.integers(1, 2)), draw(st.integers(1, 3))
    return dict(kind='gcsigma', cls=cls, src=src, dst=dst, shape=[nt, ny],
                field=_field(draw, nt * nl * ny),
                prof=_field(draw, nl),
                ab=[draw(st.integers(-8, 8)) / 2.,
                    draw(st.integers(-20, 20)) / 4.],
                const=draw(st.integers(-40, 40)) / 4.,
                interptype=draw(st.sampled_from(['linear'] * 7 +
                                                ['conserve'])),
                extrapolate=draw(st.booleans()),
                vgtop=draw(st.sampled_from([0.0, 0.0, 1600.0])),
                kfield=_field(draw, nl * nl) if draw(st.integers(0, 2)) == 0
                else None)


def strategy(tier):
    return st.one_of(case_weights(), case_weights(), case_interpdim(),
                     case_interpdim(), case_coordkey(), case_sigma(),
                     case_sigma(), case_gcsigma())


# ------------------------------------------------------------------ checks
def _scale(*arrs):
    m = 1.0
    for a in arrs:
        a = np.asarray(a, dtype='d')
        if a.size:
            m = max(m, float(np.abs(a[np.isfinite(a)]).max())
                    if np.isfinite(a).any() else 1.0)
    return m


def _direction_labels(r, xs, t):
    if len(xs) > 1 and xs[0] > xs[-1]:
        r.label('source:descending')
    else:
        r.label('source:ascending')
    if len(t) > 1 and t[0] > t[-1]:
        r.label('target:descending')


def _placement(xs, t):
    lo, hi = min(xs), max(xs)
    sx = set(xs)
    coincident = any(v in sx for v in t)
    interleaved = any((lo < v < hi) and v not in sx for v in t)
    outside = any(v < lo or v > hi for v in t)
    return coincident, interleaved, outside


def check_weights(spec, r):
    from PseudoNetCDF.coordutil import getinterpweights
    xs = np.array(spec['xs'], dtype='d')
    t = np.array(spec['nxs'], dtype='d')
    n, m = xs.size, t.size
    ex = bool(spec['extrapolate'])
    r.label('kind:weights', 'n=%d' % n if n <= 2 else 'n>=3',
            'extrapolate:%s' % ex, 'mode:' + spec['mode'],
            'coord:' + ('large-offset' if spec.get('x0') else 'order-one'))
    if spec.get('x0') and spec['mode'] == 'shifted':
        r.label('large-offset+shifted-same-size')
    _direction_labels(r, spec['xs'], spec['nxs'])
    co, il, out = _placement(spec['xs'], spec['nxs'])
    r.label(*[k for k, b in (('targets:coincident', co),
                             ('targets:interleaved', il),
                             ('targets:outside', out)) if b])
    r.nontrivial = bool(il or (n > 1 and xs[0] > xs[-1]))
    klass = 'n=1' if n == 1 else ('extrap' if ex else 'clip')
    with np.errstate(all='ignore'):
        exc, W = attempt(getinterpweights, xs.copy(), t.copy(),
                         extrapolate=ex)
    if exc is not None:
        r.label('raised', 'raised:' + exc_where(exc))
        return
    W = np.asarray(W, dtype='d')
    if W.shape != (n, m):
        r.fail('weights-shape', 'weights shape %r for %d sources and %d '
               'targets' % (W.shape, n, m), klass=klass)
        return
    if not np.isfinite(W).all():
        r.fail('weights-finite', 'weights contain non-finite values: %r '
               '(xs=%r, targets=%r)' % (W.tolist(), xs.tolist(), t.tolist()),
               klass=klass)
        return
    if not ex and (W < 0).any():
        r.fail('weights-negative', 'extrapolate=False but min weight %r' %
               W.min(), klass=klass)
    s = W.sum(0)
    if np.abs(s - 1).max() > TOL:
        r.fail('weights-sum', 'column sums %r' % s.tolist(), klass=klass)
    a, b = spec['ab']
    # the linear profile is a*(x - x0)/xscale + b: linear in x, but of the
    # size of the field rather than of the coordinate values, so that the
    # 1e-9 tolerance stays meaningful for coordinates of order 1e9
    x0, xsc = spec.get('x0', 0.0), spec.get('xscale', 1.0)
    lin = a * ((xs - x0) / xsc) + b
    got = (W * lin[:, None]).sum(0)
    lo, hi = xs.min(), xs.max()
    inr = (t >= lo) & (t <= hi)
    # one source point defines no line: continuation of its value
    want = a * (((t if (ex and n > 1) else np.clip(t, lo, hi)) - x0) / xsc) \
        + b
    sc = _scale(lin, want)
    bad = np.abs(got - want) > TOL * sc
    if bad.any():
        k = int(np.nonzero(bad)[0][0])
        where = 'in-range' if inr[k] else 'out-of-range'
        r.fail('linear-exact', 'profile %r*x+%r at target %r (%s): got %r, '
               'expected %r (xs=%r)' % (a, b, t[k], where, got[k], want[k],
                                        xs.tolist()),
               klass=klass + '/' + where)
    if m == n and (t == xs).all():
        r.label('target==source')
        if np.abs(W - np.identity(n)).max() > TOL:
            r.fail('identity', 'target == source but weights are %r' %
                   W.tolist(), klass=klass)
    y = np.array(spec['field'], dtype='d')
    got = (W * y[:, None]).sum(0)
    want = np.array([ref_interp(xs, y, v, ex) for v in t])
    sc = _scale(y, want)
    sel = inr | True if ex else inr
    bad = (np.abs(got - want) > TOL * sc) & sel
    if bad.any():
        k = int(np.nonzero(bad)[0][0])
        r.fail('field-vs-reference', 'field %r on xs=%r at target %r: got '
               '%r, piecewise-linear reference %r' % (
                   y.tolist(), xs.tolist(), t[k], got[k], want[k]),
               klass=klass)


_CODES = {'f8': 'd', 'f4': 'f', 'i4': 'i', 'i2': 'h'}


def _build_interp_file(spec):
    from PseudoNetCDF import PseudoNetCDFFile
    xs = spec['xs']
    n = len(xs)
    olen = spec['olen']
    f = PseudoNetCDFFile()
    dnames = list(olen)
    order = (['z'] + dnames) if spec['order'] == 'z-first' else \
        (dnames + ['z'])
    for d in order:
        dim = f.createDimension(d, n if d == 'z' else olen[d])
        if d == 'z' and spec.get('unlimited'):
            dim.setunlimited(True)
    cv = f.createVariable('z', 'd', ('z',))
    cv[:] = np.array(xs, dtype='d')
    arrays = {}
    for v in spec['vars'] + ([spec['extra']] if spec['extra'] else []) + \
            ([spec['kvar']] if spec.get('kvar') else []):
        shape = tuple(n if d == 'z' else olen[d] for d in v['dims'])
        code = _CODES[v['dtype']]
        arr = np.array(v['data'], dtype=code).reshape(shape)
        var = f.createVariable(v['name'], code, tuple(v['dims']))
        var[...] = arr
        arrays[v['name']] = arr
    return f, arrays


def _var_labels(r, spec):
    nonlead = False
    for v in spec['vars']:
        ax = v['dims'].index('z')
        r.label('rank:%d' % len(v['dims']),
                'axis:' + ('leading' if ax == 0 else
                           ('last' if ax == len(v['dims']) - 1 else
                            'middle')),
                'vdtype:' + v['dtype'],
                'profile:' + v.get('profile', 'arbitrary'))
        if v['dtype'] in ('i4', 'i2') and \
                np.abs(np.array(v['data'])).max() >= 8:
            r.label('integer-variable-nontrivial')
        if ax > 0:
            nonlead = True
    return nonlead


def _cmp_interp(r, clause, name, v, got_var, want, arrays, klass, what):
    """compare a library variable with the float reference `want`; integer
    variables keep their dtype in the library (the float result is cast on
    assignment), so they are compared after that cast with +-1 unit for
    truncation/rounding"""
    got_arr = np.asarray(got_var[...])
    if got_arr.dtype != np.dtype(_CODES[v['dtype']]):
        r.fail('var-dtype', 'variable %s has dtype %s, the source variable '
               '%s' % (name, got_arr.dtype, _CODES[v['dtype']]), klass=klass)
        return
    got = got_arr.astype('d')
    if got.shape != want.shape:
        r.fail('var-shape', 'variable %s has shape %r, expected %r' % (
            name, got.shape, want.shape), klass=klass)
        return
    sc = _scale(arrays[name], want)
    if v['dtype'] in ('i4', 'i2'):
        tolv = 1.0 + 1e-9 * sc
        klass = klass + '/int'
    elif v['dtype'] == 'f4':
        tolv = 1e-5 * sc
    else:
        tolv = TOL * sc
    if not (np.abs(got - want) <= tolv).all():
        bad = np.argwhere(~(np.abs(got - want) <= tolv))[0]
        r.fail(clause, 'variable %s%r (%s): at %r got %r, reference %r %s' % (
            name, tuple(v['dims']), v['dtype'], tuple(bad.tolist()),
            got[tuple(bad)], want[tuple(bad)], what), klass=klass)


def check_interpvars(spec, r):
    """core._functions.interpvars(f, weights(new, old), dimension): the
    functional form; weights from getinterpweights (transposed to the
    documented (new, old) layout); oracle = those weights applied along the
    variable's axis"""
    from PseudoNetCDF.core._functions import interpvars
    from PseudoNetCDF.coordutil import getinterpweights
    xs = spec['xs']
    t = spec['nxs']
    n, m = len(xs), len(t)
    ex = bool(spec['extrapolate'])
    f, arrays = _build_interp_file(spec)
    r.label('kind:interpvars', 'extrapolate:%s' % ex, 'mode:' + spec['mode'],
            'coord:' + ('large-offset' if spec.get('x0') else 'order-one'))
    _direction_labels(r, xs, t)
    nonlead = _var_labels(r, spec)
    co, il, out = _placement(xs, t)
    r.nontrivial = bool(il or nonlead or xs[0] > xs[-1])
    with np.errstate(all='ignore'):
        exc, W = attempt(getinterpweights, np.array(xs, dtype='d'),
                         np.array(t, dtype='d'), extrapolate=ex)
    if exc is not None or not np.isfinite(np.asarray(W)).all():
        r.label('weights-unavailable')
        return
    W = np.asarray(W, dtype='d')          # (old, new)
    with np.errstate(all='ignore'):
        exc, o = attempt(interpvars, f, W.T.copy(), 'z')
    if exc is not None:
        r.label('raised', 'raised:' + exc_where(exc))
        return
    klass = 'interpvars'
    if 'z' not in o.dimensions or len(o.dimensions['z']) != m:
        r.fail('dim-length', 'interpvars: dimension z has length %s, '
               'expected %d' % (len(o.dimensions['z']) if 'z' in o.dimensions
                                else None, m), klass=klass)
        return
    if bool(o.dimensions['z'].isunlimited()) != bool(spec.get('unlimited')):
        r.label('unlimited-flag-changed')
    for v in spec['vars'] + [dict(name='z', dims=['z'], dtype='f8')]:
        name = v['name']
        if name not in o.variables:
            r.fail('var-missing', 'interpvars: variable %s missing' % name,
                   klass=klass)
            continue
        src = np.array(xs, dtype='d') if name == 'z' else \
            arrays[name].astype('d')
        ax = v['dims'].index('z')
        want = np.moveaxis(np.tensordot(np.moveaxis(src, ax, -1), W,
                                        axes=([-1], [0])), -1, ax)
        ov = o.variables[name]
        if tuple(ov.dimensions) != tuple(v['dims']):
            r.fail('var-dims', 'interpvars: variable %s has dimensions %r, '
                   'expected %r' % (name, tuple(ov.dimensions),
                                    tuple(v['dims'])), klass=klass)
            continue
        arrs = dict(arrays)
        arrs['z'] = src
        _cmp_interp(r, 'interpvars-values', name, v, ov, want, arrs,
                    klass + '/rank%d' % len(v['dims']),
                    '(weights applied along axis %d; xs=%r, targets=%r)' % (
                        ax, xs, t))
    if spec['extra']:
        name = spec['extra']['name']
        if name not in o.variables or not np.array_equal(
                np.asarray(o.variables[name][...]), arrays[name]):
            r.fail('untouched-changed', 'interpvars: variable %s without '
                   'the interpolated dimension changed' % name, klass=klass)


def check_interpdim(spec, r):
    xs = spec['xs']
    t = spec['nxs']
    n, m = len(xs), len(t)
    ex = bool(spec['extrapolate'])
    f, arrays = _build_interp_file(spec)
    r.label('kind:interpdim', 'extrapolate:%s' % ex, 'mode:' + spec['mode'],
            'coord:' + ('large-offset' if spec.get('x0') else 'order-one'))
    if spec.get('x0') and spec['mode'] == 'shifted':
        r.label('large-offset+shifted-same-size')
    _direction_labels(r, xs, t)
    co, il, out = _placement(xs, t)
    r.label(*[k for k, b in (('targets:coincident', co),
                             ('targets:interleaved', il),
                             ('targets:outside', out)) if b])
    nonlead = _var_labels(r, spec)
    r.nontrivial = bool(il or nonlead or xs[0] > xs[-1])
    with np.errstate(all='ignore'):
        exc, out_f = attempt(f.interpDimension, 'z', np.array(t, dtype='d'),
                             extrapolate=ex)
    if exc is not None:
        r.label('raised', 'raised:' + exc_where(exc))
        return
    klass = 'extrap' if ex else 'clip'
    if 'z' not in out_f.dimensions or len(out_f.dimensions['z']) != m:
        r.fail('dim-length', 'dimension z has length %s, expected %d' % (
            len(out_f.dimensions['z']) if 'z' in out_f.dimensions else None,
            m), klass=klass)
        return
    for v in spec['vars']:
        name = v['name']
        if name not in out_f.variables:
            r.fail('var-missing', 'variable %s missing' % name, klass=klass)
            continue
        ax = v['dims'].index('z')
        want = ref_along(xs, arrays[name], ax, t, ex)
        ov = out_f.variables[name]
        if tuple(ov.dimensions) != tuple(v['dims']):
            r.fail('var-dims', 'variable %s has dimensions %r, expected %r' %
                   (name, tuple(ov.dimensions), tuple(v['dims'])),
                   klass=klass)
            continue
        _cmp_interp(r, 'interp-values', name, v, ov, want, arrays,
                    klass + '/axis%s' % ('0' if ax == 0 else '>0'),
                    '(interpolated along axis %d; xs=%r, targets=%r)' % (
                        ax, xs, t))
    if spec.get('kvar'):
        # repeated dimension: the interpolation applies along BOTH axes
        # (W^T K W for the matrix case, as the unchanged tree does)
        kv = spec['kvar']
        r.label('repeated-dim:' + '-'.join(kv['dims']))
        axes = [i for i, d in enumerate(kv['dims']) if d == 'z']
        want = arrays['K'].astype('d')
        for ax in axes[::-1]:
            want = ref_along(xs, want, ax, t, ex)
        if 'K' not in out_f.variables:
            r.fail('var-missing', 'variable K missing', klass=klass)
        else:
            _cmp_interp(r, 'interp-repeated-dim', 'K', kv,
                        out_f.variables['K'], want, arrays,
                        klass + '/repeated-dim',
                        '(interpolated along axes %r; xs=%r, targets=%r)' % (
                            axes, xs, t))
    if spec['extra']:
        name = spec['extra']['name']
        if name not in out_f.variables or not np.array_equal(
                np.asarray(out_f.variables[name][...]), arrays[name]):
            r.fail('untouched-changed', 'variable %s without the '
                   'interpolated dimension changed' % name, klass=klass)
    # the coordinate variable follows the same rule as every other variable
    want = ref_along(xs, np.array(xs, dtype='d'), 0, t, ex)
    got = np.asarray(out_f.variables['z'][...], dtype='d')
    if got.shape != want.shape or \
            not (np.abs(got - want) <= TOL * _scale(xs, want)).all():
        r.fail('coord-values', 'coordinate variable after interpolation %r, '
               'reference %r' % (got.tolist(), want.tolist()), klass=klass)


def check_coordkey(spec, r):
    from PseudoNetCDF import PseudoNetCDFFile
    from PseudoNetCDF.core._variables import PseudoNetCDFVariable
    dims = spec['dims']
    olen = spec['olen']
    n, m = spec['n'], spec['m']
    ex = bool(spec['extrapolate'])
    others = [d for d in dims if d != 'z']
    oshape = tuple(olen[d] for d in others)
    ax = dims.index('z')
    ncol = int(np.prod(oshape))
    coord = np.moveaxis(np.array(spec['cols'], dtype='d').reshape(
        oshape + (n,)), -1, ax)
    targ = np.moveaxis(np.array(spec['tcols'], dtype='d').reshape(
        oshape + (m,)), -1, ax)
    data = np.moveaxis(np.array(spec['data'], dtype='d').reshape(
        oshape + (n,)), -1, ax)
    data2 = np.moveaxis(np.array(spec['data2'], dtype='d').reshape(
        oshape + (n,)), -1, ax)
    f = PseudoNetCDFFile()
    for d in dims:
        f.createDimension(d, n if d == 'z' else olen[d])
    for name, arr in (('height', coord), ('v0', data), ('v1', data2)):
        var = f.createVariable(name, 'd', tuple(dims))
        var[...] = arr
    newv = PseudoNetCDFVariable(f, 'newheight', 'd', tuple(dims),
                                values=targ)
    r.label('kind:coordkey', 'extrapolate:%s' % ex,
            'axis:' + ('leading' if ax == 0 else
                       ('last' if ax == len(dims) - 1 else 'middle')),
            'columns:%d' % ncol if ncol <= 2 else 'columns>=3')
    anydesc = any(c[0] > c[-1] for c in spec['cols'])
    mixed = anydesc and any(c[0] < c[-1] for c in spec['cols'])
    if anydesc:
        r.label('source:descending')
    if mixed:
        r.label('source:mixed-directions')
    r.nontrivial = True if (ax > 0 or anydesc or m != n) else False
    with np.errstate(all='ignore'):
        exc, out_f = attempt(f.interpDimension, 'z', newv, coordkey='height',
                             extrapolate=ex)
    if exc is not None:
        r.label('raised', 'raised:' + exc_where(exc))
        return
    klass = 'coordkey'
    if len(out_f.dimensions['z']) != m:
        r.fail('dim-length', 'dimension z has length %d, expected %d' % (
            len(out_f.dimensions['z']), m), klass=klass)
        return
    for name, arr in (('v0', data), ('v1', data2), ('height', coord)):
        got = np.asarray(out_f.variables[name][...], dtype='d')
        want = np.empty(targ.shape, dtype='d')
        am = np.moveaxis(arr, ax, -1)
        cm = np.moveaxis(coord, ax, -1)
        tm = np.moveaxis(targ, ax, -1)
        wm = np.moveaxis(want, ax, -1)
        for ii in np.ndindex(oshape):
            wm[ii] = [ref_interp(cm[ii], am[ii], v, ex) for v in tm[ii]]
        if got.shape != want.shape:
            r.fail('var-shape', 'variable %s has shape %r, expected %r' % (
                name, got.shape, want.shape), klass=klass)
            continue
        sc = _scale(arr, want)
        if not (np.abs(got - want) <= TOL * sc).all():
            bad = np.argwhere(~(np.abs(got - want) <= TOL * sc))[0]
            r.fail('interp-values', 'coordkey form, variable %s: at %r got '
                   '%r, reference %r' % (name, tuple(bad.tolist()),
                                         got[tuple(bad)], want[tuple(bad)]),
                   klass=klass)


def check_sigma(spec, r):
    from PseudoNetCDF.cmaqfiles import ioapi_base
    from PseudoNetCDF.coordutil import sigma2coeff
    src = np.array(spec['src'], dtype='d')
    dst = np.array(spec['dst'], dtype='d')
    nl, ml = src.size - 1, dst.size - 1
    nt, nr, nc = spec['shape']
    it = spec['interptype']
    r.label('kind:sigma', 'interptype:' + it,
            'nlay=1' if nl == 1 else 'nlay>=2',
            'mlay=1' if ml == 1 else 'mlay>=2',
            'bottom:%g' % src[-1])
    sset = set(src.tolist())
    inter = [e for e in dst.tolist() if e not in sset]
    coin = [e for e in dst.tolist()[1:-1] if e in sset]
    if inter:
        r.label('edges:interleaved')
    if coin:
        r.label('edges:coincident-interior')
    if list(src) == list(dst):
        r.label('edges:identical')
    r.nontrivial = bool(inter)
    dsrc = -np.diff(src)
    ddst = -np.diff(dst)
    # ---- the overlap matrix itself
    with np.errstate(all='ignore'):
        exc, C = attempt(sigma2coeff, src.astype('f'), dst.copy())
    if exc is not None:
        r.label('raised', 'raised:' + exc_where(exc))
    else:
        C = np.asarray(C, dtype='d')
        if C.shape != (nl, ml):
            r.fail('coeff-shape', 'sigma2coeff shape %r, expected %r' % (
                C.shape, (nl, ml)), klass='coeff')
        else:
            if np.abs(C.sum(1) - 1).max() > TOL:
                r.fail('coeff-rows', 'source layers are not fully '
                       'distributed: row sums %r (src=%r, dst=%r)' % (
                           C.sum(1).tolist(), src.tolist(), dst.tolist()),
                       klass='coeff')
            th = (dsrc[:, None] * C).sum(0)
            if np.abs(th - ddst).max() > TOL:
                r.fail('coeff-thickness', 'sum_k dsigma_k*coeff[k,l] = %r '
                       'but target thickness is %r (src=%r, dst=%r)' % (
                           th.tolist(), ddst.tolist(), src.tolist(),
                           dst.tolist()), klass='coeff')
    # ---- file level: one file, one or more successive regriddings
    field = np.array(spec['field'], dtype='d').reshape(nt, nl, nr, nc)
    const = np.full((nt, nl, nr, nc), spec['const'], dtype='d')
    f = ioapi_base.from_arrays(
        FLD=field, CST=const,
        fileattrs=dict(VGLVLS=src.astype('f'), VGTOP=np.float32(FILE_VGTOP),
                       SDATE=2000001, STIME=0, TSTEP=10000))
    kfield = None
    if spec.get('kfield') is not None:
        kfield = np.array(spec['kfield'], dtype='d').reshape(nl, nl)
        kv = f.createVariable('K', 'd', ('LAY', 'LAY'))
        kv[:] = kfield
        r.label('repeated-dim:LAY-LAY')
    calls = [dict(dst=spec['dst'], interptype=spec['interptype'],
                  extrapolate=spec['extrapolate'],
                  vgtop=spec.get('vgtop'))] + list(spec.get('more') or [])
    r.label('calls:%d' % len(calls))
    if len(calls) > 1 or any(c.get('vgtop') not in (None, FILE_VGTOP)
                             for c in calls):
        r.nontrivial = True
    for ci, call in enumerate(calls):
        _sigma_call(f, src, call, field, spec['const'], r, ci, kfield)
        if r.failures:
            return


def overlap_matrix(src, dst):
    """M[k, l] = thickness of (source layer k intersected with target layer
    l) / thickness of target layer l, by interval arithmetic: the conservative
    regridding operator v'_l = sum_k M[k, l] v_k"""
    src = np.asarray(src, dtype='d')
    dst = np.asarray(dst, dtype='d')
    M = np.zeros((src.size - 1, dst.size - 1))
    for k in range(src.size - 1):
        a0, a1 = sorted((src[k], src[k + 1]))
        for j in range(dst.size - 1):
            b0, b1 = sorted((dst[j], dst[j + 1]))
            M[k, j] = max(0.0, min(a1, b1) - max(a0, b0)) / (b1 - b0)
    return M


def sigma_convert(sig, vgtop_from, vgtop_to, psfc=101325.):
    """sigma levels re-expressed for another model top, from pressure
    equality p = vgtop + sigma * (psfc - vgtop) with the surface pressure
    the library assumes (101325 Pa)"""
    p = vgtop_from + np.asarray(sig, dtype='d') * (psfc - vgtop_from)
    return (p - vgtop_to) / (psfc - vgtop_to)


def _sigma_call(f, src, call, field, constval, r, ci, kfield=None):
    nt, nl, nr, nc = field.shape
    it = call['interptype']
    vgtop = call.get('vgtop')
    rescale = vgtop is not None and vgtop != FILE_VGTOP
    dst0 = np.array(call['dst'], dtype='d')
    ml = dst0.size - 1
    if rescale:
        # target edges are drawn in the file's sigma coordinate (sharing
        # top and bottom with the source) and handed over expressed for the
        # requested top; the library converts the source the same way
        dst = sigma_convert(dst0, FILE_VGTOP, vgtop)
        srcv = sigma_convert(src, FILE_VGTOP, vgtop)
        # the library converts in the float32 precision of VGLVLS
        rtol_mass, rtol_lin = 1e-4, 1e-4
        r.label('vgtop:different')
    else:
        dst = dst0
        srcv = src
        rtol_mass, rtol_lin = 1e-6, TOL
        r.label('vgtop:%s' % ('absent' if vgtop is None else 'same'))
    tag = ('call%d' % ci if ci == 0 else 'call>=1') + \
        ('/vgtop' if rescale else '')
    r.label('call%d:%s' % (min(ci, 1), it))
    dsrc = -np.diff(srcv)
    ddst = -np.diff(dst)
    kw = dict(interptype=it)
    if vgtop is not None:
        kw['vgtop'] = vgtop
    if it == 'linear':
        kw['extrapolate'] = bool(call['extrapolate'])
        r.label('extrapolate:%s' % kw['extrapolate'])
    with np.errstate(all='ignore'):
        exc, o = attempt(f.interpSigma, dst.copy(), **kw)
    if exc is not None:
        r.label('raised', 'raised:' + exc_where(exc))
        return
    got = np.asarray(o.variables['FLD'][...], dtype='d')
    gotc = np.asarray(o.variables['CST'][...], dtype='d')
    if got.shape != (nt, ml, nr, nc):
        r.fail('sigma-shape', 'FLD has shape %r after interpSigma, expected '
               '%r' % (got.shape, (nt, ml, nr, nc)), klass=it + '/' + tag)
        return
    what = '(call %d, vgtop=%r, src=%r, dst=%r)' % (ci, vgtop, src.tolist(),
                                                    dst0.tolist())
    if it == 'conserve':
        klass = 'conserve/' + tag
        sc = _scale(constval)
        if not (np.abs(gotc - constval) <= 1e-6 * sc).all():
            r.fail('constant-field', 'constant %r became %r %s'
                   % (constval, np.unique(gotc).tolist()[:6], what),
                   klass=klass)
        mass0 = (field * dsrc[None, :, None, None]).sum(1)
        mass1 = (got * ddst[None, :, None, None]).sum(1)
        sc = _scale(np.abs(field).sum(1) * 1.0)
        if not (np.abs(mass1 - mass0) <= rtol_mass * sc).all():
            bad = np.argwhere(~(np.abs(mass1 - mass0) <= rtol_mass * sc))[0]
            r.fail('column-mass', 'column %r: sum(v dsigma) %r -> %r %s' % (
                tuple(bad.tolist()), mass0[tuple(bad)], mass1[tuple(bad)],
                what), klass=klass)
    else:
        ex = kw['extrapolate']
        klass = 'linear/' + ('nlay=1' if nl == 1 else
                             ('extrap' if ex else 'clip'))
        if ci or rescale:
            klass += '/' + tag
        zs = (srcv[:-1] + srcv[1:]) / 2
        nzs = (dst[:-1] + dst[1:]) / 2
        want = ref_along(zs, field, 1, nzs, ex)
        sc = _scale(field, want)
        if not (np.abs(got - want) <= rtol_lin * sc).all():
            bad = np.argwhere(~(np.abs(got - want) <= rtol_lin * sc))[0]
            r.fail('sigma-linear', 'interpSigma(linear) at %r: got %r, '
                   'reference %r (mid-points %r -> %r) %s' % (
                       tuple(bad.tolist()), got[tuple(bad)],
                       want[tuple(bad)], zs.tolist(), nzs.tolist(), what),
                   klass=klass)
        sc = _scale(constval)
        ctol = 1e-6 if rescale else TOL   # float32 weights when rescaling
        if not (np.abs(gotc - constval) <= ctol * sc).all():
            r.fail('constant-field', 'linear: constant %r became %r %s' % (
                constval, np.unique(gotc).tolist()[:6], what), klass=klass)
    if kfield is not None:
        # K(LAY, LAY): the regridding applies along both axes
        if it == 'conserve':
            M = overlap_matrix(srcv, dst)
            wantk = M.T.dot(kfield).dot(M)
            ktol = rtol_mass
        else:
            wantk = ref_along(zs, ref_along(zs, kfield, 1, nzs, ex), 0, nzs,
                              ex)
            ktol = rtol_lin
        gk = np.asarray(o.variables['K'][...], dtype='d') \
            if 'K' in o.variables else None
        sc = _scale(kfield, wantk)
        if gk is None or gk.shape != wantk.shape or \
                not (np.abs(gk - wantk) <= max(ktol, 1e-9) * sc).all():
            r.fail('sigma-repeated-dim', 'K(LAY, LAY) after interpSigma(%s) '
                   '= %r, expected the operator on both axes %r %s' % (
                       it, None if gk is None else gk.tolist(),
                       wantk.tolist(), what),
                   klass=it + '/repeated-dim/' + tag)
    nv = np.asarray(o.VGLVLS, dtype='d')
    if nv.shape != dst.shape or not np.array_equal(nv, dst.astype('f')):
        r.fail('sigma-vglvls', 'VGLVLS after interpSigma %r, requested %r' %
               (nv.tolist(), dst.tolist()), klass=it)


def check_gcsigma(spec, r):
    """bpch_base.interpSigma / gcnc_base.interpSigma: source sigma from the
    file's interface pressures, sigma = (p - vgtop) / (p_surface - vgtop);
    linear interpolation between layer mid-points"""
    cls = spec['cls']
    src = np.array(spec['src'], dtype='d')
    dst = np.array(spec['dst'], dtype='d')
    nl, ml = src.size - 1, dst.size - 1
    nt, ny = spec['shape']
    vgtop = float(spec['vgtop'])
    ex = bool(spec['extrapolate'])
    it = spec['interptype']
    # interface pressures in hPa realising the sigma edges for this vgtop
    # with a 1024 hPa surface (dyadic, so the sigma values are recovered to
    # rounding)
    p_hpa = (vgtop + src * (102400. - vgtop)) / 100.
    if cls == 'bpch':
        from PseudoNetCDF.geoschemfiles._bpch import bpch_base as klass_
        ld, ed = 'layer', 'layer_bounds'
    else:
        from PseudoNetCDF.geoschemfiles._gcnc import gcnc_base as klass_
        ld, ed = 'lev', 'ilev'
    f = klass_()
    f.createDimension('time', nt)
    f.createDimension(ld, nl)
    f.createDimension('y', ny)
    f.createDimension(ed, nl + 1)
    if cls == 'bpch':
        v = f.createVariable('etai_pressure', 'd', (ed,))
        v[:] = p_hpa
    else:
        v = f.createVariable('P0', 'd', ())
        v[...] = 1024.
        # hybrid coefficients: p = P0 * hybi + hyai
        b = src * 0.5
        v = f.createVariable('hybi', 'd', (ed,))
        v[:] = b
        v = f.createVariable('hyai', 'd', (ed,))
        v[:] = p_hpa - 1024. * b
    field = np.array(spec['field'], dtype='d').reshape(nt, nl, ny)
    prof = np.array(spec['prof'], dtype='d')
    # the source sigma as the pressure definition gives it
    p = p_hpa * 100.
    if cls == 'gcnc':
        p = (1024. * (src * 0.5) + (p_hpa - 1024. * (src * 0.5))) * 100.
    srcv = (p - vgtop) / (p[0] - vgtop)
    zs = (srcv[:-1] + srcv[1:]) / 2
    nzs = (dst[:-1] + dst[1:]) / 2
    a, b_ = spec['ab']
    lin = a * zs * 8 + b_
    vals = dict(FLD=(('time', ld, 'y'), field),
                PROF=((ld,), prof),
                LIN=((ld,), lin),
                CST=((ld, 'y'), np.full((nl, ny), spec['const'])))
    kfield = None
    if spec.get('kfield') is not None:
        kfield = np.array(spec['kfield'], dtype='d').reshape(nl, nl)
        vals['K'] = ((ld, ld), kfield)
    for name, (dims, arr) in vals.items():
        var = f.createVariable(name, 'd', dims)
        var[...] = arr
    outside = bool(((nzs > zs.max()) | (nzs < zs.min())).any())
    r.label('kind:gcsigma', 'class:' + cls, 'interptype:' + it,
            'extrapolate:%s' % ex, 'vgtop:%g' % vgtop,
            'target-midpoints:' + ('outside-source' if outside else
                                   'inside-source'))
    if kfield is not None:
        r.label('repeated-dim:%s-%s' % (ld, ld))
    sset = set(src.tolist())
    r.nontrivial = bool(any(e not in sset for e in dst.tolist()) or outside)
    with np.errstate(all='ignore'):
        exc, o = attempt(f.interpSigma, dst.copy(), vgtop=vgtop,
                         interptype=it, extrapolate=ex)
    if exc is not None:
        r.label('raised', 'raised:' + exc_where(exc))
        return
    klass = '%s/%s' % (cls, 'extrap' if ex else 'clip')
    if ld not in o.dimensions or len(o.dimensions[ld]) != ml:
        r.fail('dim-length', '%s has length %s after interpSigma, expected '
               '%d' % (ld, len(o.dimensions[ld]) if ld in o.dimensions
                       else None, ml), klass=klass)
        return
    what = '(%s_base, vgtop=%r, extrapolate=%s, source mid-points %r -> ' \
        'target mid-points %r)' % (cls, vgtop, ex, zs.tolist(), nzs.tolist())
    for name, (dims, arr) in vals.items():
        if name == 'K':
            want = ref_along(zs, ref_along(zs, arr, 1, nzs, ex), 0, nzs, ex)
            clause = 'sigma-repeated-dim'
        else:
            want = ref_along(zs, arr, dims.index(ld), nzs, ex)
            clause = {'LIN': 'linear-exact', 'CST': 'constant-field'}.get(
                name, 'sigma-linear')
        if name not in o.variables:
            r.fail('var-missing', 'variable %s missing' % name, klass=klass)
            continue
        got = np.asarray(o.variables[name][...], dtype='d')
        sc = _scale(arr, want)
        if got.shape != want.shape or \
                not (np.abs(got - want) <= TOL * sc).all():
            where = ''
            if got.shape == want.shape:
                bad = np.argwhere(~(np.abs(got - want) <= TOL * sc))[0]
                where = 'at %r got %r, reference %r ' % (
                    tuple(bad.tolist()), got[tuple(bad)], want[tuple(bad)])
                lay = int(bad[list(dims).index(ld)])
                zone = 'outside' if (nzs[lay] > zs.max() or
                                     nzs[lay] < zs.min()) else 'inside'
            else:
                where = 'shape %r, expected %r ' % (got.shape, want.shape)
                zone = 'shape'
            r.fail(clause, 'variable %s%r: %s%s' % (name, dims, where, what),
                   klass=klass + '/' + zone)


def check_case(spec):
    r = Result()
    kind = spec['kind']
    if kind == 'weights':
        check_weights(spec, r)
    elif kind == 'interpdim':
        check_interpdim(spec, r)
    elif kind == 'interpvars':
        check_interpvars(spec, r)
    elif kind == 'coordkey':
        check_coordkey(spec, r)
    elif kind == 'sigma':
        check_sigma(spec, r)
    elif kind == 'gcsigma':
        check_gcsigma(spec, r)
    else:
        raise ValueError(kind)
    return r


# ------------------------------------------------------------------ known findings
# input class: one source level; symptom: NaN weights / NaN interpolated values
known.register('C17-single-level', lambda spec, f: (
    (spec['kind'] == 'weights' and len(spec['xs']) == 1 and
     f.clause == 'weights-finite' and f.klass == 'n=1') or
    (spec['kind'] == 'sigma' and len(spec['src']) == 2 and
     f.clause in ('sigma-linear', 'constant-field') and
     f.klass.startswith('linear/nlay=1') and 'nan' in f.detail)))
