"""C14 - truncated binary files are never silently misread (enumeration of
every cut offset of small reference-encoded files).

Plug-in structure: PLUGINS[format] = Plugin(encode, expected, open_and_read,
layout[, tag, judge, prepare, steps_dim]).  The CAMx formats are registered
below; bpch (two readers) comes from vf/bpch14.py."""
import gc
import os
import shutil

import numpy as np
from hypothesis import strategies as st

from ..core import Result, exc_where, HarnessError
from .. import camxspec as C
from .. import camxknown as K
from .. import bpch14 as BP
from .. import known
from .. import libstate
from ..ref import fortran

ID = 'C14'
LEVEL = 'fault_enumeration'
CRASH_IS_VIOLATION = True
RULE = ('One case = one small reference-encoded file (<= ~3 KB): CAMx uamiv, '
        'lateral_boundary, temperature, height_pressure, humidity, '
        'vertical_diffusivity, one3d, wind, cloud_rain (1-2 species, nx<=3, '
        'ny<=2 (lateral_boundary >=2), nz<=2, 2-3 steps (sometimes 1) of 1, 2, '
        '3, 24 or 48 hours, start dates weighted to roll-overs) or GEOS-Chem '
        'bpch (1 file in 5: 1-2 tracers in 1-2 diagnostic categories, 1-3 x '
        '1-2 cells, 1-2 layers, 1-3 time blocks, with tracerinfo.dat / '
        'diaginfo.dat next to it; encoded by vf/ref/bpch_ref.py; read by '
        'bpch1 = format "bpch" or by the block-walking bpch2 = format '
        '"bpch2", unscaled); payload ramp / random finite bits / special '
        'pool.  Files are drawn by Hypothesis, plus a fixed list of two '
        'canonical files per format.  For EVERY prefix length 0 <= k < size '
        'the prefix is written to a fresh private scratch file (never mapped '
        'while written), opened with the memmap reader in the default mode '
        '"r" and every variable is read; maps are released (del + '
        'gc.collect) after each offset.  Readers whose constructor accepts '
        'an open mode (uamiv, lateral_boundary, bpch1) are additionally '
        'opened with mode="r+" on another fresh copy of the prefix (numpy '
        'may extend a short file on disk in that mode) for a deterministic '
        'subset of offsets: every offset in the last step / time block, '
        'every record and step boundary, and every 5th offset elsewhere; '
        'labels rplus-offsets:* / rplus-outcome:* count them separately and '
        'rplus:file-changed-size-on-open counts prefixes whose size on disk '
        'changed during the open.  A reader exceeding 2000 RecordFile.next '
        'calls / 10000 timerange yields on one prefix is reported as '
        'non-terminating (no wall clock).  Oracle per offset and mode, '
        'always against the independent model of the FULL file (never the '
        'prefix on disk): an exception at open or read is accepted; '
        'otherwise CAMx: the reader exposes m <= n steps, LAY/ROW/COL as in '
        'the full file, and TFLAG, ETFLAG and every variable restricted to '
        'steps 0..m-1 equal the full file bit for bit; bpch: a time block '
        'is complete when all data blocks carrying its tau0 are inside the '
        'prefix; time = m <= (complete time blocks) <= n, the variable set '
        'of the exposed steps equals the full file\'s and every tracer '
        'variable has exactly m leading steps (clause incomplete-time-block '
        'otherwise), values bit-identical to the full file, tau0/tau1 of '
        'the m blocks identical, no variable that is not in the file; '
        'outcome:bpch-fewer-tracers / bpch-ragged count the prefixes that '
        'expose a step with tracers missing (on the unchanged tree only '
        'cuts exactly at a data-block boundary: known finding).  ' 
        'Offsets are classified header / marker / mid-record / '
        'record-boundary / step-boundary (= time-block boundary for bpch); '
        'per case the first offending offset of each (clause, class, mode) '
        'is reported; labels offsets:<class> (all formats) and '
        'bpch-offsets:<class> give the number of offsets evaluated in mode '
        '"r", outcome:* the number that raised / exposed m steps.  A file is '
        'non-trivial if every offset class occurs in it.  The cut-point '
        'space of each file is exhausted in mode "r"; the "r+" pass covers '
        'the stated subset; files are sampled.')
EXHAUSTIVE_NOTE = ('exhaustive over the cut offsets 0..size-1 of every file '
                   'evaluated, opened in mode "r"; the additional mode "r+" '
                   'pass covers a stated deterministic subset of offsets; '
                   'the space of files is sampled')
ASSUMPTIONS = ['vf.ref.camx_ref / vf.camxspec.model_of give the true content '
               'of the full file (validated by vf.ref.selfcheck)',
               'vf.ref.bpch_ref (validated by its own selfcheck against the '
               'repository sample) gives the true content of bpch files; '
               'tables have a comment header and >= 2 rows (the other table '
               'shapes are C18 findings)',
               'a prefix of a valid file is what an interrupted run or copy '
               'leaves behind (no holes)']
BUDGET = {'quick': dict(examples=320, max_s=200, shrink_cap=40),
          'thorough': dict(examples=6000, max_s=2400, shrink_cap=60)}

CAMX_FORMATS = ['uamiv', 'lateral_boundary', 'temperature', 'height_pressure',
                'humidity', 'vertical_diffusivity', 'one3d', 'wind',
                'cloud_rain']
CLASSES = ['header', 'marker', 'mid-record', 'record-boundary',
           'step-boundary']
TOTALS = {}       # per worker process: label -> count, merged in finish()


# ------------------------------------------------------------------ plug-ins
class Obs(object):
    """what the reader exposed for one prefix"""

    def __init__(self):
        self.dims = {}
        self.vars = {}       # name -> (dims tuple, array)
        self.tflag = None
        self.etflag = None


class Expected(object):
    def __init__(self):
        self.nsteps = 0
        self.dims = {}       # non-time dimensions that must not change
        self.vars = {}       # name -> (dims, array), dims[0] == 'TSTEP'
        self.tflag = None    # (n, 2)
        self.etflag = None


class Plugin(object):
    def __init__(self, encode, expected, open_and_read, layout, tag=None,
                 judge=None, prepare=None, steps_dim='TSTEP', modes=('r',)):
        self.modes = modes                  # open modes the reader accepts
        self.tag = tag                      # (spec, Obs) -> str symptom tag
        self.judge = judge                  # (spec, exp, obs, complete, k)
        self.prepare = prepare              # (spec, dir): auxiliary files
        self.steps_dim = steps_dim          # dimension that counts steps
        self.encode = encode                # spec -> bytes
        self.expected = expected            # spec -> Expected
        self.open_and_read = open_and_read  # (spec, path) -> Obs (may raise)
        self.layout = layout                # (spec, raw) -> (header_end,
        #                                      [end offset of step i])


def camx_expected(spec):
    m = C.model_of(spec)
    e = Expected()
    e.nsteps = spec['nsteps']
    e.dims = {d: n for d, n in m.dims.items() if d != 'TSTEP'}
    e.vars = m.vars
    e.tflag = m.tflag
    if spec['fmt'] in ('uamiv', 'lateral_boundary'):
        e.etflag = m.etflag
    return e


def camx_open_and_read(spec, path, mode='r'):
    if mode == 'r':
        f = C.open_lib(spec, path, 'memmap')
    else:
        MM = C.lib_modules()[0]
        f = getattr(MM, spec['fmt'])(path, mode=mode)
    try:
        o = Obs()
        for d in list(f.dimensions.keys()):
            o.dims[d] = len(f.dimensions[d])
        for k in list(f.variables.keys()):
            v = f.variables[k]
            a = v[...]
            if isinstance(a, np.ma.MaskedArray):
                a = np.ma.getdata(a)
            a = np.array(a)
            if k == 'TFLAG':
                o.tflag = a
            elif k == 'ETFLAG':
                o.etflag = a
            else:
                o.vars[k] = (tuple(getattr(v, 'dimensions', ())), a)
        return o
    finally:
        # release the maps of this prefix: close, drop the only reference and
        # collect the young generations (the reader objects are cyclic and
        # were all created for this offset; a full collection per offset
        # costs 30 ms, the complete one runs at the end of the case)
        try:
            f.close()
        except Exception:
            pass
        del f
        gc.collect(1)


def camx_layout(spec, raw):
    """(end of the file header, [end offset of each step]) from the record
    structure of the reference encoding"""
    sp = fortran.spans(raw)
    fmt = spec['fmt']
    nz = spec['nz']
    nhead = {'uamiv': 4, 'lateral_boundary': 8, 'cloud_rain': 1}.get(fmt, 0)
    if fmt == 'uamiv':
        per = 1 + len(spec['species']) * nz
    elif fmt == 'lateral_boundary':
        per = 1 + 4 * len(spec['species'])
    elif fmt in C.ONE3D_VAR:
        per = nz
    elif fmt == 'temperature':
        per = nz + 1
    elif fmt == 'height_pressure':
        per = 2 * nz
    elif fmt == 'wind':
        per = 2 * nz + 2
    elif fmt == 'cloud_rain':
        per = 1 + nz * spec['nvar']
    else:
        raise KeyError(fmt)
    n = spec['nsteps']
    if len(sp) != nhead + per * n:
        raise HarnessError('layout: %d records, expected %d' % (
            len(sp), nhead + per * n))
    hend = sp[nhead - 1][3] if nhead else 0
    ends = [sp[nhead + per * (i + 1) - 1][3] for i in range(n)]
    return hend, ends


def camx_tag(spec, o):
    """coarse symptom tag of an accepted read: how the reader interpreted
    the prefix"""
    if spec['fmt'] == 'cloud_rain':
        names = set(o.vars)
        if spec['nvar'] == 5 and 'PRECIP' in names:
            return 'read-as-3var'
        if spec['nvar'] == 3 and 'RAIN' in names:
            return 'read-as-5var'
    return ''


PLUGINS = {}
RW_FORMATS = ('uamiv', 'lateral_boundary')   # Memmap __init__ takes mode
for _f in CAMX_FORMATS:
    PLUGINS[_f] = Plugin(C.ref_bytes, camx_expected, camx_open_and_read,
                         camx_layout, camx_tag,
                         modes=('r', 'r+') if _f in RW_FORMATS else ('r',))
BPCH_FORMATS = ['bpch', 'bpch2']      # bpch1 memmap reader, block walker
for _f in BPCH_FORMATS:
    PLUGINS[_f] = Plugin(BP.encode, BP.expected, BP.open_and_read, BP.layout,
                         BP.tag, BP.judge, BP.prepare, steps_dim='time',
                         modes=('r', 'r+') if _f == 'bpch' else ('r',))


# ------------------------------------------------------------------ strategy
@st.composite
def cases(draw, tier='quick'):
    if draw(st.integers(0, 4)) == 0:
        return draw(BP.bpchspecs())
    spec = draw(C.camxspecs(formats=CAMX_FORMATS, max_n=3, max_nz=2,
                            max_steps=3, max_spec=2,
                            step_choices=(1, 1, 1, 1, 2, 3, 24, 24, 48),
                            weights={'uamiv': 2}))
    spec['ny'] = min(spec['ny'], 2)
    if spec['nsteps'] == 1 and draw(st.integers(0, 2)) > 0:
        # 2-3 steps are the norm; single-step files stay represented
        spec['nsteps'] = draw(st.sampled_from([2, 3]))
        spec['start'] = draw(C.start_dates(spec['nsteps'] * spec['step_h']))
    if spec['fmt'] == 'cloud_rain' and spec['nvar'] == 3 and \
            C.cloud_rain_ambiguous(spec):
        spec['nvar'] = 5
    return spec


def strategy(tier):
    return cases(tier)


def canonical(fmt):
    s = {'fmt': fmt, 'nx': 3, 'ny': 2, 'nz': 2, 'nsteps': 3, 'step_h': 1,
         'start': [2001, 100, 5],
         'payload': {'mode': 'bits', 'seed': 14, 'over': []}}
    if fmt in ('uamiv', 'lateral_boundary'):
        s.update(species=['O3', 'NO'], name='AVERAGE' if fmt == 'uamiv'
                 else 'BOUNDARY', note='CAMx test', itzon=0,
                 proj=dict(iproj=2, plon=-97.0, plat=40.0, tlat1=33.0,
                           tlat2=45.0, iutm=0, istag=0, xorg=-2736.0,
                           yorg=-792000.0, delx=12000.0, dely=12000.0))
    if fmt == 'wind':
        s['lstagger'] = -1
    if fmt == 'cloud_rain':
        s.update(nvar=5, desc='CAMx_V4.3 CLOUD_RAIN')
    return s


def enumerate_cases(tier):
    for fmt in CAMX_FORMATS:
        yield canonical(fmt)
        s = canonical(fmt)
        s.update(nz=1, nsteps=2, start=[1999, 365, 23])
        s['payload'] = {'mode': 'ramp', 'seed': 0, 'over': []}
        yield s
    for fmt in BPCH_FORMATS:
        yield BP.canonical(fmt)
        s = BP.canonical(fmt)
        s.update(nt=2, ni=2, nj=1,
                 payload={'mode': 'ramp', 'seed': 0, 'over': []})
        yield s


# -------------------------------------------------------------------- check
def classify(k, sp, hend, ends):
    if k < hend:
        return 'header'
    if k == hend or k in ends:
        return 'step-boundary'
    kind, _ = fortran.classify_offset(sp, k)
    return {'boundary': 'record-boundary', 'marker': 'marker',
            'mid': 'mid-record'}[kind]


def judge(spec, exp, o, complete, k=None):
    """[(clause, message)] for one prefix whose read completed"""
    out = []
    n = exp.nsteps
    m = o.dims.get('TSTEP')
    if not isinstance(m, (int, np.integer)) or isinstance(m, bool):
        return [('steps-not-integer', 'TSTEP has length %r' % (m,), '')]
    m = int(m)
    if m < 0 or m > n:
        return [('steps-out-of-range', 'exposes %d steps, the full file has '
                 '%d' % (m, n), '')]
    # m > complete is judged through the data: a step whose last record
    # lacks only a trailing marker / dummy record still carries every value
    for d, want in exp.dims.items():
        if d in o.dims and o.dims[d] != want:
            out.append(('dims-changed', 'dimension %s has length %r, full '
                        'file %r' % (d, o.dims[d], want)))
    for name, (dims, arr) in exp.vars.items():
        if name not in o.vars:
            out.append(('variable-missing', 'variable %s not exposed' % name))
            continue
        want = arr[:m] if dims and dims[0] == 'TSTEP' else arr
        msg = C.cmp_bits(o.vars[name][1], want, 'variable %s' % name)
        if msg:
            out.append(('data-differ', msg))
            break
    for nm, got, want in (('TFLAG', o.tflag, exp.tflag),
                          ('ETFLAG', o.etflag, exp.etflag)):
        if want is None or got is None:
            if want is not None and got is None and nm == 'TFLAG':
                out.append(('tflag-differ', 'no TFLAG exposed'))
            continue
        g = np.asarray(got)
        if g.ndim != 3 or g.shape[0] != m or \
                not np.array_equal(g[:, 0], want[:m]) or \
                not (g == g[:, :1]).all():
            sym = ''
            if g.ndim == 3 and g.shape[0] == m:
                sym = K.tflag_symptom(g[:, 0], want[:m],
                                      begin=exp.tflag[:m])
            out.append(('%s-differ' % nm.lower(), '%s %s, full file %s' % (
                nm, g[:, 0].tolist() if g.ndim == 3 else g.tolist(),
                want[:m].tolist()), sym))
    return [(x[0], x[1], x[2] if len(x) > 2 else '') for x in out]


def _inc(counts, key):
    counts[key] = counts.get(key, 0) + 1


def probe(spec, plug, judge_fn, sdim, exp, raw, k, cls, complete, ends, mode,
          base_dir, counts, first):
    """one prefix length, one open mode.  The prefix is written to a fresh
    private file (an open in mode 'r+' may modify or extend it), the reader's
    view is judged against the model of the FULL file, the file is deleted."""
    fmt = spec['fmt']
    size = len(raw)
    pre = '' if mode == 'r' else 'rplus-'
    _inc(counts, pre + 'offsets:' + cls)
    if fmt in BPCH_FORMATS:
        _inc(counts, pre + 'bpch-offsets:' + cls)
    base = [cls] + (['r+'] if mode != 'r' else [])
    if k <= ends[0]:
        base.append('step1')     # nothing beyond the first step
    path = os.path.join(base_dir, 'cut%d%s.bin' % (k, 'w' if mode != 'r'
                                                   else ''))
    with open(path, 'wb') as fo:
        fo.write(raw[:k])
    C.reset_guards()
    o = None
    try:
        try:
            o = plug.open_and_read(spec, path) if mode == 'r' else \
                plug.open_and_read(spec, path, mode)
        except C.NonTermination as e:
            first.setdefault(('nontermination', '/'.join(base), exc_where(e)),
                             (k, 'prefix of %d of %d bytes: %s' % (k, size,
                                                                    e)))
            return
        except (KeyboardInterrupt, SystemExit, MemoryError, HarnessError):
            raise
        except Exception:   # an error is an accepted outcome (property)
            _inc(counts, pre + 'outcome:raise')
            if fmt in BPCH_FORMATS:
                _inc(counts, pre + 'bpch-outcome:raise')
            return
        finally:
            if mode != 'r':
                try:
                    if os.path.getsize(path) != k:
                        _inc(counts, 'rplus:file-changed-size-on-open')
                except OSError:
                    pass
        if C.tripped():
            first.setdefault(('nontermination', '/'.join(base), ''),
                             (k, 'prefix of %d of %d bytes: iteration budget '
                              'exhausted' % (k, size)))
            return
        m_ = o.dims.get(sdim)
        key = 'outcome:steps=%s' % (m_,) \
            if isinstance(m_, (int, np.integer)) \
            else 'outcome:steps=non-integer'
        _inc(counts, pre + key)
        if fmt in BPCH_FORMATS:
            _inc(counts, pre + 'bpch-' + key)
        verdicts = judge_fn(spec, exp, o, complete, k)
        if not verdicts and isinstance(m_, (int, np.integer)) and \
                m_ > complete and fmt not in BPCH_FORMATS:
            _inc(counts, pre + 'outcome:last-step-lacks-only-marker-or-dummy')
        ptag = plug.tag(spec, o) if plug.tag else ''
        if ptag and fmt in BPCH_FORMATS:
            _inc(counts, pre + 'outcome:bpch-' + ptag)
        for clause, msg, sym in verdicts:
            tags = '/'.join(base + [t for t in (ptag, sym) if t])
            first.setdefault((clause, tags, ''), (
                k, 'prefix of %d of %d bytes opened with mode %r (%s; %d '
                'complete steps): %s' % (k, size, mode, cls, complete, msg)))
    finally:
        o = None
        gc.collect(1)
        try:
            os.remove(path)
        except OSError:
            pass


def check_case(spec):
    r = Result()
    fmt = spec['fmt']
    # files have < 150 records: a much smaller record-iteration budget than
    # the other checks use keeps the (known) endless scans cheap
    C.MAX_NEXTS = 2000
    plug = PLUGINS[fmt]
    judge_fn = plug.judge or judge
    sdim = plug.steps_dim
    base_dir = libstate.scratch_path('_c14')
    os.makedirs(base_dir)
    if plug.prepare:
        plug.prepare(spec, base_dir)
    raw = plug.encode(spec)
    exp = plug.expected(spec)
    hend, ends = plug.layout(spec, raw)
    sp = fortran.spans(raw)
    size = len(raw)
    r.label('fmt:' + fmt, 'steps:%d' % exp.nsteps)
    if spec.get('nz') == 1:
        r.label('nz:1')
    if fmt in BPCH_FORMATS:
        r.label('tracers:%d' % len(spec['tracers']))
    seen_cls = set()
    first = {}          # (clause, class) -> (k, message)
    counts = {}
    last_start = ends[-2] if len(ends) > 1 else hend
    for k in range(size):
        cls = classify(k, sp, hend, ends)
        seen_cls.add(cls)
        complete = sum(1 for e in ends if e <= k)
        for mode in plug.modes:
            if mode != 'r' and not (k >= last_start or k % 5 == 2 or
                                    cls in ('record-boundary',
                                            'step-boundary')):
                continue      # deterministic subset for the 'r+' pass
            probe(spec, plug, judge_fn, sdim, exp, raw, k, cls, complete,
                  ends, mode, base_dir, counts, first)
    gc.collect()
    shutil.rmtree(base_dir, ignore_errors=True)
    for (clause, cls, where), (k, msg) in sorted(
            first.items(), key=lambda kv: kv[1][0]):
        r.fail(clause, msg, where=where, klass='%s/%s' % (fmt, cls))
    counts['files'] = 1
    counts['offsets:total'] = size
    for kx, v in counts.items():
        TOTALS[kx] = TOTALS.get(kx, 0) + v
    for c in CLASSES:
        if c in seen_cls:
            r.label('has:' + c)
    r.nontrivial = all(c in seen_cls for c in CLASSES
                       if c != 'header' or hend > 0)
    return r


def finish(st):
    """merge the per-offset counters into the evidence labels (counts of
    offsets, not of cases) and state the exhaustiveness scope"""
    for k, v in TOTALS.items():
        st.labels[k] += v
    st.exhaustive = True


# ---------------------------------------------------------- known findings
def _tags(f):
    return f.klass.split('/')[1:]


known.register('C14-lateral-etflag-btime', lambda spec, f: (
    spec['fmt'] == 'lateral_boundary' and f.clause == 'etflag-differ' and
    K.time_cause(spec, f.klass, 'end') == 'lateral-etflag-btime'))
known.register('C14-century', lambda spec, f: (
    f.clause in ('tflag-differ', 'etflag-differ') and K.time_cause(
        spec, f.klass, 'begin' if f.clause == 'tflag-differ' else 'end')
    == 'century'))
HEADERLESS = ('temperature', 'height_pressure', 'humidity',
              'vertical_diffusivity', 'one3d')
known.register('C14-met-one-stamp', lambda spec, f: (
    spec['fmt'] in HEADERLESS and 'step1' in _tags(f) and
    _tags(f)[0] in ('record-boundary', 'step-boundary') and
    f.clause in ('steps-not-integer', 'dims-changed', 'data-differ',
                 'tflag-differ', 'steps-out-of-range')))
known.register('C14-wind-truncated-hang', lambda spec, f: (
    spec['fmt'] == 'wind' and f.clause == 'nontermination' and
    'step1' in _tags(f) and
    f.where == 'NonTermination@camxfiles/wind/Memmap.py:__init__'))
known.register('C14-cloud_rain-nvar-ambiguity', lambda spec, f: (
    spec['fmt'] == 'cloud_rain' and
    ('read-as-3var' in _tags(f) or 'read-as-5var' in _tags(f)) and
    _tags(f)[0] in ('record-boundary', 'step-boundary') and
    f.clause in ('data-differ', 'variable-missing', 'tflag-differ',
                 'dims-changed', 'steps-out-of-range')))
known.register('C14-bpch-datablock-boundary', lambda spec, f: (
    spec['fmt'] in BPCH_FORMATS and f.clause == 'incomplete-time-block' and
    _tags(f)[0] == 'record-boundary' and
    ('fewer-tracers' in _tags(f) or 'ragged' in _tags(f))))
