"""C01 - every operation yields a structurally well-formed file (stateful).

interactive(draw): one initial file (generic FileSpec through one of six
construction routes, with or without a character variable, or an IOAPI file
from ioapi_base.from_arrays), then a chain of steps; each step's operation and
arguments are drawn from the light model of the *current* live files
(vf.agentB_ops.Info), so arguments are in the documented domain by
construction (DESIGN Appendix C).  check_case(journal) replays a journal
without Hypothesis."""
import gc
import os
import sys
import zlib

from hypothesis import strategies as st

from ..core import Result, exc_where, canon
from .. import spec as S
from .. import agentB_ops as O
from .. import known

ID = 'C01'
LEVEL = 'exploration'
RULE = ('Stateful Hypothesis search (interactive draws, journal replay). '
        'Initial file: FileSpec (1-4 dims of length 1-4, at most one '
        'unlimited, 1-4 variables of rank 0-3 over differing dimension '
        'subsets, masked/unmasked, 1-D coordinate variables, f4/f8/i2/i4, '
        'optionally an S1 variable) built by createDimension/createVariable, '
        'from_ncf, from_ncvs or saved (NETCDF3_CLASSIC/NETCDF4) and reopened '
        'as class netcdf; or an IOAPI file (gridded or boundary, 1-3 '
        'variables, 1-4 steps/layers/rows/cols) from ioapi_base.from_arrays. '
        'Then 2-10 steps (thorough: 2-25); each picks a live file (mostly the latest result) '
        'and one operation of copy (all flag combinations), sliceDimensions '
        '(int/slice/list, zipped lists with fresh newdims), '
        'applyAlongDimensions (named reducers, shape-deterministic '
        'callables), stack (with a copy / a slice of itself), '
        'subsetVariables (include/exclude), renameVariable(s), '
        'renameDimension(s), insertDimension (before/after/newonly/'
        'multionly), removeSingleton, reorderDimensions, mask (scalar '
        'predicates, where+dims), eval (element-wise assignments to fresh '
        'names), binary operators with a conforming file, interpDimension, '
        'IOAPI interpSigma; arguments drawn in-domain from the current '
        'dimensions/variables; ~10% of steps come from an out-of-domain '
        'family (unknown dimension/variable, index >= length, unequal list '
        'lengths, non-conforming stack operand, re-inserting an existing '
        'dimension, copy(variables without dimensions)).  Oracle after every '
        'step, for the result and every live file: variable dimensions exist '
        'in the file, shape == dimension lengths in order, every listed '
        'attribute retrievable, every dimension that survives (followed '
        'through renames) keeps its unlimited flag, IOAPI files have TSTEP '
        'unlimited.  An in-domain step that raises is a violation '
        '(signature = exception type + innermost library frame + operation:'
        'class); an out-of-domain step may raise, else its result must be '
        'well-formed.  Files with an S1 variable only get structural '
        'operations; on an ioapi_base object whose IOAPI structure has been '
        'removed by an earlier step (e.g. TSTEP squeezed away, TFLAG '
        're-dimensioned) a raise is accepted.  Non-trivial: a chain of >=2 '
        'completed in-domain operations starting from a file with >=2 '
        'variables of different dimension sets in which a dimension length '
        'or a variable rank changed.  Distinct by sha1 of the journal.')
ASSUMPTIONS = [
    'the documented domain of each operation is the one tabulated in '
    'DESIGN.md Appendix C (from docstrings and in-repo callers)',
    'empty windows on IOAPI files and renaming IOAPI structural dimensions '
    'are outside the domain of the IOAPI wrappers',
    'reducers/callables are only applied along non-empty dimensions '
    '(numpy has no identity for min/max of an empty axis)']
# max_s is deliberately generous: the runner's time-budget test makes an
# interactive body stop drawing, which Hypothesis reports as flaky data
# generation when it re-uses a recorded prefix - the budget must never be
# the binding limit for this module (examples is)
BUDGET = {'quick': dict(examples=3600, max_s=300, shrink_cap=300),
          'thorough': dict(examples=120000, max_s=2400, shrink_cap=600)}
# interactive() is not told the tier by the runner
THOROUGH = 'thorough' in sys.argv or \
    os.environ.get('VERIF_TIER') == 'thorough'
MAX_STEPS = 25 if THOROUGH else 10
MAX_N = 4 if THOROUGH else 3
CRASH_IS_VIOLATION = False

MAX_LIVE = 5


def context(f, info):
    """input class of the receiver, recorded at the head of a failure's
    detail so that known-finding matchers can be narrow"""
    flags = ['cls=' + info.cls]
    if info.disk:
        flags.append('disk')
    if any(vd == () for vd, _ in info.vars.values()):
        flags.append('scalarvar')
    if any(k in 'SU' for _, k in info.vars.values()):
        flags.append('charvar')
    elif not info.numeric:
        flags.append('nonnumericvar')   # e.g. bool results of comparisons
    try:
        if any(k not in info.vars for k in f.getCoords()):
            flags.append('coordsmissing')
    except Exception:
        pass
    if info.ioapi_degraded:
        flags.append('degraded')
    return 'ctx{%s}' % ';'.join(flags)


def bad_dims(f):
    """names of the dimensions whose length disagrees with a variable's
    shape (classification only; the verdict is vf.spec.wellformed)"""
    out = []
    try:
        dl = {k: len(d) for k, d in f.dimensions.items()}
        for k in f.variables.keys():
            v = f.variables[k]
            vd = tuple(v.dimensions)
            if len(vd) != len(v.shape):
                continue
            for d, n in zip(vd, v.shape):
                if d in dl and dl[d] != n and d not in out:
                    out.append(d)
    except Exception:
        pass
    return out


class Entry(object):
    def __init__(self, f, depth=0, changed=False, multi=False):
        self.f = f
        self.depth = depth
        self.changed = changed
        self.multi = multi
        self.unl = {k: bool(d.isunlimited()) for k, d in f.dimensions.items()}


class Run(object):
    def __init__(self, init):
        self.r = Result()
        self.journal = dict(init=init, steps=[])
        self.r.journal = self.journal
        self.keep = []
        self.files = []
        self.dead = False
        f = O.build(init, keep=self.keep)
        info = O.info_of_file(f)
        dimsets = set(vd for vd, _ in info.vars.values())
        e = Entry(f, multi=len(dimsets) >= 2)
        self.files.append(e)
        r = self.r
        if init.get('kind') == 'ioapi':
            r.label('init:ioapi', 'init:ioapi-perim' if init.get('perim')
                    else 'init:ioapi-grid')
            if init.get('disk'):
                r.label('init:ioapi-disk')
            r.label('init:ioapi-' + init.get('ctor', 'from_arrays'),
                    'init:ioapi-tflag-' + str(init.get('tflag') or 'none'))
        else:
            r.label('init:' + init.get('route', 'create'))
            if not info.numeric:
                r.label('init:char')
        if any(vd == () for vd, _ in info.vars.values()):
            r.label('has:scalar-var')
        if any(l == 1 for l, _ in info.dims.values()):
            r.label('has:len1-dim')
        if any(u for _, u in info.dims.values()):
            r.label('has:unlimited')
        if info.coordvals:
            r.label('has:coordvar')
        if init.get('kind') != 'ioapi' and any(
                v.get('mask') is not None for v in init['vars']):
            r.label('has:masked')
        if e.multi:
            r.label('has:differing-dimsets')
        self.check_file(f, e.unl, 'initial', 'init')

    # -------------------------------------------------------------- oracle
    def check_file(self, f, expect_unl, what, klass, ctx=''):
        r = self.r
        try:
            msgs = S.wellformed(f, what)
        except (KeyboardInterrupt, SystemExit, MemoryError):
            raise
        except Exception as e:
            # e.g. a "variable" that is a bare ndarray without ncattrs()
            msgs = ['%s: not inspectable as a netCDF-like file: %s: %s' % (
                what, type(e).__name__, str(e)[:200])]
        if msgs:
            bd = bad_dims(f)
            for m in msgs[:3]:
                r.fail('malformed', '%s baddims=%s %s' % (
                    ctx, ','.join(bd), m), klass=klass)
            return False
        ok = True
        for k, d in f.dimensions.items():
            if k in expect_unl and bool(d.isunlimited()) != expect_unl[k]:
                r.fail('unlimited-flag', '%s: dimension %s unlimited=%s, was '
                       '%s before the operation' % (
                           what, k, bool(d.isunlimited()), expect_unl[k]),
                       klass=klass)
                ok = False
        if O._cls_of(f) == 'ioapi' and 'TSTEP' in f.dimensions and \
                not f.dimensions['TSTEP'].isunlimited():
            r.fail('ioapi-tstep-limited', '%s: IOAPI file whose TSTEP '
                   'dimension is not unlimited' % what, klass=klass)
            ok = False
        return ok

    # -------------------------------------------------------------- step
    def execute(self, step):
        r = self.r
        self.journal['steps'].append(step)
        if step['on'] >= len(self.files):
            from ..core import Reject
            raise Reject()
        src = self.files[step['on']]
        f = src.f
        before = O.info_of_file(f)
        op = step['op']
        ood = step.get('ood')
        lenient = bool(ood) or before.ioapi_degraded or before.repeated
        klass = '%s:%s' % (op, before.cls)
        ctx = context(f, before)
        r.label('op:' + op)
        if ood:
            r.label('ood:' + ood)
        if op == 'binop':
            r.label('binop-operand:' + step['args']['other'][0])
            if step['args'].get('swap'):
                r.label('binop-operand:swapped')
        if op == 'interp':
            r.label('interp:nd-coordinate' if step['args'].get('coordkey')
                    else 'interp:1d-coordinate')
        if before.ioapi_degraded:
            r.label('on-degraded-ioapi')
            klass += '/degraded'
        if before.repeated:
            r.label('on-repeated-dim-var')
            klass += '/repeated'
        try:
            out = O.apply_step(f, step)
        except (KeyboardInterrupt, SystemExit, MemoryError):
            raise
        except Exception as e:
            if lenient:
                r.label('ood-raised' if ood else 'degraded-raised')
                self.check_live(klass, ctx)
                return
            r.fail('in-domain-raised', '%s %s(%s) on %s file: %s: %s' % (
                ctx, op, step['args'], before.cls, type(e).__name__,
                str(e)[:300]), where=exc_where(e), klass=klass)
            self.dead = True
            return
        if ood:
            r.label('ood-returned')
        # expected unlimited flags of the dimensions that survive
        expect = dict(src.unl)
        if op == 'rendim':
            for old, new in step['args']['ren']:
                if old in expect:
                    expect[new] = expect.pop(old)
        ok = self.check_file(out, expect, 'result of %s' % op, klass, ctx)
        self.check_live(klass, ctx)
        if not ok or r.failures:
            self.dead = True
            return
        after = O.info_of_file(out)
        changed = src.changed
        for d, (l, _) in after.dims.items():
            if d in before.dims and before.dims[d][0] != l:
                changed = True
        for k, (vd, _) in after.vars.items():
            if k in before.vars and len(before.vars[k][0]) != len(vd):
                changed = True
        e = Entry(out, depth=src.depth + (0 if ood else 1), changed=changed,
                  multi=src.multi)
        self.files.append(e)
        if len(self.files) > MAX_LIVE:
            self.files.pop(1 if len(self.files) > 1 else 0)
        if after.cls == 'ioapi':
            r.label('result:ioapi-intact' if after.ioapi_intact
                    else 'result:ioapi-degraded')
        if any(l == 0 for l, _ in after.dims.values()):
            r.label('result:len0-dim')

    def check_live(self, klass, ctx=''):
        for i, e in enumerate(self.files):
            self.check_file(e.f, e.unl, 'live file %d' % i,
                            klass + '/live', ctx)

    def finish(self):
        r = self.r
        best = 0
        nt = False
        for e in self.files:
            best = max(best, e.depth)
            if e.depth >= 2 and e.changed and e.multi:
                nt = True
        r.label('chain:%d' % min(best, 8))
        r.nontrivial = nt
        e = None
        self.files = []
        if self.keep:
            O.close_all(self.keep)
        return r


# ------------------------------------------------------------------ known
def _ctx(f):
    d = f.detail
    if d.startswith('ctx{'):
        return d[4:d.index('}')].split(';')
    return []


def _has_step(journal, op):
    return any(s.get('op') == op and not s.get('ood')
               for s in journal.get('steps', []))


# fixed since this check was written (regressions pinned as
# replays/C01/fixed-*.json): reorder-dims a78683a, coords-missing ebd8f12,
# rmsing-char 39f156d, ioapi-slice-rowcol 1c3f9f7, eval-masked-scalar 1965be0
# C01-char-empty-scalar: fixed in /repo ebc2dd0
def _nonconforming_binop(journal):
    return any(st_.get('op') == 'binop' and
               st_.get('ood') == 'binop-nonconforming'
               for st_ in journal.get('steps', []))


# C01-pncbo-broadcast-up: fixed in /repo 9804299 (regression pinned as
# replays/C01/fixed-pncbo-broadcast-up.json); no matcher any more
def _scalar_callable_apply(journal):
    return any(st_.get('op') == 'apply' and not st_.get('ood') and any(
        fn[1] == 'call' and fn[2] in ('smean', 'smax')
        for fn in st_['args']['funcs']) for st_ in journal.get('steps', []))


known.register('C01-apply-scalar-callable', lambda spec, f: (
    f.clause == 'in-domain-raised' and f.klass.startswith('apply:') and
    f.where == 'ValueError@core/_files.py:applyAlongDimensions' and
    'could not broadcast input array' in f.detail and
    _scalar_callable_apply(spec)))

known.register('C01-ioapi-var-redim', lambda spec, f: (
    f.clause == 'malformed' and 'baddims=VAR ' in f.detail and
    'cls=ioapi' in _ctx(f) and 'degraded' in _ctx(f)))


# ------------------------------------------------------------------ search
def draw_init(draw):
    kind = draw(st.sampled_from(['generic'] * 5 + ['char'] * 2 + ['ioapi'] * 3))
    if kind == 'ioapi':
        return draw(O.ioapi_specs(max_n=MAX_N))
    fs = draw(O.generic_specs(char=(kind == 'char'), max_len=4, max_dims=4,
                              max_vars=4, max_rank=3, vrange=60))
    if kind == 'char' and not any(v['dtype'] == 'S1' for v in fs['vars']):
        # the strategy adds the S1 variable with probability 1/2
        pass
    return fs


WEIGHTS = dict(slice=3, apply=2, stack=2, insert=2, rmsing=2, reorder=2,
               rendim=2, interpsigma=2, interp=3)


def interactive(draw):
    init = draw_init(draw)
    rot0 = zlib.crc32(canon(init).encode())
    run = Run(init)
    try:
        n = draw(st.integers(2, MAX_STEPS))
        for _ in range(n):
            if run.dead or run.r.failures:
                break
            nlive = len(run.files)
            if nlive > 1 and draw(st.integers(0, 3)) == 0:
                idx = draw(st.integers(0, nlive - 1))
            else:
                idx = nlive - 1
            info = O.info_of_file(run.files[idx].f)
            if draw(st.integers(0, 9)) == 0:
                step = O.draw_ood(draw, info)
            else:
                step = O.draw_step(draw, info, weights=WEIGHTS,
                                   rot=5 * len(run.journal['steps']) + rot0)
            step['on'] = idx
            run.execute(step)
    finally:
        res = run.finish()
    return res


def check_case(journal):
    run = Run(journal['init'])
    try:
        for step in journal['steps']:
            if run.dead or run.r.failures:
                break
            run.execute(dict(step))
    finally:
        res = run.finish()
    res.journal = journal
    return res


def strategy(tier):   # not used (interactive), kept for the module contract
    return st.none()
