"""C10 - IOAPI metadata stays coherent under every operation (stateful).

An IoapiSpec file (vf/ioapispec.py: gridded / boundary, routes arrays /
griddesc / griddesc_cf / disk) is built and a chain of operations is drawn
step by step from the *current* state of the chain (so every argument is in
domain by construction).  After the construction and after every operation
the self-describing metadata of the result is compared with its content.
The concrete journal {file, steps} is what is replayed by check_case()."""
import numpy as np
from hypothesis import strategies as st

from ..core import Result, attempt, exc_where, HarnessError
from .. import ioapispec as I
from .. import libstate
from .. import known

ID = 'C10'
LEVEL = 'exploration'
MAXSTEPS = {'quick': 6, 'thorough': 14}
RULE = (
    'Hypothesis, interactive: IoapiSpec file (gridded TSTEP,LAY,ROW,COL or '
    'boundary TSTEP,LAY,PERIM; 1-4 listed variables with names of 1-16 '
    'characters; 1-8 steps, 1-6 layers/rows/cols; built by '
    'ioapi_base.from_arrays, griddesc text without/with CF variables, or '
    'saved to netCDF and re-opened with pncopen(format=ioapi)); one source '
    'in four is first put out of sync (ioapispec.preps: one more variable '
    'added by createVariable/copyVariable without updatemeta, TFLAG '
    'deleted, or VAR-LIST without its padding - trailing blanks stripped / '
    'names separated by single blanks) and is then not judged itself, only '
    'the results; then 1-6 '
    '(thorough 1-14) chained operations, each drawn from the state of the '
    'file it is applied to: copy() or copy(data=False) (partial copies with '
    'props/dimensions/variables=False are building blocks, not judged); '
    'sliceDimensions over a non-empty subset of '
    'TSTEP/LAY/ROW/COL with ints in [-n,n-1] or non-empty slices (bounds '
    'None / negative / beyond the axis, step '
    'None/1/2/full reverse), one slice in five on gridded files a zipped '
    'cell selection (ROW and COL as paired index lists of 1-4 entries, '
    'newdims default POINTS / PERIM / CELLS, optional TSTEP/LAY windows); '
    'subsetVariables (non-empty, any order); '
    'renameVariable to a fresh name (1/2), to a name of 17-24 characters '
    '(accepted by the library, which leaves the variable unlisted; 1/4) or '
    'onto the name of another listed variable (which it replaces; 1/4) - '
    'the last two lower the variable count while a TFLAG exists; '
    'applyAlongDimensions with '
    'mean/sum/min/max/std over any non-empty subset of TSTEP/LAY/ROW/COL/'
    'PERIM or a shape-deterministic callable on LAY (plain, or the '
    'dictionary form {func1d: f, k: value} keeping the first/last k layers); eval of an assignment '
    'to a fresh name (copyall False/True); mask by a scalar predicate; stack '
    'along TSTEP (half) or ROW/COL with itself / a copy / a window of itself '
    '/ 2-3 tiles cut with sliceDimensions and re-assembled in order (single '
    'operand or list), along LAY with re-assembled tiles or two abutting '
    'blocks each derived by slice / apply(LAY=callable) / slice+interpSigma '
    '(abutting level edges only); VGLVLS is handed to from_arrays as '
    'float32 array, float64 array or list and half of the files use tenths '
    '(not float32-representable); one source in eight starts on a date '
    'below 1400000 (YYDDD, years before 1400); one source in eight also holds a standard-dimension '
    'variable with an over-long (unlistable) name; updatemeta() and '
    'getVarlist(update=True) applied in place to the current in-memory file '
    '(getVarlist not on a source whose TFLAG is out of step by '
    'construction); mfopen: the file is cut '
    'into 2-3 contiguous pieces along TSTEP/LAY/ROW/COL, the pieces are '
    'saved as netCDF files and re-assembled through pncmfopen(paths, '
    'stackdim, format=ioapi) or ioapi.open_mfdataset(*paths, stackdim) '
    '(reader auto-detection and stack_files, which returns a plain file, '
    'are not used); interpSigma '
    '(linear needs >=2 layers, conserve) to 1-6 new layers.  Half of the '
    'chains are drawn from the complement of the input classes of the known '
    'findings (currently none).  Oracle after the construction and after every operation that '
    'returns: NVARS == len(VAR-LIST)/16 == number of 16-wide names in '
    'VAR-LIST == len(dimension VAR) == TFLAG.shape[1] (VAR and TFLAG of '
    'width 1 when NVARS == 0 and the file holds no listable variable); '
    'VAR-LIST length is a '
    'multiple of 16; every listed name is a variable with one of the two '
    'standard dimension tuples; NROWS/NCOLS/NLAYS equal the lengths of '
    'ROW/COL/LAY where the dimension exists; len(VGLVLS) == NLAYS+1; SDATE, '
    'STIME == TFLAG[0,0,:]; every dimension a variable uses is a dimension '
    'of the file (the count attributes describe dimensions that exist); '
    'every VAR column of TFLAG holds the same flags.  All comparisons are integer/exact.  An '
    'operation that raises yields no result and is counted (label raised:*), '
    'not judged.  The chain stops at the first incoherent result (no '
    'cascades).  Secondary oracle: the structural keys of '
    'audit_meta(fail="ignore") (LAY ROW COL VAR VAR-LIST-LEN VAR-LIST '
    'SDATE_TFLAG STIME_TFLAG has_TFLAG): an audit failure the primary oracle '
    'does not see is a harness error; a primary failure the audit does not '
    'see is labelled and reported as the violation it is.  Non-trivial: >=2 operations '
    'returned and at least one of them changed a dimension length or the '
    'set of variables (slice/apply/subset/rename/eval/stack/interp), or the '
    'chain contains a TSTEP reduction or a rename.  Distinct by sha1 of the '
    'journal.')
ASSUMPTIONS = [
    'variable names ending in TFLAG and names equal to IOAPI attribute or '
    'dimension names are outside the domain',
    'subsetting to zero variables and slices selecting nothing are outside '
    'the domain; variables with names longer than 16 characters cannot be '
    'listed and are never the argument of subset/rename/eval',
    'stack along LAY is in the domain only for operands whose level edges '
    'abut (pieces of one file, in order): otherwise no array of NLAYS+1 '
    'edges describes the result and the statement cannot be met',
    'eval overwriting an existing variable is outside the domain',
    'a file with no listable variable at all (after a zipped ROW/COL '
    'selection to a non-standard dimension) is coherent when it lists '
    'nothing: NVARS 0, VAR-LIST empty, VAR and TFLAG of width max(NVARS,1) '
    '= 1 (what the unmodified library returns); NVARS 0 while a listable '
    'variable exists is a violation',
    'a listed variable may have either standard layout (TSTEP,LAY,ROW,COL '
    'or TSTEP,LAY,PERIM): a zipped selection with newdims=(PERIM,) turns a '
    'gridded file into the boundary layout',
    'an operation that raises is not a result (C01 judges completion)',
    'audit_meta is used only as a second opinion; it raises KeyError on '
    'boundary files that carry NROWS/NCOLS (counted as audit-raised)']
BUDGET = {'quick': dict(examples=3600, max_s=240, shrink_cap=250),
          'thorough': dict(examples=30000, max_s=3000, shrink_cap=400)}

REDUCERS = ('mean', 'sum', 'min', 'max', 'std')
CALLABLES = {
    'head2': lambda x: x[:2],
    'rev': lambda x: x[::-1],
    'pairsum': lambda x: np.add.reduceat(x, np.arange(0, x.size, 2)),
    'mean1': lambda x: x.mean(keepdims=True),
    'cumsum': lambda x: np.cumsum(x),
}
MASKS = ('greater', 'less', 'greater_equal', 'less_equal', 'equal', 'values')
FRESH = ('OZONE', 'NEWVAR', 'T1', 'Q', 'RENAMED_16_CHARS', 'SUM_AB')
ANYSTD = [tuple(v) for v in I.STD_DIMS.values()]
CHANGING = ('slice', 'apply', 'subset', 'rename', 'eval', 'stack', 'interp',
            'mfopen')


# ------------------------------------------------------------------ oracle
def listed_names(varlist):
    return [varlist[i:i + 16].strip() for i in range(0, len(varlist), 16)
            if varlist[i:i + 16].strip()]


def coherence(f, std_dims):
    """primary oracle: list of (clause, detail)"""
    out = []
    dims = dict((k, len(d)) for k, d in f.dimensions.items())
    nvars = getattr(f, 'NVARS', None)
    varlist = getattr(f, 'VAR-LIST', None)
    if nvars is None or varlist is None:
        out.append(('nvars-attr', 'NVARS=%r VAR-LIST=%r' % (nvars, varlist)))
        return out
    nvars = int(nvars)
    names = []
    anystd = [tuple(v) for v in I.STD_DIMS.values()]
    listable = [k for k in f.variables.keys()
                if tuple(f.variables[k].dimensions) in anystd and
                len(k) <= 16 and not k.endswith('TFLAG')]
    # a file without any listable variable (all of them moved off the
    # standard dimensions, e.g. by a zipped ROW/COL selection) lists
    # nothing: NVARS 0, empty VAR-LIST, and VAR / TFLAG of width
    # max(NVARS, 1) = 1, which is how the format defines the VAR dimension
    width = nvars
    if nvars == 0 and not listable:
        width = 1
    if len(varlist) % 16 != 0:
        out.append(('varlist-width', 'len(VAR-LIST) = %d is not a multiple '
                    'of 16: %r' % (len(varlist), varlist)))
    else:
        names = listed_names(varlist)
        if nvars != len(varlist) // 16:
            out.append(('nvars-varlist-len', 'NVARS = %d but VAR-LIST holds '
                        '%d 16-wide fields: %r' % (nvars, len(varlist) // 16,
                                                   varlist)))
        elif nvars != len(names):
            out.append(('nvars-names', 'NVARS = %d but VAR-LIST names %r' % (
                nvars, names)))
    if 'VAR' not in dims:
        out.append(('nvars-vardim', 'dimension VAR missing'))
    elif dims['VAR'] != width:
        out.append(('nvars-vardim', 'NVARS = %d but len(dimension VAR) = %d '
                    '(VAR-LIST %r)' % (nvars, dims['VAR'], varlist)))
    if 'TFLAG' not in f.variables:
        out.append(('tflag-missing', 'no TFLAG variable'))
        tflag = None
    else:
        tflag = f.variables['TFLAG']
        if len(tflag.shape) != 3 or tflag.shape[1] != width:
            out.append(('nvars-tflag', 'NVARS = %d but TFLAG.shape = %r' % (
                nvars, tuple(tflag.shape))))
    for nm in names:
        if nm not in f.variables:
            out.append(('listed-missing', 'VAR-LIST names %r which is not a '
                        'variable (variables %r)' % (
                            nm, list(f.variables.keys()))))
        elif tuple(f.variables[nm].dimensions) not in anystd:
            out.append(('listed-dims', 'listed variable %s has dimensions %r'
                        % (nm, tuple(f.variables[nm].dimensions))))
    for att, dk, clause in (('NROWS', 'ROW', 'nrows'), ('NCOLS', 'COL',
                                                        'ncols'),
                            ('NLAYS', 'LAY', 'nlays')):
        if dk in dims:
            got = getattr(f, att, None)
            if got is None or int(got) != dims[dk]:
                out.append((clause, '%s = %r but len(dimension %s) = %d' % (
                    att, got, dk, dims[dk])))
    for vk in f.variables.keys():
        gone = [d for d in f.variables[vk].dimensions if d not in dims]
        if gone:
            out.append(('dims-missing', 'variable %s uses dimensions %r that '
                        'the file no longer has (dimensions %r)' % (
                            vk, gone, sorted(dims))))
            break
    vg = getattr(f, 'VGLVLS', None)
    nlays = getattr(f, 'NLAYS', None)
    if vg is None or nlays is None or np.asarray(vg).size != int(nlays) + 1:
        out.append(('vglvls-len', 'VGLVLS = %r has %s entries, NLAYS = %r' % (
            None if vg is None else np.asarray(vg).tolist(),
            None if vg is None else np.asarray(vg).size, nlays)))
    if tflag is not None and len(tflag.shape) == 3 and tflag.shape[0] > 0 \
            and tflag.shape[1] > 0:
        t0 = np.asarray(tflag[0, 0, :])
        sd, stt = getattr(f, 'SDATE', None), getattr(f, 'STIME', None)
        if sd is None or int(sd) != int(t0[0]):
            out.append(('sdate-tflag', 'SDATE = %r but TFLAG[0,0] = %r' % (
                sd, t0.tolist())))
        if stt is None or int(stt) != int(t0[1]):
            out.append(('stime-tflag', 'STIME = %r but TFLAG[0,0] = %r '
                        '(SDATE %r)' % (stt, t0.tolist(), sd)))
        tf = np.asarray(tflag[:])
        if not (tf == tf[:, :1, :]).all():
            out.append(('tflag-columns', 'the VAR columns of TFLAG differ: '
                        'column 0 %r, all %r' % (tf[:2, 0].tolist(),
                                                 tf[:2].tolist())))
    return out


AUDIT_MAP = {'LAY': ('nlays',), 'ROW': ('nrows',), 'COL': ('ncols',),
             'VAR': ('nvars-vardim',), 'VAR-LIST-LEN': ('nvars-varlist-len',
                                                        'varlist-width'),
             'SDATE_TFLAG': ('sdate-tflag',), 'STIME_TFLAG': ('stime-tflag',),
             'has_TFLAG': ('tflag-missing',),
             'VAR-LIST': ('listed-missing', 'listed-dims', 'varlist-width',
                          'nvars-names')}


def second_opinion(f, primary, r, what):
    """audit_meta(fail='ignore') against the primary oracle"""
    if not hasattr(f, 'audit_meta'):
        r.label('audit:absent')
        return
    exc, val = attempt(f.audit_meta, fail='ignore')
    if exc is not None:
        r.label('audit:raised')
        return
    r.label('audit:ran')
    audit = val[1]
    failed = set(c for c, d in primary)
    for key, clauses in AUDIT_MAP.items():
        if key not in audit:
            continue
        mine_fail = any(c in failed for c in clauses)
        audit_fail = not bool(audit[key])
        if key == 'VAR-LIST-LEN' and 'nvars-attr' in failed:
            continue
        if key == 'VAR' and int(getattr(f, 'NVARS', -1)) == 0 and \
                'nvars-vardim' not in failed:
            # zero listed variables: VAR has length max(NVARS, 1) = 1,
            # which audit_meta compares with NVARS itself
            continue
        if key == 'VAR-LIST' and not getattr(f, 'VAR-LIST', '').strip():
            # audit_meta derives the expected list from the variables when
            # VAR-LIST is empty; the property does not ask for that
            continue
        if mine_fail and not audit_fail:
            # the primary oracle already reports this result as a violation
            # (to be analysed under the findings protocol); the audit not
            # seeing it is recorded, not fatal - audit_meta shares code
            # (getVarlist) with the operations being judged
            r.label('audit:missed-primary-failure')
            continue
        if mine_fail != audit_fail:
            raise HarnessError(
                'C10 oracles disagree after %s: audit_meta[%s]=%r but '
                'primary clauses %r -> %r' % (what, key, audit[key], clauses,
                                              sorted(failed)))


# ------------------------------------------------------------------ machine
def to_sel(s):
    if s[0] == 'int':
        return int(s[1])
    if s[0] == 'list':
        return [int(i) for i in s[1]]
    return slice(*s[1])


def step_class(step):
    op, a = step
    if op == 'apply':
        k = 'apply'
        if 'TSTEP' in a['dims']:
            k += ':TSTEP'
        lay = a['dims'].get('LAY')
        if isinstance(lay, list):
            k += ':LAYcall'
        return k
    if op == 'stack' and a.get('dim', 'TSTEP') != 'TSTEP':
        return 'stack:' + a['dim']
    if op == 'slice' and any(v[0] == 'list' for v in a['dims'].values()):
        return 'slice:zip'
    if op == 'mfopen':
        return 'mfopen:' + a['dim']
    return op


class Machine(object):
    def __init__(self, spec, r, prep=None):
        self.spec = spec
        self.prep = prep
        self.r = r
        self.std = I.STD_DIMS[spec['ftype']]
        self.steps = []
        self.stopped = False
        self.returned = []
        self.disk = None
        self.cur = None
        self.on_disk = False
        r.label('route:' + spec['route'], 'ftype:%d' % spec['ftype'])
        if any(len(v) == 16 for v in spec['vars']):
            r.label('name16')
        r.label('prep:' + I.prep_kind(prep))
        if spec.get('longvar'):
            r.label('longvar')
        exc, f = attempt(I.build, spec, prep)
        if exc is not None:
            r.label('raised:build')
            self.stopped = True
            return
        self.cur = f
        if I.is_disk(spec):
            self.disk = f
            self.on_disk = True
        if I.prep_kind(prep) == 'synced':
            self.judge(f, ['build', {'route': spec['route']}],
                       'build:' + spec['route'])
        # an unsynced source (variable added by hand, TFLAG deleted) is the
        # user's doing and is not judged; every operation on it must still
        # return a coherent file

    # -- state the next step is drawn from
    def state(self):
        f = self.cur
        dims = dict((k, len(d)) for k, d in f.dimensions.items())
        # variables an IOAPI file can list: standard dimensions and a name
        # of at most 16 characters (longer names are accepted but unlisted)
        datavars = [k for k in f.variables.keys()
                    if tuple(f.variables[k].dimensions) in ANYSTD and
                    len(k) <= 16]
        extra = [k for k in f.variables.keys()
                 if k not in datavars and k != 'TFLAG']
        return dict(dims=dims, datavars=datavars, allvars=list(
            f.variables.keys()), extra=extra, on_disk=self.on_disk,
            tflag_stale=(not self.returned and I.prep_kind(self.prep) in (
                'var-added', 'no-tflag')),
            nlays=dims.get('LAY', 0))

    def judge(self, f, step, klass):
        probs = coherence(f, self.std)
        seen = set()
        for clause, detail in probs:
            if clause in seen:
                continue
            seen.add(clause)
            self.r.fail(clause, 'after %s: %s' % (describe(step), detail),
                        klass=klass)
        second_opinion(f, probs, self.r, describe(step))
        if probs:
            self.stopped = True

    def apply(self, step):
        op, a = step
        self.steps.append(step)
        f = self.cur
        self.r.label('op:' + op)
        if op == 'copy' and a.get('data', True) is False:
            self.r.label('copy:data=False')
        if op == 'apply' and isinstance(a['dims'].get('LAY'), list):
            self.r.label('apply:LAY' + a['dims']['LAY'][0])
        if op == 'rename':
            self.r.label('rename:' + a.get('kind', 'fresh'))
        if op == 'slice' and step_class(step) == 'slice:zip':
            self.r.label('slice:zip:' + (a['newdims'][0] if a.get('newdims')
                                         else 'default'))
        if op == 'stack':
            self.r.label('stack:%s:%s' % (a.get('dim', 'TSTEP'), a['with']
                                          if isinstance(a['with'], str)
                                          else a['with'][0]))
        if op == 'mfopen':
            self.r.label('mfopen:%s:%s' % (a['dim'], a['entry']))
            if self.disk is not None:
                # the pieces are re-opened from disk: no other dataset may
                # be open meanwhile (R8b); the chain left the source file
                # with its first operation
                d = self.disk
                self.disk = None
                libstate.release(d)
                del d
        exc, out = attempt(EXEC[op], f, a)
        if exc is not None:
            self.r.label('raised:' + op)
            self.raised_detail = '%s %s' % (exc_where(exc), str(exc)[:200])
            return
        self.returned.append(op)
        self.cur = out
        self.on_disk = False
        self.judge(out, step, step_class(step))

    def close(self):
        self.cur = None
        if self.disk is not None:
            d = self.disk
            self.disk = None
            libstate.release(d)
            del d

    def finish(self):
        r = self.r
        ops = [s[0] for s in self.steps]
        n = len(self.returned)
        r.label('len:%s' % ('0' if n == 0 else '1' if n == 1 else '2-3'
                            if n <= 3 else '4+'))
        tred = any(s[0] == 'apply' and 'TSTEP' in s[1]['dims']
                   for s in self.steps)
        if tred:
            r.label('tstep-reduction')
        for i, o in enumerate(ops[:-1]):
            if o == 'subset':
                r.label('subset-then-op')
        changed = any(o in CHANGING for o in self.returned)
        r.nontrivial = bool((n >= 2 and changed) or tred or 'rename' in ops)
        r.journal = dict(file=self.spec, steps=self.steps)
        if I.prep_kind(self.prep) != 'synced':
            r.journal['prep'] = self.prep
        self.close()
        return r


def describe(step):
    op, a = step
    return '%s(%s)' % (op, ', '.join('%s=%r' % kv for kv in sorted(
        a.items())))


def _slice(f, a):
    kw = dict((d, to_sel(s)) for d, s in a['dims'].items())
    if a.get('newdims'):
        kw['newdims'] = tuple(a['newdims'])
    return f.sliceDimensions(**kw)


def _headk(x, k=1):
    return x[:k]


def _tailk(x, k=1):
    return x[-k:]


OPTFUNCS = {'headk': _headk, 'tailk': _tailk}


def _apply(f, a):
    kw = {}
    for d, fn in a['dims'].items():
        if not isinstance(fn, list):
            kw[d] = fn
        elif fn[0] == 'dict':
            # dictionary form: {'func1d': f, option: value}
            kw[d] = {'func1d': OPTFUNCS[fn[1]], 'k': int(fn[2])}
        else:
            kw[d] = CALLABLES[fn[1]]
    return f.applyAlongDimensions(**kw)


def _block(f, lo, hi, how):
    if how == 'apply':
        return f.applyAlongDimensions(LAY=lambda x: x[lo:hi])
    piece = f.sliceDimensions(LAY=slice(lo, hi))
    if how == 'interp':
        return piece.interpSigma(np.array(f.VGLVLS[lo:hi + 1]),
                                 interptype='conserve')
    return piece


def _stack(f, a):
    w = a['with']
    dim = a.get('dim', 'TSTEP')
    if w == 'self':
        return f.stack(f, dim)
    if w == 'copy':
        return f.stack(f.copy(), dim)
    if w[0] == 'slice':
        return f.stack(f.sliceDimensions(**{dim: slice(w[1], w[2])}), dim)
    if w[0] == 'blocks':
        # ['blocks', cut, how_top, how_bottom]: two abutting LAY blocks of
        # the file, each derived by slice, by apply(LAY=callable) or by
        # slice + interpSigma onto its own edges, re-stacked along LAY
        n = len(f.dimensions['LAY'])
        parts = [_block(f, lo, hi, how) for lo, hi, how in
                 ((0, w[1], w[2]), (w[1], n, w[3]))]
        return parts[0].stack(parts[1], 'LAY')
    # ['tiles', [c1, c2, ...]]: the file is cut at the given indices with
    # sliceDimensions and re-assembled in order (list form for >2 pieces)
    cuts = [0] + list(w[1]) + [len(f.dimensions[dim])]
    parts = [f.sliceDimensions(**{dim: slice(lo, hi)})
             for lo, hi in zip(cuts[:-1], cuts[1:])]
    rest = parts[1:]
    return parts[0].stack(rest[0] if len(rest) == 1 else rest, dim)


def _mfopen(f, a):
    """cut the file along a['dim'] at a['cuts'] with sliceDimensions, save
    the pieces as netCDF files in the scratch directory and re-assemble
    them through the multi-file entry point"""
    import gc
    import PseudoNetCDF as pnc
    dim = a['dim']
    cuts = [0] + list(a['cuts']) + [len(f.dimensions[dim])]
    paths = []
    for lo, hi in zip(cuts[:-1], cuts[1:]):
        piece = f.sliceDimensions(**{dim: slice(lo, hi)})
        path = libstate.scratch_path('.nc')
        out = piece.save(path, format='NETCDF3_CLASSIC', verbose=0)
        out.close()
        del out, piece
        gc.collect()
        paths.append(path)
    try:
        if a['entry'] == 'open_mfdataset':
            from PseudoNetCDF.cmaqfiles._ioapi import ioapi
            res = ioapi.open_mfdataset(*paths, stackdim=dim)
        else:
            res = pnc.pncmfopen(paths, stackdim=dim, format='ioapi')
    finally:
        # the piece files were opened inside the call; nothing refers to
        # them any more: finalise them now, while nothing else is open
        gc.collect()
    return res


def _updatemeta(f, a):
    f.updatemeta()
    return f


def _getvarlist(f, a):
    f.getVarlist(update=True)
    return f


EXEC = {
    'updatemeta': _updatemeta,
    'getvarlist': _getvarlist,
    'mfopen': _mfopen,
    'copy': lambda f, a: f.copy(data=bool(a.get('data', True))),
    'slice': _slice,
    'subset': lambda f, a: f.subsetVariables(list(a['names'])),
    'rename': lambda f, a: f.renameVariable(a['old'], a['new']),
    'apply': _apply,
    'eval': lambda f, a: f.eval(a['expr'], copyall=bool(a['copyall'])),
    'mask': lambda f, a: f.mask(**{a['kind']: a['value']}),
    'stack': _stack,
    'interp': lambda f, a: f.interpSigma(
        np.array(a['vglvls'], dtype='f4'), interptype=a['type']),
}


# ------------------------------------------------------------------ drawing
def fresh_name(draw, taken, allow16):
    pool = [n for n in FRESH if allow16 or len(n) < 16]
    base = draw(st.sampled_from(pool))
    nm, i = base, 0
    while nm in taken:
        i += 1
        nm = '%s%d' % (base[:12], i)
    return nm


def draw_selector(draw, n):
    kind = draw(st.integers(0, 3))
    if kind == 0:
        return ['int', draw(st.integers(-n, n - 1))]
    if kind == 3 and draw(st.booleans()):
        return ['slice', [None, None, -1]]
    a = draw(st.integers(0, n - 1))
    b = draw(st.integers(a + 1, n))
    step = draw(st.sampled_from([None, None, 1, 2]))
    # start/stop anywhere a Python slice accepts, incl. beyond the axis
    lo, hi = I.spell_slice(draw, a, b, n)
    return ['slice', [lo, hi, step]]


def draw_step(draw, s, avoid):
    """one in-domain step for state s.  avoid=True: stay in the complement
    of the input classes of the known findings."""
    dims = s['dims']
    dv = s['datavars']
    ops = ['copy', 'slice', 'slice', 'slice', 'apply', 'apply', 'apply',
           'mask', 'stack', 'stack', 'interp', 'interp']
    if dv:
        ops += ['subset', 'subset', 'eval', 'eval', 'rename', 'rename']
    if not s['on_disk']:
        # in-place synchronisation, public and the tail of every other
        # operation: plain f.updatemeta(); f.getVarlist(update=True) (which
        # does not promise to rebuild TFLAG, so not on a source whose TFLAG
        # is out of step by construction)
        ops += ['updatemeta']
        if not s.get('tflag_stale'):
            ops += ['getvarlist']
    mfdims = [d for d in ('TSTEP', 'LAY', 'LAY', 'ROW', 'COL')
              if dims.get(d, 0) >= 2]
    if mfdims and not s['on_disk']:
        ops += ['mfopen']
    op = draw(st.sampled_from(ops))
    if op in ('updatemeta', 'getvarlist'):
        return [op, {}]
    if op == 'mfopen':
        # disk route of stack: pieces cut along one dimension (contiguous,
        # in order, so level edges abut), saved and re-assembled by
        # pncmfopen(paths, stackdim=..., format='ioapi') or
        # ioapi.open_mfdataset(*paths, stackdim=...)
        dim = draw(st.sampled_from(mfdims))
        n = dims[dim]
        k = draw(st.integers(1, min(2, n - 1)))
        cuts = sorted(draw(st.lists(st.integers(1, n - 1), min_size=k,
                                    max_size=k, unique=True)))
        return ['mfopen', {'dim': dim, 'cuts': cuts,
                           'entry': draw(st.sampled_from(
                               ['pncmfopen', 'pncmfopen',
                                'open_mfdataset']))}]
    if op == 'copy':
        # copy() or copy(data=False) (structure only).  props / dimensions /
        # variables = False deliberately leave parts of the file out (the
        # unchanged tree returns such building blocks without NVARS, TFLAG
        # or count attributes, or raises): outside the statement
        if draw(st.integers(0, 2)) == 0:
            return ['copy', {'data': False}]
        return ['copy', {}]
    if op == 'slice' and 'ROW' in dims and 'COL' in dims and \
            draw(st.integers(0, 4)) == 0:
        # selection of individual cells: ROW and COL as paired index lists
        # (default newdims ('POINTS',), or ('PERIM',), or a custom name),
        # optionally with windows on TSTEP / LAY.  The data variables move
        # to (TSTEP, LAY, <newdim>); with 'PERIM' that is the standard
        # boundary layout and they stay listed, otherwise nothing is listed
        k = draw(st.integers(1, 4))
        sel = {}
        for d in ('ROW', 'COL'):
            n = dims[d]
            sel[d] = ['list', draw(st.lists(st.integers(-n, n - 1),
                                            min_size=k, max_size=k))]
        for d in ('TSTEP', 'LAY'):
            if d in dims and draw(st.integers(0, 2)) == 0:
                sel[d] = draw_selector(draw, dims[d])
        out = {'dims': sel}
        nd = draw(st.sampled_from(['default', 'default', 'PERIM', 'CELLS']))
        if nd != 'default' and nd not in dims:
            out['newdims'] = [nd]
        return ['slice', out]
    if op == 'slice':
        cand = [d for d in ('TSTEP', 'LAY', 'ROW', 'COL') if d in dims]
        k = draw(st.integers(1, len(cand)))
        chosen = draw(st.permutations(cand))[:k]
        return ['slice', {'dims': dict((d, draw_selector(draw, dims[d]))
                                       for d in chosen)}]
    if op == 'subset':
        k = draw(st.integers(1, len(dv)))
        return ['subset', {'names': list(draw(st.permutations(dv))[:k])}]
    if op == 'rename':
        # fresh name (1/2); a name of 17-24 characters, which the library
        # accepts and leaves unlisted (1/4, only while another listed
        # variable remains); the name of another listed variable, which is
        # thereby replaced (1/4).  The last two LOWER the variable count.
        old = draw(st.sampled_from(dv))
        kind = draw(st.sampled_from(['fresh', 'fresh', 'long', 'onto']))
        if len(dv) < 2:
            kind = 'fresh'
        if kind == 'long':
            free = [n for n in I.LONG_NAMES + ('RENAMED_TO_AN_OVERLONG_1',)
                    if n not in s['allvars']]
            if not free:
                kind = 'fresh'
            else:
                new = draw(st.sampled_from(free))
        if kind == 'onto':
            new = draw(st.sampled_from([n for n in dv if n != old]))
        if kind == 'fresh':
            new = fresh_name(draw, s['allvars'], True)
        return ['rename', {'old': old, 'new': new, 'kind': kind}]
    if op == 'apply':
        cand = [d for d in ('TSTEP', 'LAY', 'ROW', 'COL', 'PERIM', 'POINTS',
                            'CELLS')
                if d in dims]
        k = draw(st.integers(1, min(3, len(cand))))
        chosen = draw(st.permutations(cand))[:k]
        out = {}
        for d in chosen:
            if d == 'LAY' and draw(st.integers(0, 2)) == 0:
                names = sorted(CALLABLES)
                if draw(st.integers(0, 2)) == 0:
                    # dictionary form with a length-changing option
                    out[d] = ['dict', draw(st.sampled_from(sorted(OPTFUNCS))),
                              draw(st.integers(1, max(1, dims['LAY'])))]
                else:
                    out[d] = ['call', draw(st.sampled_from(names))]
            else:
                out[d] = draw(st.sampled_from(REDUCERS))
        return ['apply', {'dims': out}]
    if op == 'eval':
        new = fresh_name(draw, s['allvars'], True)
        a = draw(st.sampled_from(dv))
        b = draw(st.sampled_from(dv))
        forms = ['%s = %s[:] * 2' % (new, a),
                 '%s = %s[:] + %s[:]' % (new, a, b),
                 '%s = np.sqrt(%s[:])' % (new, a)]
        if not s['on_disk']:
            forms += ['%s = %s * 2' % (new, a), '%s = %s - %s' % (new, a, b)]
        copyall = draw(st.booleans())
        return ['eval', {'expr': draw(st.sampled_from(forms)),
                         'copyall': copyall}]
    if op == 'mask':
        return ['mask', {'kind': draw(st.sampled_from(MASKS)),
                         'value': draw(st.integers(0, 96))}]
    if op == 'stack':
        # half along TSTEP; otherwise along ROW/COL (copy, a window of
        # itself, or tiles cut with sliceDimensions and re-assembled) or
        # along LAY (tiles only: the level edges of the pieces abut, which
        # is the only case in which n+1 edges describe the result)
        cand = [d for d in ('ROW', 'COL') if d in dims]
        if dims.get('LAY', 0) >= 2:
            cand += ['LAY', 'LAY']
        dim = 'TSTEP'
        if cand and draw(st.integers(0, 2)) > 0:
            dim = draw(st.sampled_from(cand))
        n = dims[dim]
        kinds = ['self', 'copy', 'slice'] if dim != 'LAY' else []
        if n >= 2 and dim != 'TSTEP':
            kinds += ['tiles', 'tiles']
        if n >= 2 and dim == 'LAY':
            kinds += ['blocks', 'blocks', 'blocks']
        kind = draw(st.sampled_from(kinds))
        if kind in ('self', 'copy'):
            w = kind
        elif kind == 'slice':
            a = draw(st.integers(0, n - 1))
            w = ['slice', a, draw(st.integers(a + 1, n))]
        elif kind == 'blocks':
            hows = ['slice', 'apply', 'interp']
            w = ['blocks', draw(st.integers(1, n - 1)),
                 draw(st.sampled_from(hows)), draw(st.sampled_from(hows))]
        else:
            k = draw(st.integers(1, min(2, n - 1)))
            w = ['tiles', sorted(draw(st.lists(st.integers(1, n - 1),
                                               min_size=k, max_size=k,
                                               unique=True)))]
        return ['stack', {'with': w, 'dim': dim}]
    if op == 'interp':
        nz = draw(st.integers(1, 6))
        inner = draw(st.lists(st.integers(1, 63), min_size=nz - 1,
                              max_size=nz - 1, unique=True))
        vg = [1.0] + [k / 64.0 for k in sorted(inner, reverse=True)] + [0.0]
        kinds = ['conserve'] + (['linear', 'linear'] if s['nlays'] >= 2
                                else [])
        return ['interp', {'vglvls': vg, 'type': draw(st.sampled_from(kinds))}]
    raise HarnessError('unknown op ' + op)


def _tier():
    import os
    import sys
    av = sys.argv
    for i, x in enumerate(av):
        if x == '--tier' and i + 1 < len(av):
            return av[i + 1] if av[i + 1] in MAXSTEPS else 'quick'
        if x.startswith('--tier='):
            return x.split('=', 1)[1] if x.split('=', 1)[1] in MAXSTEPS \
                else 'quick'
    t = os.environ.get('VERIF_TIER', 'quick')
    return t if t in MAXSTEPS else 'quick'


def interactive(draw):
    r = Result()
    avoid = draw(st.booleans())
    spec = draw(I.ioapispecs(max_steps=6, cross_share=0, longvar_share=8,
                             vglvls_kinds=True, short_years=8))
    if avoid:
        r.label('complement-of-known')
    nsteps = draw(st.integers(1, MAXSTEPS[_tier()]))
    prep = 'synced'
    if draw(st.integers(0, 2)) == 0:
        prep = draw(I.preps(spec))
    m = Machine(spec, r, prep)
    try:
        for _ in range(nsteps):
            if m.stopped:
                break
            m.apply(draw_step(draw, m.state(), avoid))
    finally:
        res = m.finish()
    return res


def check_case(journal):
    """replay of a concrete journal, no Hypothesis"""
    r = Result()
    m = Machine(journal['file'], r, journal.get('prep'))
    try:
        for step in journal['steps']:
            if m.stopped:
                break
            m.apply([step[0], step[1]])
    finally:
        res = m.finish()
    return res


# ------------------------------------------------------------------ known
def _has16(journal):
    if any(len(v) == 16 for v in journal['file']['vars']):
        return True
    for op, a in journal['steps']:
        if op in ('rename',) and len(a['new']) == 16:
            return True
        if op == 'eval' and len(a['expr'].split('=')[0].strip()) == 16:
            return True
    return False


COUNT_CLAUSES = ('nvars-varlist-len', 'nvars-names', 'nvars-vardim',
                 'nvars-tflag')

# renameVariable(s) is not wrapped by ioapi_base: the old name stays in
# VAR-LIST, NVARS counts both, VAR/TFLAG keep the old count
known.register('C10-rename-varlist', lambda j, f: (
    f.klass == 'rename' and f.clause in COUNT_CLAUSES + ('listed-missing',)))
# copy()/stack()/rename of a file that holds non-IOAPI variables (the CF
# variables of griddesc(withcf=True)): copyVariable lists every variable
# and nothing prunes the list afterwards
known.register('C10-copy-stack-extra-vars', lambda j, f: (
    j['file']['route'] == 'griddesc_cf' and (
        (f.klass in ('copy', 'stack', 'rename') and
         f.clause in COUNT_CLAUSES + ('varlist-width', 'listed-dims')) or
        # same root cause one step later: eval(copyall=True) copies, the
        # polluted, misaligned VAR-LIST swallows the new name, and
        # subsetVariables([new name]) then returns a file without variables
        (f.klass == 'subset' and
         f.clause in ('nvars-vardim', 'nvars-tflag') and
         any(op == 'eval' and a['copyall'] for op, a in j['steps'][:-1])))))
# a reduction over TSTEP reduces the TFLAG integers themselves and leaves
# SDATE/STIME at the source's start
known.register('C10-tstep-reduce-tflag', lambda j, f: (
    f.klass.startswith('apply:TSTEP') and
    f.clause in ('sdate-tflag', 'stime-tflag')))
# a callable on LAY that returns n >= 2 layers: VGLVLS gets 2n entries
known.register('C10-lay-callable-vglvls', lambda j, f: (
    'LAYcall' in f.klass and f.clause == 'vglvls-len'))
# _add2Varlist parses the fixed-width VAR-LIST with str.split(): a
# 16-character name fuses with its right neighbour
known.register('C10-name16-split', lambda j, f: (
    _has16(j) and f.clause in COUNT_CLAUSES + ('listed-missing',
                                               'varlist-width')))

# ioapi stack along LAY joins the data but keeps the first operand's VGLVLS
known.register('C10-stack-lay-vglvls', lambda j, f: (
    f.klass == 'stack:LAY' and f.clause == 'vglvls-len'))

# _add2Varlist appends a 16-wide field to a VAR-LIST that is not fixed-width
# (unpadded / blank separated input): the new name fuses with the last one
# and both are pruned.  Only the first operation on such a source can show
# it (every result is fixed-width again).
known.register('C10-unpadded-varlist-append', lambda j, f: (
    I.prep_kind(j.get('prep')) in ('varlist-stripped',
                                   'varlist-single-blank') and
    len(j['steps']) == 1 and
    # input class: the operation makes _add2Varlist append a name
    (j['file']['route'] == 'griddesc_cf' or
     j['steps'][0][0] in ('eval', 'rename')) and
    # symptom: names were pruned, so that nothing is listed although a
    # listable variable exists (the list itself is fixed-width again)
    f.clause in ('nvars-vardim', 'nvars-tflag')))
