"""C18 - GEOS-Chem binary punch: read/write round trip and scaling.

Generator: bpch spec (1-3 time blocks x 1-3 categories x 1-3 tracers,
per-tracer layer counts, nested-grid offsets, tracerinfo/diaginfo tables with
category offsets, scales and units), encoded by the independent reference
codec vf/ref/bpch_ref.py.  Oracles: see RULE."""
import binascii
import contextlib
import gc
import io
import os
import shutil
import struct

import numpy as np
from hypothesis import strategies as st

from ..core import Result, guard, attempt
from ..ref import bpch_ref as B
from .. import libstate
from .. import known

ID = 'C18'
LEVEL = 'exploration'
RULE = (
    'Hypothesis: bpch spec = 1-3 time blocks x 1-3 diagnostic categories '
    '(GEOS-Chem names, diaginfo offsets 0/100/1000/.., categories may share '
    'an offset) x 1-3 tracers (ids 1-999, per-tracer layer counts 1-4 or 47,'
    ' scale factors from {1, 1e9, 1e6, 1e-3, 2.5, ...} rendered E10.3, units),'
    ' grid 1-5 x 1-4 cells, nested-grid offsets I0/J0/L0, grid header '
    'variants, individual window origins per tracer, file type / title / '
    'block unit / reserved text with leading, inner and trailing blanks '
    '(presented and re-written verbatim), tau0/tau1 float64 hours (whole, halves, k/3 k/6 k/60 h '
    'series and arbitrary doubles at 1e5..3e5 h), tracerinfo/diaginfo tables with decoy rows, with/without '
    'comment headers; REAL*4 payload either arbitrary bit patterns (NaN, inf,'
    ' denormal, -0.0) or exactly representable k*2^e values.  Files are '
    'written by the independent struct-only codec vf/ref/bpch_ref.py (anchored'
    ' on the repository sample and the literals of its tests).  Plus an '
    'enumeration of every (time blocks, categories, tracers) count in 1..3 '
    'with layer patterns.  Oracle: (a) bpch1(noscale=True): variable names = '
    'category_tracername in file order, shapes (nt,nl,nj,ni), values '
    'bit-identical to the encoded REAL*4, tau0/tau1 bit-equal float64 (for '
    'bpch1 and bpch2, scaled and unscaled; bpch2 time = tau0; time_bounds '
    '= the (tau0, tau1) pairs exactly and time within [tau0, tau1] wherever '
    'a reader presents them, also after write -> read; 1-4 blocks, '
    'contiguous, with gaps, or instantaneous, stored chronologically or in '
    'permuted order - every reader presents file order; every write (of '
    'the bpch1/bpch2 scaled and unscaled files and of the derived file) '
    'leaves the source values bit-identical and a second write of the same '
    'object gives the same bytes), tracerid, '
    'category, base unit, grid header attributes, STARTI/J/K = offsets-1; '
    'writer output byte-identical to the input file.  (b) bpch1 scaled: '
    'values = raw x table scale (float32 product, rtol 1e-6, NaN==NaN), '
    'units/scale = table row of offset+tracer id.  (c) bpch2 (block-walking '
    'reader): same tracer variable names, shapes, values (bit-identical '
    'unscaled; rtol 1e-6 scaled).  (d) write of the scaled file and re-read:'
    ' reference decode of the written bytes has the same block sequence, '
    'category, tracer id, tau0/tau1, model name, resolution, halfpolar, '
    'center180, dims, offsets, header unit; re-read values within rtol 4e-6 '
    'of the first read (k*2^e payload only), tau0/tau1/tracerid/category '
    'equal.  (e) the scaled file sliced to its later time blocks (derived '
    'bpch-convention file) is written and reference-decoded the same way.  '
    '(f) pncopen(format="bpch") (bpch1 with fallback) presents the same '
    'scaled values; the front-end class geoschemfiles.bpch opened with a '
    'drawn noscale True/False and reader unspecified/bpch1/bpch2 is judged '
    'like the direct readers (unscaled bit-identical, scaled = raw x scale, '
    'tau exact).  ~1/7 of multi-block files are irregular (from the second '
    'time block on the last block carries another tracer): bpch1 may refuse '
    'them, bpch2 and the front end must present every variable on the '
    'blocks that hold it.  A third of the table rows render SCALE so that '
    'it fills the whole 10-character field (negative, 5 digits, plain '
    'number).  Non-trivial: >=2 time blocks and differing layer counts, or a '
    'nested offset != 1, or a scale != 1.  Distinct by sha1 of the spec.')
ASSUMPTIONS = [
    'numpy float32 multiplication is the reference for raw x scale',
    'the reference codec vf/ref/bpch_ref.py (validated by its selfcheck '
    'against testcase/geoschemfiles and the ALD2 literals of the repo tests)',
    'categories are listed in diaginfo.dat and every offset+tracer id has a '
    'tracerinfo.dat row (files without table rows are outside the statement)',
]
BUDGET = {'quick': dict(examples=2400, max_s=240),
          'thorough': dict(examples=40000, max_s=3000)}

CATS = ['IJ-AVG-$', 'IJ-24H-$', 'INST-MAP', 'ANTHSRCE', 'BIOFSRCE',
        'PEDGE-$', 'DAO-FLDS', 'JV-MAP-$', 'CHEM-L=$', 'TIME-SER',
        'DRYD-VEL', 'PL-SUL=$', 'NOX-AC-$', 'WETDLS-$', 'CV-FLX-$']
OFFSETS = [0, 0, 0, 100, 1000, 1000, 2000, 4000, 12000, 54321000]
NAMES = ['NOx', 'Ox', 'PAN', 'CO', 'ALK4', 'ISOP', 'HNO3', 'H2O2', 'ACET',
         'MEK', 'ALD2', 'RCHO', 'MVK', 'MACR', 'PMN', 'PPN', 'R4N2', 'PRPE',
         'C3H8', 'CH2O', 'C2H6', 'N2O5', 'HNO4', 'MP', 'DMS', 'SO2', 'SO4',
         'SO4s', 'MSA', 'NH3', 'NH4', 'NIT', 'NITs', 'BCPI', 'OCPI', 'BCPO',
         'OCPO', 'DST1', 'SALA', 'PSURF', 'TMPU', 'OH', 'HO2', 'Rn', 'Pb',
         'Be7', 'CH3I', 'CO2bf', 'TAGCOna1']
SCALES = [1.0, 1.0, 1e9, 1e9, 1e6, 1e12, 1e-3, 2.5, 1.234e3, 9.876e-2,
          1e-9, 1.0e2, 6.022e5]
# SCALE renderings that fill the whole 10-character field (columns 62-71):
# negative scales, five significant digits, plain numbers
SCALE_TEXTS = ['-2.500E+00', '1.2345E+03', '1000000000', '1.0000E+09',
               '-1.000E-03', '0.00100000', '123456.789', '2.5000E+00',
               '-1.000E+09', '9.9999E-01']
UNITS = ['ppbv', 'ppbC', 'v/v', 'molec/cm2/s', 'kg', 'unitless', 'hPa', 'K',
         'kg/m3', 'atoms C/cm2/s', 'cm/s', 'ug/m3', 'mol/mol', 'm']
HUNITS = ['v/v', 'molec/cm2/s', 'kg', 'unitless', 'hPa', 'K', 'kg/m2/s',
          'cm/s', 'm', 'ppbv',
          # fixed-width text the format keeps verbatim: leading / inner blanks
          ' v/v', 'kg / m2 / s', '  unitless', 'molec cm-2 s-1']
RESERVED = ['', '', '', ' 144  91  47', 'x', '   centred   ']
FTYPES = ['CTM bin 02', 'CTM bin 02', '  CTM bin 02', 'CTM bin 4D',
          ' CTM  bin  02 ']
TITLES = ['GEOS-CHEM binary punch file v. 2.0',
          'GEOS-CHEM diag49 instantaneous timeseries', '',
          '                     GEOS-CHEM binary punch file v. 2.0',
          '   GEOS-CHEM   ADJOINT   output   ', ' x']
MODELS = [('GEOS5_47L', [2.5, 2.0]), ('GEOS5_47L', [5.0, 4.0]),
          ('GEOS4_30L', [2.5, 2.0]), ('GEOS57_47L', [0.625, 0.5]),
          ('MERRA_47L', [0.6666666865348816, 0.5]), ('GEOSFP_47L', [5.0, 4.0])]


# ------------------------------------------------------------------ strategy
def _f32bytes(vals):
    return struct.pack('>%df' % len(vals), *vals)


@st.composite
def payload(draw, n, mode):
    if mode == 'bits':
        return binascii.hexlify(draw(st.binary(min_size=4 * n,
                                               max_size=4 * n))).decode()
    e = draw(st.integers(-40, 40))
    ks = draw(st.lists(st.integers(-(2 ** 20), 2 ** 20), min_size=n,
                       max_size=n))
    return binascii.hexlify(_f32bytes([k * 2.0 ** e for k in ks])).decode()


@st.composite
def cases(draw, tier='quick'):
    ni = draw(st.integers(1, 5))
    nj = draw(st.integers(1, 4))
    nt = draw(st.sampled_from([1, 2, 2, 3, 3, 4]))
    ncat = draw(st.integers(1, 3))
    catnames = draw(st.permutations(CATS))[:ncat]
    cats = []
    usedfull = {}
    table = []
    names = list(draw(st.permutations(NAMES)))
    layers_pool = draw(st.sampled_from([[1], [2], [1, 3], [1, 2, 4], [3, 47],
                                        [1, 2, 3, 4]]))
    for cn in catnames:
        off = draw(st.sampled_from(OFFSETS))
        ntr = draw(st.integers(1, 3))
        ids = draw(st.lists(st.integers(1, 99) if off % 1000 else
                            st.integers(1, 999), min_size=ntr, max_size=ntr,
                            unique=True))
        trs = []
        for tid in ids:
            full = tid + off
            if full not in usedfull:
                row = dict(tracer=full, name=names.pop(),
                           fullname=draw(st.sampled_from(
                               ['%s tracer', 'tagged %s', '%s'])),
                           molwt=draw(st.sampled_from([1.2e-2, 2.8e-2, 4.8e-2,
                                                       0.0, 1.0])),
                           carbon=draw(st.integers(1, 5)),
                           scale=draw(st.sampled_from(SCALES)),
                           unit=draw(st.sampled_from(UNITS)))
                row['fullname'] = row['fullname'] % row['name']
                if draw(st.sampled_from([False, False, True])):
                    row['scale_text'] = draw(st.sampled_from(SCALE_TEXTS))
                    row['scale'] = float(row['scale_text'])
                usedfull[full] = row
                table.append(row)
            trs.append(dict(id=tid, nl=draw(st.sampled_from(layers_pool)),
                            hunit=draw(st.sampled_from(HUNITS))))
        cats.append(dict(name=cn, offset=off, tracers=trs))
    # a category with a non-zero offset may lack the offset row of one of
    # its tracers while the bare-numbered row exists (adjoint-style output):
    # bpch1 documents the fallback - name of the bare-numbered tracer, scale
    # 1, unit of the block header.  The bare number is the tracer of an
    # offset-0 category where possible (its own row must stay untouched).
    forbidden = set()
    if draw(st.sampled_from([False, False, False, True])):
        nz = [c for c in cats if c['offset'] != 0]
        if not nz and len(cats) >= 2:
            cats[-1]['offset'] = draw(st.sampled_from([1000, 2000, 12000]))
            for tr in cats[-1]['tracers']:
                if tr['id'] + cats[-1]['offset'] not in usedfull:
                    row = dict(tracer=tr['id'] + cats[-1]['offset'],
                               name=names.pop(), fullname='moved',
                               molwt=1.0, carbon=1,
                               scale=draw(st.sampled_from(SCALES)),
                               unit=draw(st.sampled_from(UNITS)))
                    usedfull[row['tracer']] = row
                    table.append(row)
            nz = [cats[-1]]
        if nz:
            c = nz[-1]
            zero = [z for z in cats if z['offset'] == 0]
            cnames = set(usedfull[t2['id'] + c['offset']]['name']
                         for t2 in c['tracers']
                         if t2['id'] + c['offset'] in usedfull)
            cand = [tr['id'] for z in zero for tr in z['tracers']
                    if tr['id'] + c['offset'] not in usedfull and
                    tr['id'] in usedfull and
                    usedfull[tr['id']]['name'] not in cnames and
                    all(t2['id'] != tr['id'] for t2 in c['tracers'])]
            if cand:
                tid = draw(st.sampled_from(cand))
            else:
                tid = 1
                while tid in usedfull or tid + c['offset'] in usedfull or \
                        any(t2['id'] == tid for t2 in c['tracers']):
                    tid += 1
                row = dict(tracer=tid, name=names.pop(), fullname='bare row',
                           molwt=1.0, carbon=2,
                           scale=draw(st.sampled_from(SCALES)),
                           unit=draw(st.sampled_from(UNITS)))
                usedfull[tid] = row
                table.append(row)
            forbidden.add(tid + c['offset'])
            c['tracers'].append(dict(
                id=tid, nl=draw(st.sampled_from(layers_pool)),
                hunit=draw(st.sampled_from(HUNITS)), norow=True))
    # decoy rows (other ids) and decoy categories
    tiny = draw(st.sampled_from([False] * 11 + [True]))
    ndec = draw(st.sampled_from([0, 1, 2, 3] if tiny else [1, 2, 3]))
    for k in range(ndec):
        full = draw(st.integers(1, 99999))
        while full in usedfull or full in forbidden:
            full += 1
        row = dict(tracer=full, name=names.pop(), fullname='decoy',
                   molwt=1.0, carbon=1, scale=draw(st.sampled_from(SCALES)),
                   unit=draw(st.sampled_from(UNITS)))
        usedfull[full] = row
        table.append(row)
    table_order = draw(st.sampled_from(['asis', 'sorted', 'reversed']))
    if table_order == 'sorted':
        table.sort(key=lambda r: r['tracer'])
    elif table_order == 'reversed':
        table.sort(key=lambda r: -r['tracer'])
    diag_extra = [c for c in CATS if c not in catnames][:draw(
        st.sampled_from([0, 1, 2] if tiny else [1, 2]))]
    model = draw(st.sampled_from(MODELS))
    nested = draw(st.sampled_from([True, True, False]))
    if nested:
        start = [draw(st.integers(1, 60)), draw(st.integers(1, 40)),
                 draw(st.sampled_from([1, 1, 1, 2, 5]))]
    else:
        start = [1, 1, 1]
    # diagnostics on sub-domains: individual window origins per tracer (the
    # extent stays common), and a reserved text per block
    if nested and draw(st.sampled_from([False, True])):
        for c in cats:
            for tr in c['tracers']:
                if draw(st.sampled_from([True, True, False])):
                    tr['start'] = [draw(st.integers(1, 60)),
                                   draw(st.integers(1, 40)),
                                   draw(st.sampled_from([1, 1, 2, 5]))]
    if draw(st.sampled_from([False, False, False, False, True])):
        for c in cats:
            for tr in c['tracers']:
                rs = draw(st.sampled_from(RESERVED))
                if rs:
                    tr['reserved'] = rs
    # tau: float64 hours since 1985 - whole hours, halves, and block
    # boundaries of 20-/10-/1-minute series (k/3, k/6, k/60 h, not
    # representable in binary) at realistic magnitudes, or any double
    tau = draw(st.sampled_from([0.0, 175320.0, 140256.0, 8760.5, 201623.0,
                                100000.0, 262968.0, 299999.0]))
    frac = draw(st.sampled_from(['none', 'none', '/3', '/6', '/60', 'any']))
    if frac in ('/3', '/6', '/60'):
        den = float(frac[1:])
        tau = tau + draw(st.integers(1, int(den) * 24 - 1)) / den
    elif frac == 'any':
        tau = draw(st.floats(min_value=1e5, max_value=3e5, allow_nan=False))
    dt = draw(st.sampled_from([1.0, 24.0, 744.0, 0.5, 3.0, 1.0 / 3.0,
                               1.0 / 6.0, 1.0 / 60.0, 0.1]))
    inst = draw(st.sampled_from([False, False, False, True]))
    # contiguous blocks, or blocks separated by a gap (e.g. one output
    # hour per day)
    gap = draw(st.sampled_from([0.0, 0.0, 1.0, 24.0, 1.0 / 3.0]))
    times = []
    for t in range(nt):
        t0 = tau + t * (dt + gap)
        times.append([t0, t0 if inst else t0 + dt])
    # two averaging periods from the same start (1-day and 2-day mean):
    # blocks of one tracer that share tau0 and differ in tau1
    if nt >= 2 and not inst and draw(st.sampled_from([False] * 5 + [True])):
        times[1] = [times[0][0], times[0][1] + dt]
    # blocks need not be stored chronologically (appended reruns, merged
    # files): the readers present file order
    if nt >= 2 and draw(st.sampled_from([False, False, True])):
        times = [list(t) for t in draw(st.permutations(times))]
    mode = draw(st.sampled_from(['exact', 'exact', 'bits']))
    data = []
    for t in range(nt):
        for c in cats:
            for tr in c['tracers']:
                data.append(draw(payload(ni * nj * tr['nl'], mode)))
    # how the front-end class (geoschemfiles.bpch = pncopen format 'bpch')
    # is asked to open the file
    front = [draw(st.sampled_from([True, False])),
             draw(st.sampled_from([None, 'bpch1', 'bpch2', 'bpch2']))]
    # irregular file: from the second time block on, the last block of each
    # time carries another tracer of the same category (own table row); only
    # the block-walking reader (and the front end falling back to it) can
    # present such a file
    swap = None
    nvar = sum(len(c['tracers']) for c in cats)
    if nt >= 2 and nvar >= 2 and draw(st.sampled_from([False] * 6 + [True])):
        off = cats[-1]['offset']
        alt = 1
        while alt + off in usedfull or alt + off in forbidden or any(
                tr['id'] == alt for tr in cats[-1]['tracers']):
            alt += 1
        row = dict(tracer=alt + off, name=names.pop(), fullname='swapped in',
                   molwt=1.0, carbon=1, scale=draw(st.sampled_from(SCALES)),
                   unit=draw(st.sampled_from(UNITS)))
        usedfull[alt + off] = row
        table.append(row)
        swap = dict(alt_id=alt)
    return dict(ni=ni, nj=nj, start=start, modelname=model[0], res=model[1],
                halfpolar=draw(st.sampled_from([1, 1, 0])),
                center180=draw(st.sampled_from([1, 1, 0])),
                times=times, cats=cats, table=table, diag_extra=diag_extra,
                comments=draw(st.sampled_from([True] * 7 + [False])),
                mode=mode, data=data, front=front, swap=swap,
                ftype=draw(st.sampled_from(FTYPES)),
                title=draw(st.sampled_from(TITLES)))


def strategy(tier):
    return cases(tier)


def _enum_spec(nt, ncat, ntr, nls, same_offset):
    cats = []
    table = []
    seen = set()
    k = 0
    for ci in range(ncat):
        off = 0 if same_offset else 1000 * ci
        trs = []
        for ti in range(ntr):
            tid = ti + 1
            full = off + tid
            if full not in seen:
                seen.add(full)
                table.append(dict(tracer=full, name=NAMES[len(table)],
                                  fullname='%s tracer' % NAMES[len(table)],
                                  molwt=1.2e-2, carbon=1,
                                  scale=SCALES[(2 + len(table)) % len(SCALES)],
                                  unit=UNITS[len(table) % len(UNITS)]))
            trs.append(dict(id=tid, nl=nls[ti % len(nls)], hunit='v/v'))
        cats.append(dict(name=CATS[ci], offset=off, tracers=trs))
    data = []
    ni, nj = 3, 2
    for t in range(nt):
        for c in cats:
            for tr in c['tracers']:
                n = ni * nj * tr['nl']
                data.append(binascii.hexlify(_f32bytes(
                    [float(k * 64 + i) for i in range(n)])).decode())
                k += 1
    return dict(ni=ni, nj=nj, start=[1, 1, 1], modelname='GEOS5_47L',
                res=[2.5, 2.0], halfpolar=1, center180=1,
                times=[[100.0 + 24 * t, 124.0 + 24 * t] for t in range(nt)],
                cats=cats, table=table, diag_extra=[], comments=True,
                mode='exact', data=data,
                title='GEOS-CHEM binary punch file v. 2.0')


def enumerate_cases(tier):
    for nt in (1, 2, 3):
        for ncat in (1, 2, 3):
            for ntr in (1, 2, 3):
                for nls in ([1], [2, 1], [1, 3, 2]):
                    if len(nls) > ntr:
                        continue
                    for same in (False, True):
                        if same and ncat == 1:
                            continue
                        yield _enum_spec(nt, ncat, ntr, nls, same)


# ------------------------------------------------------------------ model
def _last_pos(spec):
    return sum(len(c['tracers']) for c in spec['cats']) - 1


def blocks_of(spec):
    """reference block list (file order)"""
    blocks = []
    k = 0
    swap = spec.get('swap')
    for ti, (t0, t1) in enumerate(spec['times']):
        pos = 0
        for c in spec['cats']:
            for tr in c['tracers']:
                tid = tr['id']
                if swap and ti >= 1 and pos == _last_pos(spec):
                    tid = swap['alt_id']
                blocks.append(dict(
                    modelname=spec['modelname'], res=spec['res'],
                    halfpolar=spec['halfpolar'], center180=spec['center180'],
                    category=c['name'], tracer=tid, unit=tr['hunit'],
                    tau0=t0, tau1=t1, reserved=tr.get('reserved', ''),
                    dim=[spec['ni'], spec['nj'], tr['nl']],
                    start=tr.get('start', spec['start']),
                    data=binascii.unhexlify(spec['data'][k])))
                k += 1
                pos += 1
    return blocks


def table_row(spec, full):
    for r in spec['table']:
        if r['tracer'] == full:
            return r
    return None


def eff_row(spec, c, tr):
    """the table row that applies to a block: offset + tracer number, or -
    when that row is missing - the documented fallback of bpch1: the
    bare-numbered tracer's name, scale 1, the unit of the block header"""
    row = table_row(spec, tr['id'] + c['offset'])
    if row is not None:
        return row
    bare = table_row(spec, tr['id'])
    return dict(bare, scale=1.0, unit=tr['hunit'].strip(), scale_text=None,
                tracer=tr['id'] + c['offset'], fallback=True,
                bare_scale=bare['scale'])


def variables_of(spec):
    """ordered list of dict(key, cat, id, nl, row, raw[nt,nl,nj,ni] >f4)"""
    out = []
    nt = len(spec['times'])
    per = sum(len(c['tracers']) for c in spec['cats'])
    k = 0
    for c in spec['cats']:
        for tr in c['tracers']:
            row = eff_row(spec, c, tr)
            arrs = []
            for t in range(nt):
                raw = binascii.unhexlify(spec['data'][t * per + k])
                arrs.append(np.frombuffer(raw, dtype='>f4').reshape(
                    tr['nl'], spec['nj'], spec['ni']))
            out.append(dict(key='%s_%s' % (c['name'], row['name']),
                            cat=c['name'], id=tr['id'], nl=tr['nl'], row=row,
                            hunit=tr['hunit'], raw=np.array(arrs),
                            start=list(tr.get('start', spec['start'])),
                            reserved=tr.get('reserved', '')))
            k += 1
    swap = spec.get('swap')
    if swap:
        # last variable: first time block only; the swapped-in tracer holds
        # the later blocks and is met last by a block walk
        x = out[-1]
        c = spec['cats'][-1]
        row = table_row(spec, swap['alt_id'] + c['offset'])
        y = dict(x, key='%s_%s' % (c['name'], row['name']),
                 id=swap['alt_id'], row=row, raw=x['raw'][1:])
        x['raw'] = x['raw'][:1]
        out.append(y)
    return out


def write_inputs(spec, d):
    os.makedirs(d, exist_ok=True)
    path = os.path.join(d, 'in.bpch')
    buf = B.encode(dict(ftype=spec.get('ftype', 'CTM bin 02'),
                        title=spec['title'],
                        blocks=blocks_of(spec)))
    with open(path, 'wb') as fo:
        fo.write(buf)
    rows = [dict(name=r['name'], fullname=r['fullname'], molwt=r['molwt'],
                 carbon=r['carbon'], tracer=r['tracer'], scale=r['scale'],
                 unit=r['unit'], scale_text=r.get('scale_text'))
            for r in spec['table']]
    with open(os.path.join(d, 'tracerinfo.dat'), 'w') as fo:
        fo.write(B.tracerinfo_text(rows, comments=spec['comments']))
    drows = [dict(offset=c['offset'], category=c['name'],
                  comment='%s diagnostic' % c['name']) for c in spec['cats']]
    drows += [dict(offset=3000, category=cn, comment='unused')
              for cn in spec['diag_extra']]
    with open(os.path.join(d, 'diaginfo.dat'), 'w') as fo:
        fo.write(B.diaginfo_text(drows, comments=spec['comments']))
    return path, buf


def quiet(fn, *a, **k):
    """the noscale branch of bpch1 prints every variable"""
    with contextlib.redirect_stdout(io.StringIO()):
        return fn(*a, **k)


def _bits_equal(a, b):
    a = np.ascontiguousarray(np.asarray(a), dtype='>f4')
    b = np.ascontiguousarray(np.asarray(b), dtype='>f4')
    return a.shape == b.shape and a.tobytes() == b.tobytes()


def _close(a, b, rtol):
    a = np.asarray(a, dtype='f8')
    b = np.asarray(b, dtype='f8')
    if a.shape != b.shape:
        return False
    with np.errstate(all='ignore'):
        return bool(np.isclose(a, b, rtol=rtol, atol=0.0,
                               equal_nan=True).all())


def _close2(a, b32, b64, rtol):
    """element-wise: a matches the float32 product or the float64 product
    (the statement does not fix the precision of the multiplication)"""
    a = np.asarray(a, dtype='f8')
    if a.shape != b32.shape:
        return False
    with np.errstate(all='ignore'):
        ok = np.isclose(a, np.asarray(b32, dtype='f8'), rtol=rtol, atol=0.0,
                        equal_nan=True)
        ok |= np.isclose(a, b64, rtol=rtol, atol=0.0, equal_nan=True)
    return bool(ok.all())


def _s(v):
    if isinstance(v, bytes):
        v = v.decode('latin1')
    return str(v).strip()


def _close_file(f):
    for k in ('_tracerinfofile', '_diaginfofile'):
        fo = getattr(f, k, None) if f is not None else None
        if fo is not None and hasattr(fo, 'close'):
            try:
                fo.close()
            except Exception:
                pass


# ------------------------------------------------------------------ known
def _input_class(spec):
    """coarse input class used in failure signatures of the open clauses"""
    nvar = sum(len(c['tracers']) for c in spec['cats'])
    out = []
    if not spec['comments']:
        out.append('tables-without-comment-header')
    if len(spec['table']) == 1 or \
            len(spec['cats']) + len(spec['diag_extra']) == 1:
        out.append('one-row-table')
    if len(spec['times']) == 2 and nvar == 1:
        out.append('2-blocks-1-tracer')
    return ','.join(out)


def _tag(r, n0, spec):
    """give the failures recorded since index n0 the input class"""
    k = _input_class(spec)
    for f in r.failures[n0:]:
        if not f.klass:
            f.klass = k


known.register(
    'C18-bpch1-diaginfo-first-line',
    lambda spec, f: (not spec['comments']) and
    f.clause in ('bpch1-noscale-open', 'bpch1-scaled-open') and
    'invalid literal for int()' in f.detail and
    f.where.startswith('ValueError@geoschemfiles/_bpch.py'))
known.register(
    'C18-bpch1-two-blocks-one-tracer',
    lambda spec, f: len(spec['times']) == 2 and
    sum(len(c['tracers']) for c in spec['cats']) == 1 and
    f.clause in ('bpch1-noscale-open', 'bpch1-scaled-open') and
    'occurs more than once' in f.detail and
    f.where.startswith('ValueError@geoschemfiles/_bpch.py'))
known.register(
    'C18-bpch2-one-row-table',
    lambda spec, f: (len(spec['table']) == 1 or
                     len(spec['cats']) + len(spec['diag_extra']) == 1) and
    (f.clause in ('bpch2-noscale-open', 'bpch2-scaled-open') or
     # the registered class falls back to bpch2 where bpch1 fails (the two
     # bpch1 findings above)
     (f.clause == 'master-open' and
      ((not spec['comments']) or
       (len(spec['times']) == 2 and
        sum(len(c['tracers']) for c in spec['cats']) == 1)))) and
    '0-d array' in f.detail and
    f.where.startswith('TypeError@geoschemfiles/_newbpch.py'))
known.register(
    'C18-bpch2-tau-int',
    lambda spec, f: any(float(t) != int(t) for tt in spec['times']
                        for t in tt) and
    f.clause == 'bpch2-rewrite-bytes' and 'first difference at byte' in
    f.detail and _diff_in_tau(spec, f.detail))


def _diff_in_tau(spec, detail):
    """the first differing byte lies in a tau0/tau1 field of a block
    header (bytes 84..100 of the 168-byte record)"""
    try:
        pos = int(detail.split('first difference at byte ')[1].split(' ')[0])
    except (IndexError, ValueError):
        return False
    off = 136
    for b in blocks_of(spec):
        n = 4 * b['dim'][0] * b['dim'][1] * b['dim'][2]
        lo = off + 44 + 4 + 84
        if lo <= pos < lo + 16:
            return True
        off += 44 + 176 + n + 8
    return False


def _fallback_scaled(spec):
    """input class of C18-bpch2-fallback-scale: a block whose offset +
    tracer number has no tracerinfo row while the bare-numbered row exists
    with a scale != 1"""
    for c in spec['cats']:
        for tr in c['tracers']:
            if table_row(spec, tr['id'] + c['offset']) is None:
                bare = table_row(spec, tr['id'])
                if bare is not None and bare['scale'] != 1.0:
                    return True
    return False


known.register(
    'C18-bpch2-fallback-scale',
    lambda spec, f: _fallback_scaled(spec) and f.klass == 'scale=1' and
    f.clause.endswith('-values') and
    f.clause.split('-')[0] in ('bpch2', 'front', 'master') and
    '-scaled' in f.clause and 'raw x 1.0' in f.detail)


known.register(
    'C18-bpch2-reserved-dropped',
    lambda spec, f: any(tr.get('reserved', '').strip()
                        for c in spec['cats'] for tr in c['tracers']) and
    ((f.clause == 'bpch2-rewrite-bytes' and
      'first difference at byte' in f.detail) or
     f.clause in ('bpch2-written-reserved', 'front-reserved')))


# ------------------------------------------------------------------ oracle
def check_tracer_vars(r, f, exp, clause, scaled, who, bits_mode):
    """names / shapes / values / identifying attributes of the tracer
    variables of a library file against the model"""
    keys = [k for k in f.variables.keys()][:len(exp)]
    want = [e['key'] for e in exp]
    if keys != want:
        r.fail(clause + '-names', '%s: tracer variables %r, expected %r' %
               (who, keys, want))
        return False
    ok = True
    for e in exp:
        got, v = guard(r, clause + '-getvar',
                       lambda: f.variables[e['key']])
        if not got:
            ok = False
            continue
        got, arr = guard(r, clause + '-getdata', lambda: np.asarray(v[...]))
        if not got:
            ok = False
            continue
        if arr.shape != e['raw'].shape:
            r.fail(clause + '-shape', '%s: %s has shape %r, expected %r' %
                   (who, e['key'], arr.shape, e['raw'].shape))
            ok = False
            continue
        if not scaled:
            if not _bits_equal(arr, e['raw']):
                r.fail(clause + '-values', '%s: %s raw values differ from '
                       'the encoded REAL*4 (got %s, expected %s)' % (
                           who, e['key'], arr.ravel()[:8],
                           e['raw'].ravel()[:8]))
                ok = False
        else:
            with np.errstate(all='ignore'):
                want_arr = (e['raw'].astype('f4') *
                            np.float32(e['row']['scale']))
                want64 = e['raw'].astype('f8') * e['row']['scale']
            if not _close2(arr, want_arr, want64, 1e-6):
                r.fail(clause + '-values', '%s: %s scaled values differ '
                       'from raw x %r (got %s, expected %s)' % (
                           who, e['key'], e['row']['scale'],
                           arr.ravel()[:8], want_arr.ravel()[:8]),
                       klass='scale=1' if e['row']['scale'] == 1 else '')
                ok = False
    return ok


def check_case(spec):
    r = Result()
    exp = variables_of(spec)
    nt = len(spec['times'])
    nls = sorted(set(e['nl'] for e in exp))
    nested = spec['start'] != [1, 1, 1]
    scaled_any = any(e['row']['scale'] != 1.0 for e in exp)
    r.label('nt=%d' % nt, 'ncat=%d' % len(spec['cats']),
            'nvar=%d' % len(exp), 'mode:' + spec['mode'])
    if len(nls) > 1:
        r.label('layers-differ')
    if nested:
        r.label('nested-offset')
    if len(set(tuple(e['start']) for e in exp)) > 1:
        r.label('windows-differ-per-tracer')
    if spec.get('ftype', 'CTM bin 02') != spec.get('ftype', 'CTM bin 02'
                                                   ).strip() or \
            spec['title'] != spec['title'].strip():
        r.label('title-blanks-at-ends')
    if any(e['hunit'] != e['hunit'].strip() or e['reserved']
           for e in exp):
        r.label('block-text-verbatim')
    if scaled_any:
        r.label('scale!=1')
    offs = [c['offset'] for c in spec['cats']]
    if any(offs):
        r.label('cat-offset!=0')
    if len(set(offs)) < len(offs):
        r.label('cats-share-offset')
    if len(spec['table']) == 1:
        r.label('one-row-table')
    if nt == 2 and len(exp) == 1:
        r.label('two-blocks-one-tracer')
    if any(t0 == t1 for t0, t1 in spec['times']):
        r.label('instantaneous')
    if len(set(t[0] for t in spec['times'])) < nt:
        r.label('blocks-share-tau0')
    if any(spec['times'][i + 1][0] < spec['times'][i][0]
           for i in range(nt - 1)):
        r.label('blocks-out-of-order')
    if any(spec['times'][i + 1][0] != spec['times'][i][1]
           for i in range(nt - 1)):
        r.label('blocks-not-contiguous')
    allt = [t for tt in spec['times'] for t in tt]
    if any(float(np.float32(t)) != t for t in allt):
        r.label('tau-not-float32')
    if any(t != int(t) for t in allt):
        r.label('tau-fractional')
    if any(t >= 1e5 for t in allt):
        r.label('tau>=1e5')
    r.nontrivial = bool((nt >= 2 and len(nls) > 1) or nested or scaled_any)

    front = spec.get('front') or [False, None]
    r.label('front:noscale=%s,reader=%s' % (front[0], front[1]))
    if any(row.get('scale_text') for row in spec['table']):
        r.label('scale-fills-field')
    if any(e['row']['scale'] < 0 for e in exp):
        r.label('scale<0')
    fb = [e for e in exp if e['row'].get('fallback')]
    if fb:
        r.label('missing-offset-row')
        if any(e['row']['bare_scale'] != 1.0 for e in fb):
            r.label('missing-offset-row:bare-scale!=1')
        if any(c['offset'] == 0 and tr['id'] == e['id']
               for e in fb for c in spec['cats'] for tr in c['tracers']):
            r.label('missing-offset-row:bare-tracer-in-offset0-category')
    if spec.get('swap'):
        r.label('irregular-tracer-set')
        return check_irregular(r, spec, exp, front)
    base = libstate.scratch_path('_c18')
    din = os.path.join(base, 'in')
    path, buf = write_inputs(spec, din)
    f0 = f1 = g0 = g1 = f2 = fm = None
    keys = [e['key'] for e in exp]
    try:
        from PseudoNetCDF.geoschemfiles import bpch1, bpch2
        # ---------------- (a) unscaled read, byte-identical rewrite
        ok, f0 = guard(r, 'bpch1-noscale-open',
                       lambda: quiet(bpch1, path, noscale=True))
        _tag(r, 0, spec)
        if ok:
            good = check_tracer_vars(r, f0, exp, 'bpch1-noscale', False,
                                     'bpch1(noscale)', spec['mode'] == 'bits')
            check_meta(r, f0, spec, exp, 'bpch1-noscale')
            if good:
                wok, opath = write_checked(
                    r, f0, keys, os.path.join(base, 'out0'), 'write-noscale',
                    'bpch1-noscale')
                if wok:
                    with open(opath, 'rb') as fi:
                        obuf = fi.read()
                    if obuf != buf:
                        r.fail('rewrite-bytes', describe_diff(buf, obuf))
        # ---------------- (b) scaled read
        n0 = len(r.failures)
        ok1, f1 = guard(r, 'bpch1-scaled-open', lambda: quiet(bpch1, path))
        _tag(r, n0, spec)
        if ok1:
            check_tracer_vars(r, f1, exp, 'bpch1-scaled', True,
                              'bpch1', False)
            check_tau(r, f1, spec, 'bpch1-scaled')
            for e in exp:
                got, v = guard(r, 'bpch1-scaled-getvar',
                               lambda: f1.variables[e['key']])
                if not got:
                    continue
                if _s(getattr(v, 'units', None)) != e['row']['unit']:
                    r.fail('scaled-units', '%s: units %r, tracerinfo row %d '
                           'says %r' % (e['key'], getattr(v, 'units', None),
                                        e['row']['tracer'], e['row']['unit']))
                if float(getattr(v, 'scale', np.nan)) != e['row']['scale']:
                    r.fail('scaled-scale', '%s: scale %r, tracerinfo row %d '
                           'says %r' % (e['key'], getattr(v, 'scale', None),
                                        e['row']['tracer'],
                                        e['row']['scale']))
        # ---------------- (c) block-walking reader presents the same data
        n0 = len(r.failures)
        okg, g0 = guard(r, 'bpch2-noscale-open',
                        lambda: quiet(bpch2, path, noscale=True))
        _tag(r, n0, spec)
        if okg:
            good = check_tracer_vars(r, g0, exp, 'bpch2-noscale', False,
                                     'bpch2(noscale)', False)
            check_tau(r, g0, spec, 'bpch2-noscale', with_time=True)
            check_titles(r, g0, spec, 'bpch2-noscale')
            if good:
                wok, opath = write_checked(
                    r, g0, keys, os.path.join(base, 'out2'),
                    'bpch2-write-noscale', 'bpch2-noscale')
                if wok:
                    with open(opath, 'rb') as fi:
                        obuf = fi.read()
                    if obuf != buf:
                        r.fail('bpch2-rewrite-bytes',
                               describe_diff(buf, obuf))
        n0 = len(r.failures)
        okg1, g1 = guard(r, 'bpch2-scaled-open', lambda: quiet(bpch2, path))
        _tag(r, n0, spec)
        if okg1:
            check_tracer_vars(r, g1, exp, 'bpch2-scaled', True, 'bpch2',
                              False)
            check_tau(r, g1, spec, 'bpch2-scaled', with_time=True)
        # ---------------- (d) write the scaled file, read it back
        if okg1 and not [f for f in r.failures
                         if f.clause.startswith('bpch2-scaled')]:
            # the scaled bpch2 file (values held as cached arrays)
            wok, opath = write_checked(
                r, g1, keys, os.path.join(base, 'out4'),
                'bpch2-write-scaled', 'bpch2-scaled')
            if wok:
                check_written(r, spec, exp, opath, tag='bpch2-written')
        if ok1 and ok1_clean(r):
            wok, opath = write_checked(
                r, f1, keys, os.path.join(base, 'out1'), 'write-scaled',
                'bpch1-scaled')
            if wok:
                check_written(r, spec, exp, opath)
                ok2, f2 = guard(r, 'reread-open',
                                lambda: quiet(bpch1, opath))
                if ok2:
                    check_reread(r, spec, exp, f1, f2)
        # ---------------- (e) a derived bpch-convention file (later time
        # blocks only, as the repository test does with slice_dim) is written
        if ok1 and ok1_clean(r) and nt >= 2:
            okd, fs = guard(r, 'derive-slice', lambda: quiet(
                f1.sliceDimensions, time=slice(1, None)))
            if okd:
                wok, opath = write_checked(
                    r, fs, keys, os.path.join(base, 'out3'), 'derived-write',
                    'derived')
                if wok:
                    sub = dict(spec, times=spec['times'][1:],
                               data=spec['data'][len(exp):])
                    check_written(r, sub, variables_of(sub), opath,
                                  tag='derived')
                fs = None
        # ---------------- (f) the registered reader class (bpch1 with
        # silent fallback to bpch2) through pncopen(format='bpch')
        import PseudoNetCDF
        okm, fm = guard(r, 'master-open', lambda: quiet(
            PseudoNetCDF.pncopen, path, format='bpch'))
        if okm:
            check_tracer_vars(r, fm, exp, 'master-scaled', True,
                              "pncopen(format='bpch')", False)
        _close_file(fm)
        fm = None
        okm, fm = check_front(r, path, spec, exp, front)
    finally:
        for f in (f0, f1, f2, g0, g1, fm):
            _close_file(f)
        f0 = f1 = f2 = g0 = g1 = fm = None
        gc.collect()
        shutil.rmtree(base, ignore_errors=True)
    return r


def write_checked(r, src, keys, dout, clause, tag):
    """write `src` as bpch into directory dout: the call must complete,
    must leave the source's tracer values untouched (snapshot before/after,
    bit for bit) and a second write of the same object must give the same
    bytes.  Returns (ok, path of the first copy)."""
    os.makedirs(dout)
    opath = os.path.join(dout, 'out.bpch')
    ok, before = guard(r, tag + '-snapshot', lambda: [
        np.array(np.asarray(src.variables[k][...])) for k in keys])
    if not ok:
        return False, opath
    wok, out = guard(r, clause, lambda: quiet(
        src.save, opath, format='bpch', verbose=0))
    if not wok:
        return False, opath
    if hasattr(out, 'close'):
        out.close()
    ok, after = guard(r, tag + '-snapshot', lambda: [
        np.array(np.asarray(src.variables[k][...])) for k in keys])
    if ok:
        for k, a, b in zip(keys, before, after):
            if a.shape != b.shape or a.tobytes() != b.tobytes():
                r.fail(tag + '-source-changed', 'writing changed the source '
                       'variable %s (before %s, after %s)' % (
                           k, a.ravel()[:6], b.ravel()[:6]))
                break
    opath2 = os.path.join(dout, 'again.bpch')
    wok2, out2 = guard(r, clause, lambda: quiet(
        src.save, opath2, format='bpch', verbose=0))
    if wok2:
        if hasattr(out2, 'close'):
            out2.close()
        with open(opath, 'rb') as fi:
            b1 = fi.read()
        with open(opath2, 'rb') as fi:
            b2 = fi.read()
        if b1 != b2:
            r.fail(tag + '-second-write', 'a second write of the same object'
                   ' differs from the first: ' + describe_diff(b1, b2))
    return True, opath


def check_front(r, path, spec, exp, front):
    """the front-end class with the drawn noscale / reader arguments:
    same oracle as for the direct readers"""
    from PseudoNetCDF.geoschemfiles import bpch
    noscale, reader = bool(front[0]), front[1]
    kw = dict(noscale=noscale)
    if reader is not None:
        kw['reader'] = reader
    tag = 'front-%s-%s' % ('noscale' if noscale else 'scaled',
                           reader or 'default')
    ok, fm = guard(r, tag + '-open', lambda: quiet(bpch, path, **kw))
    if ok:
        check_tracer_vars(r, fm, exp, tag, not noscale,
                          'bpch(noscale=%s, reader=%r)' % (noscale, reader),
                          False)
        if not spec.get('swap'):
            check_tau(r, fm, spec, tag)
    return ok, fm


def check_irregular(r, spec, exp, front):
    """file whose tracer set changes between time blocks: bpch1 may refuse
    it (allowed); bpch2 and the front end (falling back) present every
    variable on the time blocks that hold it"""
    r.nontrivial = True
    base = libstate.scratch_path('_c18')
    path, buf = write_inputs(spec, os.path.join(base, 'in'))
    g0 = g1 = fm = None
    try:
        from PseudoNetCDF.geoschemfiles import bpch1, bpch2
        exc, f0 = attempt(lambda: quiet(bpch1, path))
        r.label('irregular:bpch1-' + ('raises' if exc is not None
                                      else 'opens'))
        _close_file(f0)
        f0 = None
        okg, g0 = guard(r, 'bpch2-noscale-open',
                        lambda: quiet(bpch2, path, noscale=True))
        if okg:
            check_tracer_vars(r, g0, exp, 'bpch2-noscale', False,
                              'bpch2(noscale)', False)
        okg1, g1 = guard(r, 'bpch2-scaled-open',
                         lambda: quiet(bpch2, path))
        if okg1:
            check_tracer_vars(r, g1, exp, 'bpch2-scaled', True, 'bpch2',
                              False)
        okm, fm = check_front(r, path, spec, exp, front)
    finally:
        for f in (g0, g1, fm):
            _close_file(f)
        g0 = g1 = fm = None
        gc.collect()
        shutil.rmtree(base, ignore_errors=True)
    return r


def ok1_clean(r):
    """the write/re-read stage runs unless the bpch1 stages already failed
    (failures of the alternative reader do not block it)"""
    return not [f for f in r.failures if not f.clause.startswith('bpch2-')]


def check_tau(r, f, spec, clause, with_time=False):
    """tau0/tau1 of every time block, exactly (float64 bit patterns)"""
    keys = ['tau0', 'tau1'] + (['time'] if with_time else [])
    ok, got = guard(r, clause + '-tau', lambda: [
        np.asarray(f.variables[k][...]) for k in keys])
    if not ok:
        return
    want = [np.array([t[0] for t in spec['times']], dtype='f8'),
            np.array([t[1] for t in spec['times']], dtype='f8')]
    if with_time:
        want.append(want[0])
    for k, g, w in zip(keys, got, want):
        g8 = np.asarray(g, dtype='f8')
        if g8.shape != w.shape or g8.tobytes() != w.tobytes():
            r.fail(clause + '-tau', '%s = %r (dtype %s), the block headers '
                   'hold %r' % (k, [repr(float(x)) for x in g8.ravel()],
                                g.dtype, [repr(float(x)) for x in w]))
    # every other time-related variable the reader presents
    present = list(f.variables.keys())
    pairs = np.array([[t[0], t[1]] for t in spec['times']], dtype='f8')
    if 'time_bounds' in present:
        ok, tb = guard(r, clause + '-timebounds', lambda: np.asarray(
            f.variables['time_bounds'][...], dtype='f8'))
        if ok and (tb.shape != pairs.shape or
                   tb.tobytes() != pairs.tobytes()):
            r.fail(clause + '-timebounds', 'time_bounds = %r, the blocks '
                   'have (tau0, tau1) = %r' % (tb.tolist(), pairs.tolist()))
    if 'time' in present:
        ok, tv = guard(r, clause + '-time', lambda: np.asarray(
            f.variables['time'][...], dtype='f8'))
        if ok and (tv.shape != (len(pairs),) or not (
                (tv >= pairs[:, 0]) & (tv <= pairs[:, 1])).all()):
            r.fail(clause + '-time', 'time = %r does not lie in the blocks\' '
                   '[tau0, tau1] = %r' % (tv.tolist(), pairs.tolist()))


def _verbatim(v):
    """fixed-width text as stored: only the padding on the right is
    dropped"""
    if isinstance(v, bytes):
        v = v.decode('latin1')
    return str(v).rstrip()


def check_titles(r, f, spec, clause):
    """file type and title records are presented verbatim (leading and
    inner blanks kept)"""
    for attr, want in (('ftype', spec.get('ftype', 'CTM bin 02')),
                       ('toptitle', spec['title'])):
        got = getattr(f, attr, None)
        if got is None or _verbatim(got) != want.rstrip():
            r.fail(clause + '-' + attr, '%s %r, the file holds %r' % (
                attr, got, want))


def check_meta(r, f, spec, exp, clause):
    check_tau(r, f, spec, clause)
    for e in exp:
        got, v = guard(r, clause + '-getvar', lambda: f.variables[e['key']])
        if not got:
            continue
        if int(getattr(v, 'tracerid', -1)) != e['id']:
            r.fail(clause + '-tracerid', '%s: tracerid %r, expected %d' %
                   (e['key'], getattr(v, 'tracerid', None), e['id']))
        if _s(getattr(v, 'category', '')) != e['cat']:
            r.fail(clause + '-category', '%s: category %r, expected %r' %
                   (e['key'], getattr(v, 'category', None), e['cat']))
        if _verbatim(getattr(v, 'base_units', '')) != e['hunit'].rstrip():
            r.fail(clause + '-baseunit', '%s: base_units %r, expected %r' %
                   (e['key'], getattr(v, 'base_units', None), e['hunit']))
        if _verbatim(getattr(v, 'reserved', '')) != e['reserved'].rstrip():
            r.fail(clause + '-reserved', '%s: reserved %r, expected %r' %
                   (e['key'], getattr(v, 'reserved', None), e['reserved']))
        st_ = [int(getattr(v, k, 0)) + 1 for k in
               ('STARTI', 'STARTJ', 'STARTK')]
        if st_ != e['start']:
            r.fail(clause + '-start', '%s: STARTI/J/K+1 = %r, header says %r'
                   % (e['key'], st_, e['start']))
    check_titles(r, f, spec, clause)
    if _s(getattr(f, 'modelname', '')) != spec['modelname']:
        r.fail(clause + '-grid', 'modelname %r' % (getattr(f, 'modelname',
                                                            None),))
    res = np.asarray(getattr(f, 'modelres', [np.nan, np.nan]), dtype='f8')
    if not np.array_equal(res, np.asarray(spec['res'], dtype='f4').astype(
            'f8')):
        r.fail(clause + '-grid', 'modelres %r, expected %r' %
               (res.tolist(), spec['res']))
    if int(getattr(f, 'halfpolar', -9)) != spec['halfpolar'] or \
            int(getattr(f, 'center180', -9)) != spec['center180']:
        r.fail(clause + '-grid', 'halfpolar/center180 %r %r' % (
            getattr(f, 'halfpolar', None), getattr(f, 'center180', None)))


def describe_diff(a, b):
    if len(a) != len(b):
        msg = 'rewritten file has %d bytes, original %d' % (len(b), len(a))
    else:
        msg = 'rewritten file differs from the original'
    n = min(len(a), len(b))
    for i in range(n):
        if a[i] != b[i]:
            return '%s; first difference at byte %d (%r vs %r)' % (
                msg, i, a[max(0, i - 4):i + 8], b[max(0, i - 4):i + 8])
    return msg


def check_written(r, spec, exp, opath, tag='written'):
    with open(opath, 'rb') as fi:
        obuf = fi.read()
    try:
        dec = B.decode(obuf)
    except B.FormatError as e:
        r.fail(tag + '-layout', 'writer output is not a bpch file: %s' % e)
        return
    want = blocks_of(spec)
    if len(dec['blocks']) != len(want):
        r.fail(tag + '-blocks', 'writer produced %d data blocks, expected '
               '%d' % (len(dec['blocks']), len(want)))
        return
    if dec['ftype'].rstrip() != spec.get('ftype', 'CTM bin 02').rstrip():
        r.fail(tag + '-header', 'ftype %r' % dec['ftype'])
    if dec['title'].rstrip() != spec['title'].rstrip():
        r.fail(tag + '-header', 'title %r, expected %r' % (dec['title'],
                                                             spec['title']))
    per = len(exp)
    for i, (g, w) in enumerate(zip(dec['blocks'], want)):
        e = exp[i % per]
        for k in ('tracer', 'tau0', 'tau1', 'halfpolar', 'center180', 'dim',
                  'start'):
            if g[k] != w[k]:
                r.fail(tag + '-' + k, 'block %d: %s = %r, expected %r' %
                       (i, k, g[k], w[k]))
        for k in ('category', 'modelname'):
            if g[k].strip() != w[k].strip():
                r.fail(tag + '-' + k, 'block %d: %s = %r, expected %r' %
                       (i, k, g[k], w[k]))
        for k in ('unit', 'reserved'):
            if g[k].rstrip() != w[k].rstrip():
                r.fail(tag + '-' + k, 'block %d: %s = %r, expected %r' %
                       (i, k, g[k], w[k]))
        if [B.f32(x) for x in w['res']] != g['res']:
            r.fail(tag + '-res', 'block %d: res %r, expected %r' %
                   (i, g['res'], w['res']))
        if spec['mode'] == 'exact':
            got = np.frombuffer(g['data'], dtype='>f4')
            raw = np.frombuffer(w['data'], dtype='>f4')
            if not _close(got, raw, 2e-6):
                r.fail(tag + '-data', 'block %d (%s): written raw values '
                       'differ from values/scale (got %s, expected %s)' % (
                           i, e['key'], got[:8], raw[:8]))


def check_reread(r, spec, exp, f1, f2):
    keys = [k for k in f2.variables.keys()][:len(exp)]
    want = [e['key'] for e in exp]
    if keys != want:
        r.fail('reread-names', 'tracer variables %r, expected %r' %
               (keys, want))
        return
    for e in exp:
        ok, pair = guard(r, 'reread-getvar', lambda: (
            f1.variables[e['key']], f2.variables[e['key']]))
        if not ok:
            continue
        a, b = pair
        ok, arrs = guard(r, 'reread-getdata', lambda: (
            np.asarray(a[...]), np.asarray(b[...])))
        if not ok:
            continue
        if arrs[0].shape != arrs[1].shape:
            r.fail('reread-shape', '%s: %r vs %r' % (e['key'], arrs[1].shape,
                                                     arrs[0].shape))
            continue
        if spec['mode'] == 'exact' and not _close(arrs[1], arrs[0], 4e-6):
            r.fail('reread-values', '%s: values after write/read %s, before '
                   '%s' % (e['key'], arrs[1].ravel()[:8],
                           arrs[0].ravel()[:8]))
        st_ = [int(getattr(b, k, 0)) + 1 for k in
               ('STARTI', 'STARTJ', 'STARTK')]
        if st_ != e['start']:
            r.fail('reread-start', '%s: STARTI/J/K+1 = %r after write/read, '
                   'the file had %r' % (e['key'], st_, e['start']))
        if int(getattr(b, 'tracerid', -1)) != e['id'] or \
                _s(getattr(b, 'category', '')) != e['cat']:
            r.fail('reread-ids', '%s: tracerid/category %r %r' % (
                e['key'], getattr(b, 'tracerid', None),
                getattr(b, 'category', None)))
        if _s(getattr(b, 'units', '')) != e['row']['unit']:
            r.fail('reread-units', '%s: units %r, expected %r' % (
                e['key'], getattr(b, 'units', None), e['row']['unit']))
    check_tau(r, f2, spec, 'reread')
    ok, taus = guard(r, 'reread-tau', lambda: [
        np.asarray(f.variables[k][...]) for f in (f1, f2)
        for k in ('tau0', 'tau1')])
    if ok and not (np.array_equal(taus[0], taus[2]) and
                   np.array_equal(taus[1], taus[3])):
        r.fail('reread-tau', 'tau0/tau1 after write/read %r %r, before %r %r'
               % (taus[2].tolist(), taus[3].tolist(), taus[0].tolist(),
                  taus[1].tolist()))
