"""C13 - memory-mapped and record-based CAMx readers agree.

One reference-encoded file, opened with the Memmap reader and with the
record (Read) reader of its format; every variable is read through both."""
import numpy as np
from hypothesis import strategies as st

from ..core import Result, exc_where, HarnessError
from .. import camxspec as C
from .. import camxknown as K
from .. import known
from .. import libstate
from ..ref import camx_ref as R

ID = 'C13'
LEVEL = 'exploration'
FORMATS = ['uamiv', 'temperature', 'height_pressure', 'humidity',
           'vertical_diffusivity', 'wind', 'one3d']
RULE = ('Hypothesis: CamxSpec restricted to the formats that have both '
        'reader families (uamiv[AVERAGE EMISSIONS weighted, AIRQUALITY, '
        'INSTANT] x5, temperature, height_pressure, humidity, '
        'vertical_diffusivity, wind[stagger flag present/absent], one3d), '
        'nx, ny, nz 1-5, 1-4 steps of 1 (2, 3, 6) whole hours, start '
        '1970-2069 weighted to roll-overs, payload over all finite float32 '
        'bit patterns; the file is produced by the independent reference '
        'encoder and accepted by the reference decoder (asserted).  Both '
        'readers open the same path (rows/cols passed to the met readers) '
        'and every variable is read.  Oracle: a reader that raises while '
        'the other one completes is a violation (the file is valid); a '
        'tripped iteration budget (timerange wrapped by a counter raising '
        'after 10000 yields; RecordFile.next after 20000 calls; no wall '
        'clock) is a violation; if both complete: dimensions present in '
        'both have equal lengths, variables present in both are float32 '
        'bit-equal after squeezing length-1 axes, TFLAG equal where both '
        'define it, and the (date, time) sequence of the record reader\'s '
        'timerange() (two-digit-year date, hours or HHMM) equals the memmap '
        'TFLAG in length and values.  If both readers reject the file the case is outside '
        '"files that both reader families accept" (label both-reject).  '
        'Non-trivial: steps>1 and nz>1, or a day/year/century/leap '
        'roll-over inside the file.  Distinct by sha1 of the case spec.' + '  Domain by construction: lateral_boundary nx, ny >= 2 (an edge needs its two corner cells), EMISSIONS nz = 1, AIRQUALITY one step, steps of whole hours (lateral_boundary 1 h), every instant incl. the last end time inside 1970-2069, species names not DATE/TFLAG/ETFLAG, a 3-variable cloud_rain file whose size is also a whole number of 5-variable steps is not generated (the format stores no variable count), old-style landuse with at most one optional field.' + '  Single-layer EMISSIONS files are also encoded with nz = 0 in the grid header; both readers must present LAY = 1.  Payload modes include whole files / 2-D fields of +-0 mixtures.')
ASSUMPTIONS = ['a file accepted by vf.ref.camx_ref.decode is a valid CAMx '
               'file', 'two-digit years denote 1970-2069']
BUDGET = {'quick': dict(examples=4000, max_s=200),
          'thorough': dict(examples=50000, max_s=2400)}


@st.composite
def cases(draw, tier='quick'):
    spec = draw(C.camxspecs(formats=FORMATS,
                            names=['AVERAGE', 'AVERAGE', 'EMISSIONS',
                                   'EMISSIONS', 'AIRQUALITY', 'INSTANT']))
    if spec['fmt'] == 'uamiv' and spec['name'] == 'EMISSIONS' and \
            spec['nz'] == 1 and draw(st.booleans()):
        # 2-D emission files carry nz = 0 in the grid header; both readers
        # must present one layer
        spec['hdr_nz0'] = True
    if spec['fmt'] in SHAPE_FORMATS:
        # a share of opens uses the constructors' default arguments
        spec['shape'] = draw(st.sampled_from(['both', 'both', 'both', 'none',
                                              'none', 'rows', 'cols']))
    return spec


SHAPE_FORMATS = ('temperature', 'height_pressure', 'humidity',
                 'vertical_diffusivity', 'one3d')


def open_shaped(spec, path, reader):
    """open with rows/cols as spec['shape'] says: 'both' (explicit), 'none'
    (constructor defaults), 'rows' / 'cols' (only one given).  wind's memmap
    reader requires both; height_pressure/Read.py takes them positionally
    and documents None handling, so None is passed there."""
    shape = spec.get('shape', 'both')
    if shape == 'both' or spec['fmt'] not in SHAPE_FORMATS:
        return C.open_lib(spec, path, reader)
    MM, RD, WR = C.lib_modules()
    cls = getattr(MM if reader == 'memmap' else RD, spec['fmt'])
    kw = {}
    if shape == 'rows':
        kw['rows'] = spec['ny']
    elif shape == 'cols':
        kw['cols'] = spec['nx']
    if reader == 'read' and spec['fmt'] == 'height_pressure':
        return cls(path, kw.get('rows'), kw.get('cols'))
    return cls(path, **kw)


def strategy(tier):
    return cases(tier)


class Seen(object):
    def __init__(self):
        self.status = 'ok'       # ok | raise | nonterm
        self.stage = ''
        self.where = ''
        self.msg = ''
        self.dims = {}
        self.vars = {}
        self.tflag = None
        self.times = None     # record reader: list(timerange())


def observe(spec, path, reader):
    s = Seen()
    f = None
    try:
        s.stage = 'open'
        f = open_shaped(spec, path, reader)
        s.stage = 'dims'
        for d in list(f.dimensions.keys()):
            s.dims[d] = len(f.dimensions[d])
        s.stage = 'read'
        for k in list(f.variables.keys()):
            a = f.variables[k][...]
            if isinstance(a, np.ma.MaskedArray):
                a = np.ma.getdata(a)
            a = np.array(a)
            if k in ('TFLAG', 'ETFLAG'):
                if k == 'TFLAG':
                    s.tflag = a
            else:
                s.vars[k] = a
        if reader == 'read' and hasattr(f, 'timerange'):
            s.stage = 'timerange'
            s.times = [(int(d), float(t)) for d, t in f.timerange()]
    except C.NonTermination as e:
        s.status = 'nonterm'
        s.where = exc_where(e)
        s.msg = str(e)
    except (KeyboardInterrupt, SystemExit, MemoryError, HarnessError):
        raise
    except Exception as e:   # reported below, never swallowed
        s.status = 'raise'
        s.where = exc_where(e)
        s.msg = '%s: %s' % (type(e).__name__, str(e)[:300])
    finally:
        C.drop(f)
        f = None
    if s.status != 'nonterm' and C.tripped():
        s.status = 'nonterm'
        s.msg = 'iteration budget exhausted (exception swallowed by the ' \
                'library): ' + s.msg
    return s


def check_case(spec):
    r = Result()
    fmt = spec['fmt']
    m = C.model_of(spec)
    r.label('fmt:' + fmt)
    if fmt == 'uamiv':
        r.label('name:' + spec['name'])
    nt = spec['nsteps']
    r.label('steps:%d' % nt if nt < 3 else 'steps:3+')
    if spec['nz'] == 1:
        r.label('nz:1')
    if spec['nx'] * spec['ny'] == 1:
        r.label('cells:1')
    ro = C.rollovers(spec, with_end=fmt == 'uamiv')
    for x in ro:
        r.label('roll:' + x)
    if spec['step_h'] != 1:
        r.label('step>1h')
    if fmt in SHAPE_FORMATS:
        r.label('shape:' + spec.get('shape', 'both'))
    if spec.get('hdr_nz0'):
        r.label('hdr-nz=0')
    r.nontrivial = bool((nt > 1 and spec['nz'] > 1) or ro)
    raw = C.ref_bytes(spec)
    try:
        R.decode(fmt, raw, **C.decode_hints(spec))
    except (R.LayoutError, R.FortranError) as e:
        raise HarnessError('reference decoder rejects a reference-encoded '
                           'file: %s' % e)
    path = libstate.scratch_path('.' + fmt)
    with open(path, 'wb') as fo:
        fo.write(raw)
    try:
        C.reset_guards()
        mm = observe(spec, path, 'memmap')
        C.reset_guards()
        rd = observe(spec, path, 'read')
    finally:
        C.cleanup(path)
    r.label('memmap:' + mm.status, 'read:' + rd.status)
    for name, s in (('memmap', mm), ('read', rd)):
        if s.status == 'nonterm':
            r.fail('nontermination', '%s reader: %s' % (name, s.msg),
                   where=s.where, klass='%s/%s' % (fmt, name))
    if mm.status == 'raise' and rd.status == 'raise':
        r.label('both-reject')
        return r
    for name, s, other in (('memmap', mm, rd), ('read', rd, mm)):
        if s.status == 'raise' and other.status == 'ok':
            r.fail('one-reader-raises', '%s reader raises at %s (%s); the '
                   'other reader and the reference decoder accept the file'
                   % (name, s.stage, s.msg), where=s.where,
                   klass='%s/%s' % (fmt, name))
    if mm.status != 'ok' or rd.status != 'ok':
        return r
    r.label('both-ok')
    for d in mm.dims:
        if d in rd.dims and mm.dims[d] != rd.dims[d]:
            r.fail('dims-differ', 'dimension %s: memmap %r, record reader %r '
                   '(encoded %r)' % (d, mm.dims[d], rd.dims[d],
                                     m.dims.get(d)), klass='%s/%s' % (fmt, d))
    shared = [k for k in mm.vars if k in rd.vars]
    if not shared:
        r.fail('no-shared-variable', 'memmap %r, record reader %r' % (
            list(mm.vars), list(rd.vars)), klass=fmt)
    for k in shared:
        a = np.squeeze(mm.vars[k])
        b = np.squeeze(rd.vars[k])
        msg = C.cmp_bits(a, b, 'variable %s (memmap vs record reader, '
                         'squeezed)' % k)
        if msg and 'dtype' in msg and 'not float32' in msg:
            msg = None if np.array_equal(a, b) and a.shape == b.shape \
                else msg
        if msg:
            who = ''
            if k in m.vars:
                want = np.squeeze(m.vars[k][1])
                ea = C.cmp_bits(a, want, '') is None
                eb = C.cmp_bits(b, want, '') is None
                who = ' [memmap %s the encoded data, record reader %s]' % (
                    'equals' if ea else 'differs from',
                    'equals' if eb else 'differs from')
            r.fail('values-differ', msg + who, klass=fmt)
            break
    if mm.tflag is not None and rd.times is not None:
        # the record readers expose their time flags as the (date, time)
        # pairs of timerange(): two-digit-year julian date, hours (uamiv) or
        # HHMM (met files)
        fac = 10000 if fmt == 'uamiv' else 100
        got = []
        for d, t in rd.times:
            try:
                y, j = R.expand_yyjjj(d)
                got.append([y * 1000 + j, int(round(t * fac))])
            except R.LayoutError:
                got.append([int(d), int(round(t * fac))])
        want = np.asarray(mm.tflag)[:, 0, :].tolist()
        if got != want:
            r.fail('timeflags-differ', 'record reader timerange() gives %d '
                   'flags %s, memmap TFLAG has %d: %s (encoded %s)' % (
                       len(got), got[:8], len(want), want[:8],
                       m.tflag.tolist()[:8]), klass=fmt)
    if mm.tflag is not None and rd.tflag is not None and \
            not np.array_equal(mm.tflag, rd.tflag):
        r.fail('tflag-differ', 'memmap %s, record reader %s' % (
            mm.tflag.tolist(), rd.tflag.tolist()), klass=fmt)
    return r


# ---------------------------------------------------------- known findings
MET = ('temperature', 'height_pressure', 'humidity', 'vertical_diffusivity',
       'wind', 'one3d')


def _read_side(f, fmt):
    """the failure is on the record reader's side, or a disagreement"""
    return (f.clause in ('one-reader-raises', 'nontermination') and
            f.klass == fmt + '/read') or \
        f.clause in ('dims-differ', 'values-differ', 'timeflags-differ')


def _wind_hdr_collision(spec):
    hs = 8 if spec.get('lstagger') is None else 12
    return spec['fmt'] == 'wind' and 4 * spec['nx'] * spec['ny'] == hs


known.register('C13-read-uamiv-midnight', lambda spec, f: (
    spec['fmt'] == 'uamiv' and K.uamiv_read_time_class(spec) and
    _read_side(f, 'uamiv')))
known.register('C13-read-uamiv-emissions-squeeze', lambda spec, f: (
    spec['fmt'] == 'uamiv' and spec.get('name') == 'EMISSIONS' and
    (spec['nsteps'] == 1 or spec['nx'] == 1 or spec['ny'] == 1) and
    f.clause == 'one-reader-raises' and f.klass == 'uamiv/read' and
    f.where == 'IndexError@camxfiles/uamiv/Read.py:constr'))
known.register('C13-read-met-yearend', lambda spec, f: (
    spec['fmt'] in MET and K.crosses_year(spec, with_end=False) and
    _read_side(f, spec['fmt'])))
known.register('C13-read-met-1step', lambda spec, f: (
    spec['fmt'] in MET and K.single_step(spec) and
    f.klass == spec['fmt'] + '/read' and
    ((f.clause == 'one-reader-raises' and f.where in (
        'OSError@camxfiles/FortranFileUtil.py:check_read',
        'ValueError@camxfiles/FortranFileUtil.py:seek',
        # form the failure takes once the endless loop is repaired
        'OSError@camxfiles/wind/Read.py:__gettimestep')) or
     (f.clause == 'nontermination' and spec['fmt'] == 'wind' and
      f.where == 'NonTermination@camxfiles/wind/Read.py:__gettimestep'))))
known.register('C13-wind-memmap-1cell', lambda spec, f: (
    spec['fmt'] == 'wind' and K.one_cell(spec) and
    ((f.clause in ('one-reader-raises', 'nontermination') and
      f.klass == 'wind/memmap') or
     f.clause in ('dims-differ', 'values-differ', 'timeflags-differ'))))
known.register('C13-read-wind-recsize', lambda spec, f: (
    _wind_hdr_collision(spec) and _read_side(f, 'wind')))
known.register('C13-read-met-multiday-step', lambda spec, f: (
    spec['fmt'] in MET and spec.get('step_h', 1) > 24 and
    _read_side(f, spec['fmt'])))
known.register('C13-read-uamiv-emissions-layers', lambda spec, f: (
    spec['fmt'] == 'uamiv' and spec.get('name') == 'EMISSIONS' and
    spec['nz'] > 1 and _read_side(f, 'uamiv')))
ONE3D = ('humidity', 'vertical_diffusivity', 'one3d')
known.register('C13-one3d-memmap-one-extent', lambda spec, f: (
    spec['fmt'] in ONE3D and spec.get('shape') in ('rows', 'cols') and
    f.clause == 'one-reader-raises' and
    f.klass == spec['fmt'] + '/memmap' and
    f.where == 'TypeError@camxfiles/one3d/Memmap.py:__init__'))
known.register('C13-one3d-default-orientation', lambda spec, f: (
    spec['fmt'] in ONE3D and spec.get('shape') == 'none' and
    spec['nx'] * spec['ny'] > 1 and f.clause == 'dims-differ' and
    f.klass in (spec['fmt'] + '/ROW', spec['fmt'] + '/COL')))
