"""C08 - CAMx write/read round trip and idempotent rewrite.

f (built from arrays, or the library's view of a reference-encoded file)
-> library writer -> library memmap reader -> g ; g must present f's
species data bit for bit, species order, TFLAG/ETFLAG and header
attributes; writing g again must reproduce the first file byte for byte."""
import numpy as np
from hypothesis import strategies as st

from ..core import Result, guard
from .. import camxspec as C
from .. import camxknown as K
from .. import known
from .. import libstate
from ..ref import fortran

ID = 'C08'
LEVEL = 'exploration'
RULE = ('Hypothesis: CamxSpec (uamiv[AVERAGE EMISSIONS AIRQUALITY INSTANT] '
        'weighted x5, lateral_boundary x2, temperature, height_pressure, '
        'humidity, vertical_diffusivity, one3d, wind, cloud_rain[3/5 vars], '
        'landuse[new/old]; 1-4 species names [A-Z][A-Z0-9_]{0,9} not in '
        'sorted order; nx, ny, nz 1-5; 1-4 steps of 1 (sometimes 2, 3, 6) '
        'whole hours from 1970-2069 weighted to day/year/century/leap '
        'roll-overs; float32 payload ramp / random finite bits / special '
        'pool incl. denormals, -0.0, FLT_MAX; exactly representable header '
        'floats; 4 projection variants) x construction route of the '
        'in-memory file f: PseudoNetCDFFile from arrays, '
        'ioapi_base.from_arrays (uamiv), each with or without an ETFLAG '
        'variable and with float32 / float64 / big-endian float32 / int32 '
        'variables holding values exact in float32 (read back must equal '
        'their float32 conversion; one case in four with masked cells, '
        'which must read back as the variable\'s fill value), or the '
        'memmap reader on the '
        'reference-encoded file.  '
        'Oracle: g = read(write(f)) with the memmap reader (rows/cols given '
        'for met formats): dimension lengths equal; every species/field '
        'float32 bit-identical to f; species order == f VAR-LIST order '
        '(uamiv, lateral_boundary); TFLAG[:,v] == f TFLAG for every v; '
        'ETFLAG == f ETFLAG, or TFLAG + TSTEP by datetime arithmetic when f '
        'has none; header attributes NAME NOTE ITZON PLON PLAT TLAT1 TLAT2 '
        'IUTM ISTAG CPROJ XORIG YORIG XCELL YCELL (LSTAGGER, FILEDESC) equal; '
        'bytes(write(g)) == bytes(write(f)).  CDATE CTIME WDATE WTIME and '
        'derived IOAPI attributes (TSTEP, SDATE...) are not compared.  '
        'Non-trivial: (>1 variable and nz>1 and steps>1) or a '
        'day/year/century/leap roll-over inside the file or a denormal / '
        '-0.0 payload.  Distinct by sha1 of the case spec.' + '  Domain by construction: lateral_boundary nx, ny >= 2 (an edge needs its two corner cells), EMISSIONS nz = 1, AIRQUALITY one step, steps of whole hours (lateral_boundary 1 h), every instant incl. the last end time inside 1970-2069, species names not DATE/TFLAG/ETFLAG, a 3-variable cloud_rain file whose size is also a whole number of 5-variable steps is not generated (the format stores no variable count), old-style landuse with at most one optional field.  The reader route is not used for input classes in which the reader is known (C09 findings) not to present the reference file: single-step met files, old-style landuse, 1x1 wind, files straddling 1999/2000; these use the array route.' + '  The write must leave its source unchanged (snapshot of dimensions, variable data, TFLAG/ETFLAG, header attributes before and after) and writing the same in-memory object twice must give byte-identical files.  Free-text header fields (uamiv/lateral_boundary NOTE, cloud_rain descriptor) are drawn with leading, inner and trailing blanks, empty and full.' + '  Round-5 extensions: route pnc creates the data variables in a drawn permutation; route refread opens 0/1 bystander files of the same format and another shape (kept alive or closed) between reading f and writing it; the reader route is used for every input class except 1x1 wind.' + '  Round-7 extensions: payload modes zeros (whole file +-0 mixture / all -0.0 / all denormals) and zslab (every third 2-D field a +-0 mixture containing -0.0); on the reader route the re-read file of a met format may be cut to a TSTEP/LAY/ROW/COL window with sliceDimensions before it is written (the round trip is judged on the window).')
ASSUMPTIONS = ['the in-memory files carry the metadata the writers read '
               '(TFLAG, VAR-LIST, TSTEP, CAMx header attributes, LSTAGGER, '
               'FILEDESC, _newstyle) as the library readers present them',
               'two-digit years denote 1970-2069',
               'a 3-variable cloud_rain file whose size is also a whole '
               'number of 5-variable steps is excluded (format ambiguity)']
BUDGET = {'quick': dict(examples=4800, max_s=200),
          'thorough': dict(examples=60000, max_s=2400)}


@st.composite
def cases(draw, tier='quick'):
    spec = draw(C.camxspecs())
    fmt = spec['fmt']
    routes = ['pnc', 'pnc', 'refread']
    if fmt == 'uamiv':
        routes = ['pnc', 'ioapi', 'refread', 'refread']
    route = draw(st.sampled_from(routes))
    if route == 'refread':
        # classes in which the *reader* is known not to present the file
        # (C09 findings) cannot serve as a construction route
        if fmt == 'wind' and spec['nx'] * spec['ny'] == 1:
            route = 'pnc'
    spec['route'] = route
    spec['etflag'] = bool(route != 'refread' and fmt == 'uamiv' and
                          draw(st.booleans()))
    if route != 'refread':
        draw(C.input_dtypes(spec))
        draw(C.input_masks(spec))
        if spec.get('mask') and spec['mask']['kind'] == 'build':
            route = spec['route'] = 'pnc'
            spec['etflag'] = bool(spec['etflag'] and fmt == 'uamiv')
    if route == 'pnc':
        draw(C.input_orders(spec))
        if not spec.get('mask'):
            draw(C.input_layouts(spec))
    if route == 'refread':
        # 0/1 files of the same format and another shape are opened (and
        # kept alive or closed again) between reading f and writing it
        spec['bystander'] = draw(st.sampled_from([None, None, 'alive',
                                                  'closed']))
        draw(C.input_slices(spec))
    if fmt == 'wind' and route != 'refread' and spec['lstagger'] is None:
        spec['lstagger'] = draw(st.sampled_from([-1, 0, 1]))
    return spec


def strategy(tier):
    return cases(tier)


def describe(r, spec, m):
    fmt = spec['fmt']
    r.label('fmt:' + fmt, 'route:' + spec['route'] +
            ('+etflag' if spec.get('etflag') else ''))
    if spec['route'] != 'refread':
        r.label('vdtype:' + spec.get('vdtype', 'f4'))
        if spec.get('vorder'):
            r.label('creation-order-permuted')
        if spec.get('memlayout'):
            r.label('memlayout:' + spec['memlayout'])
        if spec.get('mask'):
            r.label('masked-input:' + spec['mask']['kind'])
    if spec['route'] == 'refread':
        r.label('bystander:%s' % spec.get('bystander'))
        if spec.get('slice'):
            r.label('sliced-before-write')
    if fmt == 'uamiv':
        r.label('name:' + spec['name'], 'iproj:%d' % spec['proj']['iproj'])
    nt = spec.get('nsteps', 1)
    r.label('steps:%d' % nt if nt < 3 else 'steps:3+')
    if spec['nz'] == 1:
        r.label('nz:1')
    if spec['nx'] * spec['ny'] == 1:
        r.label('cells:1')
    ro = []
    if fmt != 'landuse':
        ro = C.rollovers(spec, with_end=fmt in ('uamiv', 'lateral_boundary'))
        for x in ro:
            r.label('roll:' + x)
        if spec['step_h'] != 1:
            r.label('step>1h')
    pc = C.payload_classes(m.bits)
    for x in pc:
        r.label('payload:' + x)
    r.label('mode:' + spec['payload']['mode'])
    if fmt in ('uamiv', 'lateral_boundary') and \
            spec['species'] != sorted(spec['species']):
        r.label('species-unsorted')
    r.nontrivial = bool((len(m.vars) > 1 and spec['nz'] > 1 and nt > 1) or
                        ro or pc)


def fail(r, spec, clause, detail, extra=''):
    r.fail(clause, detail, klass=spec['fmt'] + ('/' + extra if extra else ''))


def gfail(r, spec, n0):
    for f in r.failures[n0:]:
        if not f.klass:
            f.klass = spec['fmt']


def first_diff(a, b):
    n = min(len(a), len(b))
    for i in range(n):
        if a[i] != b[i]:
            return i
    return n


def snap_diff(a, b):
    """[(what, message)] where two snapshots of the same object differ"""
    out = []
    if a.dims != b.dims:
        out.append(('dims', 'dimensions %r -> %r' % (dict(a.dims),
                                                     dict(b.dims))))
    if a.order != b.order or a.varlist != b.varlist:
        out.append(('names', 'variables / VAR-LIST %r %r -> %r %r' % (
            a.order, a.varlist, b.order, b.varlist)))
    for k, (dims, arr) in a.vars.items():
        if k not in b.vars:
            continue
        other = b.vars[k][1]
        if arr.dtype != other.dtype or arr.shape != other.shape or \
                arr.tobytes() != other.tobytes():
            out.append(('data', 'variable %s changed' % k))
            break
    for nm in ('tflag', 'etflag'):
        x, y = getattr(a, nm), getattr(b, nm)
        if (x is None) != (y is None) or \
                (x is not None and not np.array_equal(x, y)):
            out.append((nm.upper(), '%s[:, 0] %s -> %s' % (
                nm.upper(), None if x is None else np.asarray(x)[:, 0].tolist(),
                None if y is None else np.asarray(y)[:, 0].tolist())))
    if a.attrs != b.attrs:
        out.append(('attrs', 'header attributes %r -> %r' % (
            dict(a.attrs), dict(b.attrs))))
    return out


def compare(r, spec, m, F, G):
    """G = snapshot of read(write(f)), F = snapshot of f"""
    fmt = spec['fmt']
    for d, n in F.dims.items():
        if d == 'VAR':
            continue
        if G.dims.get(d) != n:
            fail(r, spec, 'rt-dim', 'dimension %s: wrote %r, read back %r' %
                 (d, n, G.dims.get(d)), d)
    if r.failures:
        return False
    if fmt in ('uamiv', 'lateral_boundary'):
        want = F.varlist if F.varlist else F.order
        if G.order != want:
            fail(r, spec, 'rt-species-order', 'read back %r, VAR-LIST order '
                 'written %r' % (G.order, want))
        if G.varlist is not None and G.varlist != want:
            fail(r, spec, 'rt-species-order', 'VAR-LIST read back %r, '
                 'written %r' % (G.varlist, want), 'VAR-LIST')
    elif sorted(G.order) != sorted(F.order):
        fail(r, spec, 'rt-names', 'read back variables %r, wrote %r' % (
            G.order, F.order))
    for name, (dims, arr) in F.vars.items():
        if name not in G.vars:
            if name in G.order:
                continue
            fail(r, spec, 'rt-names', 'variable %s not read back' % name)
            continue
        if np.asarray(arr).dtype not in (np.dtype('<f4'), np.dtype('>f4')):
            # f holds float64 / int32 values that are exact in float32
            arr = np.asarray(arr).astype('<f4')
        msg = C.cmp_bits(G.vars[name][1], arr, 'variable %s' % name)
        if msg:
            fail(r, spec, 'rt-values', msg)
            break
    if fmt == 'landuse':
        return True
    # ---- time flags
    ft = F.tflag[:, 0, :]
    if G.tflag is None:
        fail(r, spec, 'rt-tflag', 'no TFLAG read back', 'TFLAG/none')
    else:
        gt = np.asarray(G.tflag)
        if gt.ndim != 3 or not (gt == gt[:, :1]).all():
            fail(r, spec, 'rt-tflag', 'TFLAG read back differs between '
                 'variables: %s' % gt.tolist(), 'TFLAG/columns')
        elif not np.array_equal(gt[:, 0], ft):
            fail(r, spec, 'rt-tflag', 'TFLAG read back %s, written %s' % (
                gt[:, 0].tolist(), ft.tolist()),
                'TFLAG/' + K.tflag_symptom(gt[:, 0], ft))
    if G.etflag is not None:
        fe = F.etflag[:, 0, :] if F.etflag is not None else m.etflag
        ge = np.asarray(G.etflag)
        src = 'ETFLAG written' if F.etflag is not None else 'TFLAG+TSTEP'
        if ge.ndim != 3 or not (ge == ge[:, :1]).all():
            fail(r, spec, 'rt-etflag', 'ETFLAG read back differs between '
                 'variables: %s' % ge.tolist(), 'ETFLAG/columns')
        elif not np.array_equal(ge[:, 0], fe):
            fail(r, spec, 'rt-etflag', 'ETFLAG read back %s, %s %s' % (
                ge[:, 0].tolist(), src, np.asarray(fe).tolist()),
                'ETFLAG/' + K.tflag_symptom(ge[:, 0], fe, begin=ft))
    elif F.etflag is not None:
        fail(r, spec, 'rt-etflag', 'ETFLAG written but not read back',
             'ETFLAG/none')
    for k, w in F.attrs.items():
        g = G.attrs.get(k, ('missing',))
        if g != w:
            fail(r, spec, 'rt-attrs', 'header attribute %s: wrote %r, read '
                 'back %r' % (k, w, g), k)
    return True


def check_case(spec):
    if C.slice_is_ambiguous(spec):
        # a window that makes a 3-variable cloud/rain file ambiguous with
        # a 5-variable one (format without variable count) is dropped
        spec = dict(spec, slice=None)
    r = Result()
    C.reset_guards()
    m = C.model_of(spec)
    describe(r, spec, m)
    fmt = spec['fmt']
    route = spec['route']
    paths = []
    f = g = by = f0 = None
    orig = spec
    try:
        # ---------------- f
        n0 = len(r.failures)
        if route == 'refread':
            p0 = libstate.scratch_path('.ref.' + fmt)
            paths.append(p0)
            with open(p0, 'wb') as fo:
                fo.write(C.ref_bytes(spec))
            ok, f0 = guard(r, 'build-refread', C.open_lib, spec, p0, 'memmap')
            f = f0
            if ok and spec.get('slice'):
                # the re-read file is cut to a window before it is written
                ok, f = guard(r, 'build-slice', C.apply_slice, spec, f0)
                if ok:
                    spec, m = C.sliced(spec, m)
            if ok and spec.get('bystander'):
                bs = C.bystander_spec(orig)
                pb = libstate.scratch_path('.by.' + fmt)
                paths.append(pb)
                with open(pb, 'wb') as fo:
                    fo.write(C.ref_bytes(bs))
                okb, by = guard(r, 'build-refread', C.open_lib, bs, pb,
                                'memmap')
                if okb and spec['bystander'] == 'closed':
                    C.drop(by)
                    by = None
        else:
            ok, built = guard(r, 'build-arrays', C.build_lib, spec, route,
                              spec.get('etflag', False))
            f = built[0] if ok else None
        gfail(r, spec, n0)
        if not ok:
            return r
        n0 = len(r.failures)
        ok, F = guard(r, 'build-snapshot', C.snapshot_lib, f, spec,
                      list(m.vars) if route != 'refread' else None)
        gfail(r, spec, n0)
        if not ok:
            return r
        # ---------------- write(f)
        p1 = libstate.scratch_path('.1.' + fmt)
        paths.append(p1)
        n0 = len(r.failures)
        ok, _ = guard(r, 'write-raises', C.write_lib, spec, f, p1)
        gfail(r, spec, n0)
        if not ok:
            return r
        with open(p1, 'rb') as fi:
            b1 = fi.read()
        # ---------------- the write left its source alone, and writing the
        # same object again gives the same file (precondition of the
        # idempotent-rewrite clause)
        n0 = len(r.failures)
        ok, F2 = guard(r, 'source-snapshot-after-write', C.snapshot_lib, f,
                       spec, list(m.vars) if route != 'refread' else None)
        gfail(r, spec, n0)
        if ok:
            for what, msg in snap_diff(F, F2):
                fail(r, spec, 'source-mutated', 'writing changed the source '
                     'object: ' + msg, what)
        p1b = libstate.scratch_path('.1b.' + fmt)
        paths.append(p1b)
        n0 = len(r.failures)
        ok, _ = guard(r, 'second-write-raises', C.write_lib, spec, f, p1b)
        gfail(r, spec, n0)
        if ok:
            with open(p1b, 'rb') as fi:
                b1b = fi.read()
            if b1b != b1:
                fail(r, spec, 'second-write-bytes', 'writing the same '
                     'in-memory object twice gives %d and %d bytes; first '
                     'difference at offset %d' % (len(b1), len(b1b),
                                                  first_diff(b1, b1b)))
        # ---------------- g = read(write(f))
        n0 = len(r.failures)
        ok, g = guard(r, 'read-raises', C.open_lib, spec, p1, 'memmap')
        if ok:
            ok, G = guard(r, 'read-raises', C.snapshot_lib, g, spec)
        gfail(r, spec, n0)
        if C.tripped() and not r.failures:
            fail(r, spec, 'nontermination', 'iteration budget exhausted')
        if not ok:
            return r
        if not compare(r, spec, m, F, G):
            return r
        # ---------------- write(g) == write(f)
        p2 = libstate.scratch_path('.2.' + fmt)
        paths.append(p2)
        n0 = len(r.failures)
        ok, _ = guard(r, 'rewrite-raises', C.write_lib, spec, g, p2)
        gfail(r, spec, n0)
        if not ok:
            return r
        with open(p2, 'rb') as fi:
            b2 = fi.read()
        if b2 != b1:
            i = first_diff(b1, b2)
            where = ''
            try:
                sp = fortran.spans(b1)
                kind, ri = fortran.classify_offset(sp, i)
                where = ' (record %d of the first file, %s)' % (ri, kind)
            except fortran.FortranError:
                pass
            fail(r, spec, 'rewrite-bytes', 'write(read(write(f))) has %d '
                 'bytes, write(f) %d; first difference at offset %d%s' % (
                     len(b2), len(b1), i, where))
    finally:
        C.drop(f, g, by, f0)
        f = g = by = f0 = None
        C.cleanup(*paths)
    return r


# ---------------------------------------------------------- known findings
def _time(spec, f):
    if f.clause == 'rt-tflag':
        return K.time_cause(spec, f.klass, 'begin')
    if f.clause == 'rt-etflag':
        return K.time_cause(spec, f.klass, 'end-rt')
    return None


def _arrays(spec):
    return spec.get('route') != 'refread'


known.register('C08-century', lambda spec, f: (
    _arrays(spec) and _time(spec, f) == 'century'))
known.register('C08-enddate-yearend', lambda spec, f: (
    _time(spec, f) == 'enddate-yearend'))
known.register('C08-lateral-etflag-btime', lambda spec, f: (
    _time(spec, f) == 'lateral-etflag-btime'))
known.register('C08-one3d-memmap-1step', lambda spec, f: (
    f.clause == 'read-raises' and K.single_step(spec) and
    spec['fmt'] in C.ONE3D_VAR and
    f.where == 'IndexError@camxfiles/one3d/Memmap.py:__init__'))
known.register('C08-temperature-memmap-1step', lambda spec, f: (
    K.single_step(spec) and spec['fmt'] == 'temperature' and
    (f.clause == 'rt-dim' or
     (f.clause == 'read-raises' and
      f.where == 'ValueError@camxfiles/temperature/Memmap.py:__var_get'))))
known.register('C08-height_pressure-memmap-1step', lambda spec, f: (
    K.single_step(spec) and spec['fmt'] == 'height_pressure' and
    (f.clause == 'rt-dim' or
     (f.clause == 'read-raises' and f.where ==
      'ValueError@camxfiles/height_pressure/Memmap.py:__var_get'))))
known.register('C08-wind-memmap-1cell', lambda spec, f: (
    spec['fmt'] == 'wind' and K.one_cell(spec) and
    (f.clause == 'rt-dim' or
     (f.clause == 'read-raises' and f.where in (
         'NonTermination@camxfiles/wind/Memmap.py:__init__',
         # form the endless scan takes once it is repaired
         'OSError@camxfiles/wind/Memmap.py:__init__',
         'ValueError@camxfiles/wind/Memmap.py:__add_variables')))))
known.register('C08-landuse-oldstyle-decode', lambda spec, f: (
    spec['fmt'] == 'landuse' and not spec['newstyle'] and
    f.clause == 'read-raises' and f.where.startswith(
        'UnicodeDecodeError@camxfiles/FortranFileUtil.py')))
known.register('C08-landuse-writer-order', lambda spec, f: (
    spec['fmt'] == 'landuse' and spec['newstyle'] and spec['nextra'] >= 1 and
    ((f.clause == 'read-raises' and
      f.where == 'OSError@camxfiles/landuse/Memmap.py:__addvars') or
     # sizes can coincide with an old-style file: read back as garbage
     f.clause in ('rt-names', 'rt-values', 'rt-dim', 'rewrite-bytes'))))
known.register('C08-wind-lstagger-byteorder', lambda spec, f: (
    spec['fmt'] == 'wind' and spec.get('lstagger') not in (0, -1, None) and
    ((f.clause == 'rt-attrs' and f.klass == 'wind/LSTAGGER') or
     f.clause == 'rewrite-bytes')))
known.register('C08-wind-nostagger-write', lambda spec, f: (
    spec['fmt'] == 'wind' and spec.get('lstagger') is None and
    spec.get('route') == 'refread' and f.clause == 'write-raises' and
    f.where == 'AttributeError@camxfiles/wind/Write.py:ncf2wind'))
MASK_RAISERS = ('temperature', 'height_pressure', 'wind', 'cloud_rain')
known.register('C08-met-writers-masked-tofile', lambda spec, f: (
    bool(spec.get('mask')) and spec['fmt'] in MASK_RAISERS and
    f.clause == 'write-raises' and f.where.startswith(
        'NotImplementedError@camxfiles/%s/Write.py' % spec['fmt'])))
known.register('C08-landuse-masked-stale', lambda spec, f: (
    bool(spec.get('mask')) and spec['fmt'] == 'landuse' and
    f.clause == 'rt-values'))
