"""C19 - ICARTT (ffi1001) write/read round trip.

Generator: 1-D time-series file spec (independent variable + 1-5 dependent
variables, units, missing codes, masks, header attributes).  Oracle: the
independent line reader vf/ref/icartt_ref.py on the written text, the
library reader on the output, auto-detection, second cycle.  See RULE."""
import gc
import math
import os
import shutil

import numpy as np
from hypothesis import strategies as st

from ..core import Result, Reject, guard
from ..ref import icartt_ref as I
from .. import libstate
from .. import known

ID = 'C19'
LEVEL = 'exploration'
RULE = (
    'Enumerated in every run: rule-generated long files of 1023, 1024, 1025,'
    ' 2049, 4100 records x 1-2 variables (ramp values, every 8th/9th cell '
    'missing), same oracle.  Hypothesis: file with one dimension (1-20 '
    'records), an independent '
    'variable (increasing seconds, at any position among the variables) and '
    '1-5 (in ~4% of cases 85-120, header of 100-140 lines) dependent '
    'variables (identifier names incl. name_unit forms, units '
    'without commas - incl. parentheses, slashes, blanks, exponents, # % -, f8/f4), values 0 or +-[1e-30,1e30] (f8 also up to '
    '1e300 / down to 1e-300 and the extremes of the double range) incl. '
    '7-digit '
    'rounding boundaries, per-variable missing codes from typical (-9999, '
    '-99999, -9999999, -8888.8, -999.9, 9999999) and adversarial (>= 8 '
    'significant digits: -99999999, -9999.9999, ...; text of 12-18 '
    'characters: -999999999999, -9999.123456789, -99999999999999999, ...) '
    'sets as int or float, '
    'or no declared code at all (default -999 in header and cells), '
    'random masks (none / some / all), 0-6 single-line header attributes '
    '(ICARTT keywords and neutral names, text values with : , ; =, empty, '
    'blank-only or with leading/trailing blanks, or plain numbers), '
    'optional '
    'PI/ORG/... lines, WDATE present or not, INDEPENDENT_VARIABLE_DEFINITION '
    'present or not with 1-4 comma fields (name / name, units / name, units,'
    ' long name / + one more; field 2 is the unit, also for the reference '
    'parser), the output also re-read with its dependent-variable lines '
    'extended to 3-4 fields (same names, units, data); missing codes 0 and '
    '0.0 with valid cells equal to -999 / -9999; written through file.save(format='
    '"ffi1001") or ncf2ffi1001 directly.  Unmasked values never print like '
    'the missing code (by construction).  Oracle: (text) the independent '
    'line reader parses the output: line 1 "N, 1001", line N is the column '
    'header with exactly 1+len(dependent) names in order, declared dependent '
    'count = variable lines = columns-1, scale/missing lists have that '
    'length, declared comment counts fit, every data line has that many '
    'numbers, record count kept; (read) ffi1001(output): names and order '
    '(independent first, dependents in input order), dependent units, '
    'missing codes (==), masks equal, unmasked values and independent '
    'variable within 1e-6 relative (7 significant digits; 0 exact); the '
    'independent variable\'s unit only when given as "name, unit"; (auto) '
    'PseudoNetCDF.pncopen(output) returns an ffi1001 with the same names; '
    '(cycle 2) write(read(output)) read again: values, masks bit-identical,'
    ' names, units, missing codes equal, data lines of both texts identical.'
    '  Non-trivial: >=2 dependent variables and >=1 masked cell and >=1 '
    'header attribute.  Distinct by sha1 of the spec.')
ASSUMPTIONS = [
    'masked input variables carry fill_value == missing_value (as the '
    'reader itself builds them); input without a missing_value attribute is '
    'outside the domain',
    'header attribute values are single lines; attribute names LLOD_*/ULOD_* '
    '(detection-limit keywords with their own semantics) are not generated',
    'the returned (still open) output handle is closed by the caller before '
    'reading',
]
BUDGET = {'quick': dict(examples=2800, max_s=240),
          'thorough': dict(examples=100000, max_s=3000)}

NAMES = ['O3', 'NO2_ppbv', 'CO', 'HCHO_pptv', 'Pressure', 'Temp_K', 'ALT',
         'LAT', 'LON', 'SO2', 'jNO2', 'Stop_UTC', 'Mid_UTC', 'OH', 'HO2_pptv',
         'wind_speed', 'RH', 'x1', 'N2O5', 'a']
INDEP = ['Start_UTC', 'Time', 'UTC', 'time_mid', 'Time_Start']
UNITS = ['ppbv', 'pptv', 'hPa', 'K', 'm', 'degrees', 'molec/cm3', 'm s-1',
         '%', 's-1', 'seconds', 'ug m-3', 'unitless', '1', 'deg C',
         'hours since 2004-06-26',
         # parentheses, slashes, exponents, '#', '%', degree-like words
         'molec/(cm3 s)', '#/cm3 (STP)', 'ug m-3', '1e-6 (mol mol-1)',
         'degrees (N)', '% (v/v)', 'W m^-2', 'deg_C', '(unitless)',
         'kg/(m2 s)', 'ppbv (dry)', 'm2/s2', 'degrees_north', 'nmol mol^-1']
IUNITS = ['seconds', 's', 'seconds since midnight UTC', 'seconds_past_0Z']
MISS_TYPICAL = [-9999, -9999, -99999, -999999, -9999999, -8888.8, -999.9,
                -9999.0, -7777, 9999999, -999, 0, 0.0]
MISS_LONG = [-99999999, -999999999, -9999.9999, -99999.999, 99999999,
             -1234567.8, -99999999.0]
# codes whose text is longer than any %.6e number (12-18 characters)
MISS_LONGTEXT = [-999999999999, -9999.123456789, 99999999999999,
                 -1234567890.12345, -99999999999999999, -8888.88888888,
                 -999999999.999, 123456789012345, -9.99999999999e+30,
                 -99999.0000001]
ATTRKEYS = ['PI_CONTACT_INFO', 'PLATFORM', 'LOCATION', 'ASSOCIATED_DATA',
            'INSTRUMENT_INFO', 'DATA_INFO', 'UNCERTAINTY', 'DM_CONTACT_INFO',
            'PROJECT_INFO', 'STIPULATIONS_ON_USE', 'OTHER_COMMENTS',
            'REVISION', 'R0', 'note', 'history_q', 'Sampling']
ATTRVALS = ['N/A', 'NASA DC8', 'see ftp://ftp-air.larc.nasa.gov/pub/x',
            'Address: 503 Walker Building; email: a@b.edu; 814-865-3286',
            'Units are pptv.', 'R0', '+/- 32% at two sigma', 'a=1, b=2',
            '2004 06 26', 'Final data: use with care: ok', '1', 'x', 3, 2.5,
            -9999]
# header attributes without text, and text with blanks at the ends (still
# single-line): a keyword may be present with nothing to say
ATTRVALS_BLANK = ['', '', ' ', '   ', '\t', ' leading blank', 'trailing  ',
                  '  both ends  ', ' : ', 'N/A ']
HEAD = ['PI_NAME', 'ORGANIZATION_NAME', 'SOURCE_DESCRIPTION', 'MISSION_NAME',
        'VOLUME_INFO', 'TIME_INTERVAL']
HEADVALS = {'PI_NAME': ['Brune, William', 'Doe, J.'],
            'ORGANIZATION_NAME': ['Penn State University', 'NCAR'],
            'SOURCE_DESCRIPTION': ['ATHOS - OH and HO2', 'TD-LIF'],
            'MISSION_NAME': ['ICARTT_INTEX', 'DISCOVER-AQ'],
            'VOLUME_INFO': ['1, 1', '2, 3'],
            'TIME_INTERVAL': ['0', '1', '60', '0.5']}


def sig_digits(code):
    s = repr(float(code)) if isinstance(code, float) else str(int(code))
    s = s.lstrip('-').replace('.', '')
    if 'e' in s:
        s = s.split('e')[0]
    s = s.lstrip('0').rstrip('0')
    return max(1, len(s))


def prints_like(x, code):
    return ('%.6e' % x) == ('%.6e' % float(code))


# ------------------------------------------------------------------ strategy
def values(width):
    mag = st.floats(min_value=1e-30, max_value=1e30, allow_nan=False,
                    allow_infinity=False)
    plain = st.floats(min_value=1e-3, max_value=1e5)
    edge = st.sampled_from([9.9999995e5, 1.0000005, 1.23456749999,
                            9.9999994e-11, 1e30, 1e-30, 123456.75,
                            0.1, 1.0 / 3.0, 2.5e-7, 99999.995])
    pos = st.one_of(mag, plain, plain, edge)
    if width == 64:
        # doubles beyond the single precision range are finite values too
        wide = st.one_of(
            st.floats(min_value=1e30, max_value=1e300),
            st.floats(min_value=1e-300, max_value=1e-30),
            st.sampled_from([1e300, 1e-300, 3.5e38, 1e39, 1e-46, 1.5e-45,
                             1.7976931348623157e308, 2.5e-308]))
        pos = st.one_of(mag, plain, plain, edge, wide)
    out = st.one_of(st.just(0.0), pos, pos, pos.map(lambda v: -v),
                    pos.map(lambda v: -v))
    if width == 32:
        out = out.map(lambda v: float(np.float32(v)))
    return out


@st.composite
def cases(draw, tier='quick'):
    # a small share of files with 85-120 dependent variables: the header
    # then has 100-140 lines ("NNN, 1001" on line 1)
    wide = draw(st.sampled_from([False] * 24 + [True]))
    if wide:
        nrec = draw(st.sampled_from([1, 1, 2]))
        ndep = draw(st.sampled_from([85, 86, 90, 99, 100, 110, 120]))
        names = ['V%03d_ppbv' % k if k % 7 else 'X%03d' % k
                 for k in range(ndep)]
    else:
        nrec = draw(st.sampled_from([1, 1, 2, 3, 4, 5, 6, 8, 10, 13, 16,
                                     20]))
        ndep = draw(st.sampled_from([1, 2, 2, 3, 3, 4, 5]))
        names = list(draw(st.permutations(NAMES)))[:ndep]
    long_ok = draw(st.sampled_from([False, False, False, True]))
    t0 = draw(st.sampled_from([0.0, 63481.0, 86399.5, 3600.25, 12.0]))
    steps = draw(st.lists(st.sampled_from([1.0, 0.5, 19.0, 60.0, 0.1, 3600.0]),
                          min_size=nrec, max_size=nrec))
    tv = []
    t = t0
    for s in steps:
        tv.append(float(np.float64(t)))
        t += s
    deps = []
    for k in range(ndep):
        dt = draw(st.sampled_from(['f8', 'f8', 'f4']))
        pool = MISS_TYPICAL + ((MISS_LONG + MISS_LONGTEXT) * 2
                               if long_ok else [])
        miss = draw(st.sampled_from(pool))
        # a masked variable that declares no missing code at all: the writer
        # documents -999 as the default, in the header and in the cells
        nocode = draw(st.sampled_from([False] * 5 + [True]))
        if nocode:
            miss = -999
        maskkind = draw(st.sampled_from(['none', 'some', 'some', 'some',
                                         'all']))
        if maskkind == 'none':
            mask = [0] * nrec
        elif maskkind == 'all':
            mask = [1] * nrec
        else:
            mask = draw(st.lists(st.sampled_from([0, 0, 1]), min_size=nrec,
                                 max_size=nrec))
        vals = draw(st.lists(values(32 if dt == 'f4' else 64), min_size=nrec,
                             max_size=nrec))
        # in-domain by construction: an unmasked value never prints like
        # the missing code
        if miss == 0:
            # a code of 0: valid cells equal to the usual default codes
            extra = draw(st.lists(st.sampled_from([None, None, -999.0,
                                                   -9999.0]),
                                  min_size=nrec, max_size=nrec))
            vals = [v if x is None else x for v, x in zip(vals, extra)]
        safe = 1.0 if prints_like(0.0, miss) else 0.0
        vals = [safe if (not m and prints_like(v, miss)) else v
                for v, m in zip(vals, mask)]
        deps.append(dict(name=names[k], unit=draw(st.sampled_from(UNITS)),
                         missing=miss, dtype=dt, values=vals, mask=mask,
                         build='nocode' if nocode else
                         draw(st.sampled_from(['masked', 'masked', 'plain']))
                         if maskkind == 'none' else 'masked'))
    # the reader masks the independent variable with the first dependent
    # variable's code: keep them apart (positive codes are >= 999999)
    if deps[0]['missing'] == 0:
        tv = [v + 12.0 if v == 0 else v for v in tv]
    if any(prints_like(v, deps[0]['missing']) for v in tv):
        raise AssertionError('independent variable collides with a code')
    nattr = draw(st.sampled_from([0, 1, 1, 2, 3, 4, 6]))
    akeys = list(draw(st.permutations(ATTRKEYS)))[:nattr]
    attrs = [[k, draw(st.sampled_from(
        ATTRVALS_BLANK if draw(st.sampled_from([False, False, True]))
        else ATTRVALS))] for k in akeys]
    head = {}
    for h in HEAD:
        if draw(st.booleans()):
            head[h] = draw(st.sampled_from(HEADVALS[h]))
    iname = draw(st.sampled_from(INDEP))
    return dict(
        dim=draw(st.sampled_from(['POINTS', 'POINTS', 'time', 'obs'])),
        indep=dict(name=iname, unit=draw(st.sampled_from(IUNITS)),
                   values=tv, pos=draw(st.sampled_from([0, 0, 0, 1, ndep])),
                   definition=draw(st.sampled_from([True, False])),
                   # comma fields of the definition line: name / name, units
                   # / name, units, long name (ICARTT v2) / + one more
                   deffields=draw(st.sampled_from([2, 3, 1, 3, 2, 4]))),
        # the same for the dependent-variable lines (judged on a copy of the
        # output whose variable lines are extended, see check_case)
        depfields=draw(st.sampled_from([2, 2, 3, 4])),
        deps=deps, attrs=attrs, head=head,
        sdate=draw(st.sampled_from(['2004, 06, 26', '1999, 12, 31',
                                    '2020, 02, 29'])),
        wdate=draw(st.sampled_from(['2005, 01, 12', '2021, 03, 01', None])),
        route=draw(st.sampled_from(['save', 'func'])))


def strategy(tier):
    return cases(tier)


# long files, enumerated in every run: the spec only names the rule
LONG_COUNTS = [1023, 1024, 1025, 2049, 4100]


def enumerate_cases(tier):
    counts = LONG_COUNTS + ([8193, 20000] if tier == 'thorough' else [])
    for n in counts:
        for ndep in (1, 2):
            yield dict(gen=dict(nrec=n, ndep=ndep, missevery=7 + ndep,
                                missing=-9999 if ndep == 1 else -99999.5),
                       route='save' if ndep == 1 else 'func')


def expand(spec):
    """rule-generated long file -> full case spec: 1 Hz time ramp, dependent
    variable k = (i+1)*(k+1)/4 + k/1000, every missevery-th cell (shifted
    by k) masked"""
    g = spec['gen']
    n = int(g['nrec'])
    deps = []
    for k in range(int(g['ndep'])):
        deps.append(dict(
            name=['O3', 'NO2_ppbv'][k], unit=['ppbv', 'molec/(cm3 s)'][k],
            missing=g['missing'], dtype='f8',
            values=[(i + 1) * (k + 1) * 0.25 + k * 1e-3 for i in range(n)],
            mask=[1 if (i + k) % int(g['missevery']) == 3 else 0
                  for i in range(n)], build='masked'))
    return dict(dim='POINTS',
                indep=dict(name='Start_UTC', unit='seconds',
                           values=[63481.0 + i for i in range(n)], pos=0,
                           definition=True),
                deps=deps, attrs=[['PLATFORM', 'NASA DC8'], ['REVISION', 'R0']],
                head={'PI_NAME': 'Doe, J.'}, sdate='2004, 06, 26',
                wdate='2005, 01, 12', route=spec.get('route', 'save'))


# ------------------------------------------------------------------ build
def build(spec):
    from PseudoNetCDF.sci_var import (PseudoNetCDFFile,
                                      PseudoNetCDFMaskedVariable,
                                      PseudoNetCDFVariable)
    f = PseudoNetCDFFile()
    n = len(spec['indep']['values'])
    dim = spec['dim']
    f.createDimension(dim, n)
    order = [('dep', d) for d in spec['deps']]
    pos = min(spec['indep']['pos'], len(order))
    order.insert(pos, ('indep', spec['indep']))
    for kind, d in order:
        if kind == 'indep':
            v = PseudoNetCDFVariable(f, d['name'], 'd', (dim,),
                                     values=np.array(d['values'], dtype='d'))
            v.units = d['unit']
            f.variables[d['name']] = v
            continue
        arr = np.array(d['values'], dtype=d['dtype'])
        miss = d['missing']
        if d['build'] == 'nocode':
            ma = np.ma.MaskedArray(arr, mask=np.array(d['mask'], dtype=bool))
            v = PseudoNetCDFMaskedVariable(f, d['name'], d['dtype'], (dim,),
                                           values=ma)
            v.units = d['unit']
            f.variables[d['name']] = v
            continue
        if d['build'] == 'plain':
            v = PseudoNetCDFVariable(f, d['name'], d['dtype'], (dim,),
                                     values=arr)
        else:
            ma = np.ma.MaskedArray(arr, mask=np.array(d['mask'], dtype=bool),
                                   fill_value=miss)
            v = PseudoNetCDFMaskedVariable(f, d['name'], d['dtype'], (dim,),
                                           values=ma)
            v.fill_value = miss
        v.units = d['unit']
        v.missing_value = miss
        f.variables[d['name']] = v
    f.SDATE = spec['sdate']
    if spec['wdate'] is not None:
        f.WDATE = spec['wdate']
    f.INDEPENDENT_VARIABLE = spec['indep']['name']
    if spec['indep']['definition']:
        f.INDEPENDENT_VARIABLE_DEFINITION = indep_definition(spec)
    for k, v in spec['head'].items():
        setattr(f, k, v)
    for k, v in spec['attrs']:
        setattr(f, k, v)
    return f


LONGNAMES = ['elapsed time since 0 hours UTC', 'Start time of the sample',
             'mixing ratio (dry air)', 'number of seconds from 0000 UTC']


def indep_definition(spec):
    i = spec['indep']
    n = i.get('deffields', 2)
    parts = [i['name'], i['unit'], LONGNAMES[len(i['name']) % 4],
             'see header'][:n]
    return ', '.join(parts)


def write(f, path, route):
    if route == 'save':
        out = f.save(path, format='ffi1001')
    else:
        from PseudoNetCDF.icarttfiles.ffi1001 import ncf2ffi1001
        out = ncf2ffi1001(f, path)
    if hasattr(out, 'close'):
        out.close()


# ------------------------------------------------------------------ known
def _long_codes(spec):
    return [d['name'] for d in spec['deps'] if sig_digits(d['missing']) > 7]


def _nlines(spec):
    """lines of the first output: header (15 + ndep + attrs) + records"""
    nattr = len(spec['attrs'])
    return 15 + len(spec['deps']) + nattr + len(spec['indep']['values'])


known.register(
    'C19-missing-code-over-7-digits',
    lambda spec, f: f.clause in ('read-mask', 'read-values') and
    f.klass == 'missing>7digits' and bool(_long_codes(spec)))
known.register(
    'C19-indep-unit-lost',
    lambda spec, f: f.clause == 'read-indep-unit' and
    spec['indep']['definition'])
# (C19-autodetect-short-file - l100.isMine claimed every output shorter than
# 28 lines - was repaired in /repo, commit 513d711; its reproducer is now the
# regression case replays/C19/fixed-autodetect-short-file.json)


# ------------------------------------------------------------------ oracle
def close7(got, want):
    """got, want float64 arrays: 7 significant digits"""
    got = np.asarray(got, dtype='f8')
    want = np.asarray(want, dtype='f8')
    with np.errstate(all='ignore'):
        return np.abs(got - want) <= 1e-6 * np.abs(want)


def _data(v):
    a = v[...]
    return (np.asarray(np.ma.getdata(a), dtype='f8'),
            np.ma.getmaskarray(a).copy())


def check_text(r, spec, text, clause):
    try:
        p = I.parse(text)
    except I.FormatError as e:
        r.fail(clause + '-structure', 'independent line reader: %s' % e)
        return None
    want = [spec['indep']['name']] + [d['name'] for d in spec['deps']]
    if p['columns'] != want:
        r.fail(clause + '-columns', 'line %d (column header) has names %r, '
               'expected %r' % (p['nlhead'], p['columns'], want))
    if p['nv'] != len(spec['deps']):
        r.fail(clause + '-nv', 'declares %d dependent variables, file has %d'
               % (p['nv'], len(spec['deps'])))
    if [d[0] for d in p['deps']] != want[1:]:
        r.fail(clause + '-varlines', 'variable lines %r, expected %r' %
               (p['deps'], want[1:]))
    if len(p['rows']) != len(spec['indep']['values']):
        r.fail(clause + '-records', '%d data lines, %d records' %
               (len(p['rows']), len(spec['indep']['values'])))
    if p['indep_name'] != spec['indep']['name']:
        r.fail(clause + '-indep', 'line 9 names %r' % p['indep_line'])
    if spec['indep']['definition'] and \
            spec['indep'].get('deffields', 2) >= 2 and \
            p['indep_unit'] != spec['indep']['unit']:
        r.fail(clause + '-indep', 'line 9 is %r, unit should be %r' % (
            p['indep_line'], spec['indep']['unit']))
    for tok, d in zip(p['missing'], spec['deps']):
        try:
            ok = float(tok) == float(d['missing'])
        except ValueError:
            ok = False
        if not ok:
            r.fail(clause + '-missing', 'missing code of %s written as %r, '
                   'input %r' % (d['name'], tok, d['missing']))
    return p


def check_read(r, spec, g, clause):
    """library file g (read from the first output) against the input"""
    want = [spec['indep']['name']] + [d['name'] for d in spec['deps']]
    got = list(g.variables.keys())
    if got != want:
        r.fail(clause + '-names', 'variables %r, expected %r' % (got, want))
        return False
    iv = g.variables[spec['indep']['name']]
    idata, imask = _data(iv)
    wt = np.array(spec['indep']['values'], dtype='f8')
    if idata.shape != wt.shape:
        r.fail(clause + '-shape', 'independent variable has shape %r, '
               'expected %r' % (idata.shape, wt.shape))
        return False
    if imask.any() or not close7(idata, wt).all():
        r.fail(clause + '-indep-values', 'independent variable %s (mask %s),'
               ' expected %s' % (idata.tolist(), imask.astype(int).tolist(),
                                 wt.tolist()))
    if spec['indep']['definition'] and \
            spec['indep'].get('deffields', 2) >= 2:
        # the format's rule: field 2 of the definition line is the unit
        if str(getattr(iv, 'units', None)).strip() != spec['indep']['unit']:
            r.fail(clause + '-indep-unit', 'independent variable unit %r, '
                   'input INDEPENDENT_VARIABLE_DEFINITION %r' % (
                       getattr(iv, 'units', None), indep_definition(spec)))
        iu = getattr(g, 'INDEPENDENT_VARIABLE_UNITS', None)
        if str(iu).strip() != spec['indep']['unit']:
            r.fail(clause + '-indep-unit', 'INDEPENDENT_VARIABLE_UNITS %r, '
                   'definition line %r' % (iu, indep_definition(spec)))
    for d in spec['deps']:
        v = g.variables[d['name']]
        klass = 'missing>7digits' if sig_digits(d['missing']) > 7 else ''
        if str(getattr(v, 'units', None)) != d['unit']:
            r.fail(clause + '-units', '%s: units %r, expected %r' % (
                d['name'], getattr(v, 'units', None), d['unit']))
        mv = getattr(v, 'missing_value', None)
        try:
            same = float(mv) == float(d['missing'])
        except (TypeError, ValueError):
            same = False
        if not same:
            r.fail(clause + '-missing', '%s: missing_value %r, expected %r' %
                   (d['name'], mv, d['missing']), klass=klass)
        data, mask = _data(v)
        wmask = np.array(d['mask'], dtype=bool)
        wdata = np.array(d['values'], dtype=d['dtype']).astype('f8')
        if data.shape != wdata.shape:
            r.fail(clause + '-shape', '%s has shape %r, expected %r' % (
                d['name'], data.shape, wdata.shape))
            continue
        if not np.array_equal(mask, wmask):
            r.fail(clause + '-mask', '%s: mask %s, expected %s (missing code '
                   '%r, values %s)' % (d['name'], mask.astype(int).tolist(),
                                       wmask.astype(int).tolist(),
                                       d['missing'], data.tolist()),
                   klass=klass)
            continue
        keep = ~wmask
        if keep.any() and not close7(data[keep], wdata[keep]).all():
            r.fail(clause + '-values', '%s: values %s, expected %s' % (
                d['name'], data[keep].tolist(), wdata[keep].tolist()),
                klass=klass)
    return True


def check_same(r, a, b, clause):
    """second cycle: b (after another write/read) against a: exact"""
    ka, kb = list(a.variables.keys()), list(b.variables.keys())
    if ka != kb:
        r.fail(clause + '-names', 'variables %r after the second cycle, %r '
               'after the first' % (kb, ka))
        return
    for k in ka:
        da, ma = _data(a.variables[k])
        db, mb = _data(b.variables[k])
        if da.shape != db.shape or not np.array_equal(ma, mb):
            r.fail(clause + '-mask', '%s: mask/shape changed in the second '
                   'cycle (%s -> %s)' % (k, ma.astype(int).tolist(),
                                         mb.astype(int).tolist()))
            continue
        if da[~ma].tobytes() != db[~mb].tobytes():
            r.fail(clause + '-values', '%s: values changed in the second '
                   'cycle (%s -> %s)' % (k, da[~ma].tolist(),
                                         db[~mb].tolist()))
        for at in ('units', 'missing_value'):
            if getattr(a.variables[k], at, None) != getattr(b.variables[k],
                                                             at, None):
                r.fail(clause + '-' + at, '%s: %s %r -> %r' % (
                    k, at, getattr(a.variables[k], at, None),
                    getattr(b.variables[k], at, None)))


def check_case(spec):
    r = Result()
    if 'gen' in spec:
        spec = expand(spec)
        r.label('long-file', 'nrec=%d' % len(spec['indep']['values']))
    deps = spec['deps']
    n = len(spec['indep']['values'])
    for d in deps:
        for v, m in zip(d['values'], d['mask']):
            if not m and prints_like(v, d['missing']):
                raise Reject()
    if any(prints_like(v, deps[0]['missing'])
           for v in spec['indep']['values']):
        raise Reject()
    nmasked = sum(sum(d['mask']) for d in deps)
    r.label('ndep=%d' % len(deps), 'route:' + spec['route'])
    r.label('nrec=1' if n == 1 else 'nrec=2-5' if n <= 5 else 'nrec>5')
    r.label('attrs=%d' % len(spec['attrs']))
    texts = [v for k, v in spec['attrs'] if isinstance(v, str)]
    if any(v.strip() == '' for v in texts):
        r.label('attr-empty-or-blank')
    if any(v.strip() != '' and v != v.strip() for v in texts):
        r.label('attr-blank-edges')
    if any(not isinstance(v, str) for k, v in spec['attrs']):
        r.label('attr-numeric')
    if nmasked:
        r.label('masked-cells')
    if any(all(d['mask']) for d in deps):
        r.label('all-masked-var')
    if _long_codes(spec):
        r.label('missing>7digits')
    if any(len(str(d['missing'])) >= 12 for d in deps):
        r.label('missing-text>=12chars')
        if any(len(str(d['missing'])) >= 12 and any(d['mask'])
               for d in deps):
            r.label('missing-text>=12chars+masked')
    if any(isinstance(d['missing'], float) for d in deps):
        r.label('missing-float')
    if any(d['missing'] > 0 for d in deps):
        r.label('missing-positive')
    if any(d['missing'] == 0 for d in deps):
        r.label('missing-code-zero')
        if any(d['missing'] == 0 and any(
                v in (-999.0, -9999.0) and not m
                for v, m in zip(d['values'], d['mask'])) for d in deps):
            r.label('missing-code-zero+valid--999')
    if any(d['dtype'] == 'f4' for d in deps):
        r.label('f4')
    if any('(' in d['unit'] for d in deps):
        r.label('unit-parentheses')
    if any(ch in d['unit'] for d in deps for ch in '#%^'):
        r.label('unit-special-chars')
    if any(d['build'] == 'plain' for d in deps):
        r.label('plain-variable')
    if any(d['build'] == 'nocode' for d in deps):
        r.label('no-declared-code')
        if any(d['build'] == 'nocode' and any(d['mask']) for d in deps):
            r.label('no-declared-code+masked')
    if spec['indep']['pos'] != 0:
        r.label('indep-not-first')
    if spec['indep']['definition']:
        r.label('indep-definition',
                'indep-fields=%d' % spec['indep'].get('deffields', 2))
    r.label('dep-fields=%d' % spec.get('depfields', 2))
    if spec['wdate'] is None:
        r.label('no-WDATE')
    if _nlines(spec) < 28:
        r.label('lines<28')
    nhead = _nlines(spec) - n
    if nhead >= 100:
        r.label('header>=100lines')
    if any(v != 0 and (v < 1e-45 or v > 3.4e38) for d in deps
           for v, m in zip(d['values'], d['mask']) if not m
           for v in [abs(v)]):
        r.label('beyond-float32-range')
    allv = [abs(v) for d in deps for v, m in zip(d['values'], d['mask'])
            if not m]
    if any(v != 0 and (v < 1e-10 or v > 1e10) for v in allv):
        r.label('extreme-magnitude')
    if any(v == 0 for v in allv):
        r.label('zero')
    r.nontrivial = bool(len(deps) >= 2 and nmasked >= 1 and
                        len(spec['attrs']) >= 1)

    base = libstate.scratch_path('_c19')
    os.makedirs(base)
    p1 = os.path.join(base, 'out1.ict')
    p2 = os.path.join(base, 'out2.ict')
    f = g = h = g2 = None
    try:
        from PseudoNetCDF.icarttfiles.ffi1001 import ffi1001
        import PseudoNetCDF
        f = build(spec)
        ok, _ = guard(r, 'write', lambda: write(f, p1, spec['route']))
        if not ok:
            return r
        with open(p1) as fi:
            text1 = fi.read()
        p = check_text(r, spec, text1, 'text')
        ok, g = guard(r, 'read-open', lambda: ffi1001(p1))
        if not ok:
            return r
        good = check_read(r, spec, g, 'read')
        # ---- dependent-variable lines with 3-4 comma fields (ICARTT v2
        # "name, units, long name"): the same text with extended variable
        # lines must read back with the same names, units and data
        nf = spec.get('depfields', 2)
        if good and p is not None and nf > 2:
            lines = text1.split('\n')
            for k, d in enumerate(spec['deps']):
                extra = [LONGNAMES[(k + 2) % 4], 'see header'][:nf - 2]
                lines[12 + k] = ', '.join([d['name'], d['unit']] + extra)
            p3 = os.path.join(base, 'out3.ict')
            with open(p3, 'w') as fo:
                fo.write('\n'.join(lines))
            ok, g3 = guard(r, 'deplines-open', lambda: ffi1001(p3))
            if ok:
                check_same(r, g, g3, 'deplines')
            g3 = None
        # ---- auto-detection
        ok, h = guard(r, 'autodetect-open', lambda: _autodetect(p1))
        if ok:
            if isinstance(h, type):
                r.fail('autodetect', 'pncopen(output) without format picks '
                       'reader %s for the %d-line output' % (
                           h.__name__, len(text1.split('\n')) - 1))
                h = None
            elif list(h.variables.keys()) != list(g.variables.keys()):
                r.fail('autodetect-names', 'pncopen(output) variables %r' %
                       list(h.variables.keys()))
        # ---- second cycle
        if good:
            ok, _ = guard(r, 'cycle2-write', lambda: write(g, p2,
                                                           spec['route']))
            if ok:
                with open(p2) as fi:
                    text2 = fi.read()
                q = check_text2(r, text2, g)
                ok, g2 = guard(r, 'cycle2-open', lambda: ffi1001(p2))
                if ok:
                    check_same(r, g, g2, 'cycle2')
                if p is not None and q is not None and \
                        p['rows'] != q['rows']:
                    r.fail('cycle2-text', 'data lines changed in the second '
                           'cycle: %r -> %r' % (p['rows'][:3], q['rows'][:3]))
    finally:
        f = g = h = g2 = None
        gc.collect()
        shutil.rmtree(base, ignore_errors=True)
    return r


def _autodetect(path):
    """what pncopen(path) does without a format: getreader, then the
    reader.  The chosen class is reported when it is not the ICARTT one."""
    import PseudoNetCDF
    from PseudoNetCDF._getreader import getreader
    from PseudoNetCDF.icarttfiles.ffi1001 import ffi1001
    reader = getreader(path)
    if reader is not ffi1001:
        return reader
    return PseudoNetCDF.pncopen(path)


def check_text2(r, text, g):
    try:
        q = I.parse(text)
    except I.FormatError as e:
        r.fail('cycle2-text-structure', 'independent line reader on the '
               'second output: %s' % e)
        return None
    if q['columns'] != list(g.variables.keys()):
        r.fail('cycle2-text-columns', 'second output columns %r, file has %r'
               % (q['columns'], list(g.variables.keys())))
    return q
