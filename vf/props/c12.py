"""C12 - decoded times are the true instants for every supported encoding.

Encodings: CF 'unit since reference' variables (getTimes, coordutil.gettimes,
date2num, time2idx), IOAPI TFLAG and SDATE/STIME/TSTEP (getTimes, gettimes,
ioapi_base.from_arrays), CF time variables synthesised from IOAPI metadata
(conventions.ioapi add_time_variable(s)), tau0/tau1.  The true instant is
known by construction: the generator draws the reference instant, its UTC
offset and the stored numbers and only then renders a spelling.  Oracle:
vf/ref/caltime.py (integer/Fraction arithmetic, cftime as second opinion).
(DESIGN 7 C12)"""
import datetime as dt
from fractions import Fraction

import numpy as np
from hypothesis import strategies as st

from ..core import Result, attempt, exc_where, HarnessError
from ..ref import caltime as CT
from .. import known

ID = 'C12'
LEVEL = 'exploration'
UTC = dt.timezone.utc
RULE = (
    'Hypothesis, three case kinds.  cf: reference 1900-2100 (weight on Jan '
    '1, Feb 28/29, Mar 1, Dec 31) with optional time of day and UTC offset, '
    'rendered as Y-M-D (zero-padded or not) + separator " " or "T" + none | '
    'H | H:M | H:M:S | H:M:S.0 + suffix none | Z | " UTC" | +HH:MM | +HHMM | '
    '" +HH:MM" (offsets 0, -05:00, +05:30, +09:00, -11:00); unit days | '
    'hours | minutes | seconds; calendar attribute absent | standard | '
    'gregorian | proleptic_gregorian | noleap | 365_day | all_leap | 366_day '
    '(also mixed case); 1-6 strictly monotonic stored numbers (ascending; descending in 1/4 of the cases without bounds) (0, whole, '
    'dyadic and arbitrary fractions, up to +-2 centuries, dtype f8/f4/i4/i8); '
    'bounds=False | True with a contiguous time_bounds variable | True '
    'derived from uniform centres.  A raise of getTimes is a pass '
    '(counted).  When it returns: standard family - each datetime equals '
    'reference(UTC) + value x unit computed in exact rational arithmetic, '
    'tolerance 2 us + 2^-50 of the offset; 365/366-day family - the '
    'components of the returned datetime equal the calendar date/time '
    'computed by integer arithmetic (cross-checked against cftime.num2date '
    'on every case; a disagreement is a harness error), cases where an '
    'expected date does not exist in the real calendar are excluded and '
    'counted.  bounds=True: n+1 edges = decoded lower bounds + last upper '
    'bound, or centres -/+ half a step for uniform centres (irregular '
    'centres not judged).  Inverses (only when the forward result was '
    'right): date2num(getTimes()) == stored numbers (rtol 1e-12, atol 1 us '
    'in the unit; a raise inside netCDF4/cftime is counted, not judged) and '
    'time2idx(getTimes()) == arange(n); in 3/4 of the cases date2num is '
    'also given the same instants re-expressed at UTC-06:00, +05:30 or '
    '+09:00 and must return the same numbers.  In 1/3 of the standard-'
    'family cases a second phase follows on the SAME file object: the '
    'units attribute is rewritten (other unit word and/or reference moved '
    'by whole days), getTimes must decode the stored numbers under the new '
    'units and date2num(getTimes()) must again return them.  '
    'getTimes(datetype=datetime64[s|ms|us|m]) (5/8 of the cf, ioapi and tau '
    'cases): dtype as requested and every element the UTC instant of the '
    'validated datetime result floored to the unit (numpy datetime64 is '
    'naive UTC; numpy itself converts aware datetimes to UTC).  '
    '  coordutil.gettimes (functional '
    'form, centres only) is judged on the same instants.  ioapi: TFLAG files '
    '(regular series and irregular rows), SDATE/STIME/TSTEP-only files, '
    'ioapi_base.from_arrays, each optionally passed through '
    'add_time_variables (CF time/time_bounds synthesised from the IOAPI '
    'metadata; half of these get a second phase on the SAME file object: '
    'SDATE/STIME/TSTEP (and TFLAG where present) are re-stamped for another '
    'period, add_time_variables runs again and getTimes() / '
    'getTimes(bounds=True) must decode the new period) - instants = date(Y,1,1) + (JJJ-1) days + HHMMSS by integer '
    'arithmetic, exact equality; bounds=True = n instants + one more TSTEP; '
    'SDATE 1970001-2100365 weighted to leap days and year ends, STIME whole '
    'hours and HHMMSS, TSTEP from 15 s to 100 h.  tau: tau0/tau1 hours since '
    '1985-01-01.  Enumeration (enumerate_cases): for every year 1970-2100 '
    'one TFLAG file per selected day of year x 24 hours x minute/second '
    'pattern (quick: 27 days around month ends, leap day and year end; '
    'thorough: every day of every year, exhaustive for (year, day, hour)), '
    'plus an hourly SDATE/TSTEP series across every year end and leap day.  '
    'Non-trivial: non-midnight reference, or fractional stored number, or '
    'non-standard calendar, or an instant on Feb 28/29, Mar 1, Dec 31 or Jan '
    '1, or an IOAPI start time / step that is not a whole hour.  Distinct by '
    'sha1 of the case spec.')
ASSUMPTIONS = ['stdlib datetime (proleptic Gregorian day count) for instants '
               '>= 1600; cftime.num2date as second opinion for the fixed-'
               'length calendars',
               'numpy converts timezone-aware datetimes to UTC when building '
               'datetime64 arrays (checked on the installed numpy 2.5)']
BUDGET = {'quick': dict(examples=14400, max_s=200),
          'thorough': dict(examples=200000, max_s=3000)}
EXHAUSTIVE_NOTE = ('thorough tier: every (year 1970-2100, day of year, hour '
                   '0-23) as TFLAG rows at minute/second patterns 00:00, '
                   '30:00, 59:59; quick tier: 27 selected days per year')
_TIER = [None]

CT.selftest()   # anchors of the independent calendar arithmetic (cheap)

CALS = [None, 'standard', 'gregorian', 'proleptic_gregorian', 'noleap',
        '365_day', 'all_leap', '366_day']
OFFSETS = [0, 0, 0, -300, 330, 540, -660]


# ------------------------------------------------------------------ spelling
def render_offset(off, style):
    sign = '-' if off < 0 else '+'
    h, m = divmod(abs(off), 60)
    if style == 'colon':
        return '%s%02d:%02d' % (sign, h, m)
    if style == 'plain':
        return '%s%02d%02d' % (sign, h, m)
    if style == 'spcolon':
        return ' %s%02d:%02d' % (sign, h, m)
    raise ValueError(style)


def render_ref(ref, off, sp):
    y, mo, d, h, mi, s = ref
    pad = sp['pad']
    date = ('%04d-%02d-%02d' if pad else '%d-%d-%d') % (y, mo, d)
    two = '%02d' if pad else '%d'
    tf = sp['tfmt']
    if tf == 'none':
        tm = ''
    elif tf == 'H':
        tm = two % h
    elif tf == 'HM':
        tm = (two + ':' + two) % (h, mi)
    elif tf == 'HMS':
        tm = (two + ':' + two + ':' + two) % (h, mi, s)
    elif tf == 'HMSf':
        tm = (two + ':' + two + ':' + two + '.0') % (h, mi, s)
    else:
        raise ValueError(tf)
    out = date + (sp['sep'] + tm if tm else '')
    sfx = sp['suffix']
    if sfx == 'none':
        pass
    elif sfx == 'Z':
        out += 'Z'
    elif sfx == 'UTC':
        out += ' UTC'
    else:
        out += render_offset(off, sfx)
    return out


def units_of(spec):
    return '%s since %s' % (spec['unit'], render_ref(spec['ref'],
                                                     spec['off'],
                                                     spec['spell']))


# ------------------------------------------------------------------ strategies
@st.composite
def ref_dates(draw, lo=1900, hi=2100):
    y = draw(st.integers(lo, hi))
    kind = draw(st.sampled_from(['jan1', 'jan1', 'feb28', 'feb29', 'mar1',
                                 'dec31', 'any', 'any']))
    if kind == 'jan1':
        mo, d = 1, 1
    elif kind == 'feb28':
        mo, d = 2, 28
    elif kind == 'feb29':
        y = y - y % 4
        if not CT.isleap(y):
            y = 2000
        mo, d = 2, 29
    elif kind == 'mar1':
        mo, d = 3, 1
    elif kind == 'dec31':
        mo, d = 12, 31
    else:
        mo = draw(st.integers(1, 12))
        d = draw(st.integers(1, 28))
    return [y, mo, d]


@st.composite
def stored_values(draw, unit, dtype, n):
    per_day = {'days': 1, 'hours': 24, 'minutes': 1440, 'seconds': 86400}[
        unit]
    span_days = draw(st.sampled_from([8, 40, 800, 73000]))
    hi = span_days * per_day
    if dtype == 'i4':
        hi = min(hi, 2 ** 31 - 1)
    style = draw(st.sampled_from(['whole', 'whole', 'dyadic', 'float']))
    if dtype in ('i4', 'i8'):
        style = 'whole'
    signed = draw(st.booleans())
    lo = -hi if signed else 0
    if style == 'whole':
        if draw(st.booleans()):
            # whole days expressed in the unit
            ks = draw(st.lists(st.integers(lo // per_day, hi // per_day),
                               min_size=n, max_size=n, unique=True))
            vals = [k * per_day for k in ks]
        else:
            vals = draw(st.lists(st.integers(lo, hi), min_size=n, max_size=n,
                                 unique=True))
        vals = [int(v) for v in vals]
    elif style == 'dyadic':
        ks = draw(st.lists(st.integers(lo * 8, hi * 8), min_size=n,
                           max_size=n, unique=True))
        vals = [k / 8. for k in ks]
    else:
        # decimal fractions (not dyadic): k/1000 of the unit, so distinct
        # numbers are distinct instants at microsecond resolution
        ks = draw(st.lists(st.integers(lo * 1000, hi * 1000), min_size=n,
                           max_size=n, unique=True))
        vals = [k / 1000. for k in ks]
    if draw(st.integers(0, 3)) == 0:
        vals[0] = 0 if style == 'whole' else 0.0
    if dtype == 'f4':
        vals = [float(np.float32(v)) for v in vals]
    if dtype == 'i4':
        vals = [v for v in vals if -2 ** 31 <= v < 2 ** 31] or [0]
    vals = sorted(set(vals))
    return vals, style


@st.composite
def case_cf(draw):
    fam = draw(st.sampled_from(['standard', 'standard', 'standard', 'fixed',
                                'fixed']))
    if fam == 'standard':
        cal = draw(st.sampled_from(CALS[:4]))
    else:
        cal = draw(st.sampled_from(CALS[4:]))
    if cal is not None and draw(st.integers(0, 5)) == 0:
        cal = draw(st.sampled_from([cal.upper(), cal.title(),
                                    cal.capitalize()]))
    y, mo, d = draw(ref_dates())
    if fam == 'fixed':
        famname = CT.calendar_family(cal)
        if famname == 'noleap' and (mo, d) == (2, 29):
            d = 28
    clean = fam == 'fixed' and draw(st.integers(0, 2)) == 0
    tfmt = draw(st.sampled_from(['none', 'none', 'H', 'H', 'HM', 'HM', 'HMS',
                                 'HMS', 'HMS', 'HMS', 'HMSf']))
    h = mi = s = 0
    if tfmt != 'none' and not clean and draw(st.integers(0, 3)) != 0:
        h = draw(st.integers(0, 23))
        if tfmt in ('HM', 'HMS', 'HMSf'):
            mi = draw(st.integers(0, 59))
        if tfmt in ('HMS', 'HMSf'):
            s = draw(st.integers(0, 59))
    if tfmt == 'none':
        # 'Y-M-D+HH:MM' (no blank) is ambiguous - cftime reads a time of
        # day, the library an offset - and is not generated
        suffix = draw(st.sampled_from(['none', 'none', 'none', 'spcolon']))
    else:
        suffix = draw(st.sampled_from(['none', 'none', 'none', 'none', 'Z',
                                       'Z', 'UTC', 'UTC', 'colon', 'colon',
                                       'plain', 'plain', 'spcolon']))
    off = 0
    if suffix in ('colon', 'plain', 'spcolon') and not clean:
        off = draw(st.sampled_from(OFFSETS))
    sep = draw(st.sampled_from([' '] * 9 + ['T']))
    pad = draw(st.sampled_from([True, True, True, False]))
    if clean:
        mo, d = 1, 1
    unit = draw(st.sampled_from(['days', 'hours', 'minutes', 'seconds']))
    if clean and unit == 'seconds':
        unit = 'hours'
    dtype = draw(st.sampled_from(['f8', 'f8', 'f8', 'f4', 'i4', 'i8']))
    n = draw(st.sampled_from([1, 2, 2, 3, 3, 4, 5, 6]))
    if clean:
        per_day = {'days': 1, 'hours': 24, 'minutes': 1440}[unit]
        ks = draw(st.lists(st.integers(-800, 73000), min_size=n, max_size=n,
                           unique=True))
        vals = sorted(int(k * per_day) for k in ks)
        style = 'whole'
    else:
        vals, style = draw(stored_values(unit, dtype, n))
    n = len(vals)
    bounds = draw(st.sampled_from(['none', 'none', 'none', 'derived', 'var']))
    edges = None
    if bounds == 'var':
        # contiguous cells around the centres
        e = []
        for i in range(n + 1):
            if i == 0:
                e.append(vals[0] - draw(st.sampled_from([1, 2, 0.5])))
            elif i == n:
                e.append(vals[-1] + draw(st.sampled_from([1, 2, 0.5])))
            else:
                e.append((vals[i - 1] + vals[i]) / 2.)
        if dtype in ('i4', 'i8'):
            e = [int(np.floor(x)) for x in e]
            if len(set(e)) < len(e) or sorted(e) != e or (
                    dtype == 'i4' and not all(-2 ** 31 <= x < 2 ** 31
                                              for x in e)):
                bounds = 'none'
                e = None
        elif dtype == 'f4':
            e = [float(np.float32(x)) for x in e]
        edges = e
    if bounds == 'derived' and n >= 2 and draw(st.booleans()):
        # make the centres uniform so that the derived edges are judged
        step = vals[1] - vals[0]
        vals = [vals[0] + i * step for i in range(n)]
        if dtype == 'f4':
            vals = [float(np.float32(v)) for v in vals]
        if dtype == 'i4':
            vals = [v for v in vals if -2 ** 31 <= v < 2 ** 31]
    if bounds == 'none' and len(vals) >= 2 and draw(st.integers(0, 3)) == 0:
        # time axis stored in descending order (every clause is elementwise;
        # time2idx(getTimes()) must still be 0..n-1)
        vals = vals[::-1]
    return dict(kind='cf', ref=[y, mo, d, h, mi, s], off=off,
                spell=dict(pad=pad, sep=sep, tfmt=tfmt, suffix=suffix),
                unit=unit, calendar=cal, dtype=dtype, values=vals,
                bounds=bounds, edges=edges, clean=bool(clean),
                rezone=draw(st.sampled_from([None, -360, 330, 540])),
                datetype=draw(st.sampled_from(DATETYPES)),
                rebase=draw(rebases()))


# getTimes(datetype=...): python datetimes (None) or a numpy datetime64 unit
DATETYPES = [None, None, None, 'datetime64[s]', 'datetime64[s]',
             'datetime64[ms]', 'datetime64[us]', 'datetime64[m]']
DT64_US = {'datetime64[s]': 10 ** 6, 'datetime64[ms]': 1000,
           'datetime64[us]': 1, 'datetime64[m]': 60 * 10 ** 6}


@st.composite
def rebases(draw):
    """second phase on the SAME file object: the units attribute of the time
    variable is rewritten (other unit word and/or reference date moved by
    whole days); None = single phase"""
    if draw(st.integers(0, 2)) != 0:
        return None
    return dict(unit=draw(st.sampled_from(['days', 'hours', 'minutes',
                                           'seconds', None])),
                dayshift=draw(st.sampled_from([0, 1, -1, 59, 365, -366,
                                               1461])))


TSTEPS = [10000, 10000, 10000, 3000, 60000, 240000, 1000000, 500, 130, 15,
          30000, 120000, 1003015, 7440000]


@st.composite
def sdates(draw):
    y = draw(st.integers(1970, 2100))
    n = 366 if CT.isleap(y) else 365
    j = draw(st.one_of(st.sampled_from([1, 2, 59, 60, 61, n - 1, n]),
                       st.integers(1, n)))
    return y * 1000 + j


@st.composite
def case_ioapi(draw):
    form = draw(st.sampled_from(['tflag', 'tflag', 'tflag-irregular', 'sdate',
                                 'sdate', 'from_arrays']))
    sdate = draw(sdates())
    if draw(st.booleans()):
        stime = draw(st.integers(0, 23)) * 10000
    else:
        stime = draw(st.integers(0, 23)) * 10000 + \
            draw(st.integers(0, 59)) * 100 + draw(st.integers(0, 59))
    if draw(st.integers(0, 3)) == 0:
        stime = draw(st.sampled_from([230000, 235959, 0, 1]))
    tstep = draw(st.sampled_from(TSTEPS))
    n = draw(st.integers(1, 8))
    rows = None
    if form == 'tflag-irregular':
        rows = []
        for i in range(n):
            sd = draw(sdates())
            tm = draw(st.integers(0, 23)) * 10000 + \
                draw(st.sampled_from([0, 0, 3000, 5959, 1, 1530]))
            rows.append([sd, tm])
        rows.sort()
    return dict(kind='ioapi', form=form, sdate=sdate, stime=stime,
                tstep=tstep, n=n, rows=rows,
                bounds=draw(st.booleans()),
                synth=draw(st.sampled_from([False, False, True])),
                nvar=draw(st.integers(1, 3)),
                datetype=draw(st.sampled_from(DATETYPES)),
                restamp=(dict(sdate=draw(sdates()),
                              stime=draw(st.integers(0, 23)) * 10000 +
                              draw(st.sampled_from([0, 0, 3000, 1530])),
                              tstep=draw(st.sampled_from(TSTEPS[:-4])))
                         if draw(st.booleans()) else None))


@st.composite
def case_tau(draw):
    n = draw(st.integers(1, 6))
    style = draw(st.sampled_from(['whole', 'dyadic']))
    if style == 'whole':
        ks = draw(st.lists(st.integers(-24 * 365 * 15, 24 * 365 * 115),
                           min_size=n + 1, max_size=n + 1, unique=True))
        e = sorted(float(k) for k in ks)
    else:
        ks = draw(st.lists(st.integers(-8 * 24 * 365 * 15,
                                       8 * 24 * 365 * 115),
                           min_size=n + 1, max_size=n + 1, unique=True))
        e = sorted(k / 8. for k in ks)
    return dict(kind='tau', tau0=e[:-1], tau1=e[1:],
                bounds=draw(st.booleans()),
                has_tau1=draw(st.sampled_from([True, True, False])),
                datetype=draw(st.sampled_from(DATETYPES)))


def strategy(tier):
    return st.one_of(case_cf(), case_cf(), case_cf(), case_cf(),
                     case_ioapi(), case_ioapi(), case_tau())


SEL_DAYS = [1, 2, 31, 32, 58, 59, 60, 61, 62, 90, 91, 120, 121, 151, 152,
            181, 182, 212, 213, 243, 244, 273, 274, 304, 305, 334, 335, 364,
            365, 366]


def enumerate_cases(tier):
    _TIER[0] = tier
    pats = [[0, 0], [30, 0], [59, 59]]
    for year in range(1970, 2101):
        nd = 366 if CT.isleap(year) else 365
        if tier == 'thorough':
            for day in range(1, nd + 1):
                yield dict(kind='ioapi-enum', form='tflag', year=year,
                           days=[day], mmss=pats[day % 3])
        else:
            for day in SEL_DAYS:
                if day <= nd:
                    yield dict(kind='ioapi-enum', form='tflag', year=year,
                               days=[day], mmss=pats[(day + year) % 3])
        # hourly series across the leap day / year end from attributes only
        for day, hour in ((58, 22), (nd - 1, 21)):
            yield dict(kind='ioapi-enum', form='sdate', year=year,
                       days=[day], hour=hour, n=80)


def finish(stats):
    if _TIER[0] == 'thorough':
        stats.exhaustive = True
    elif _TIER[0] == 'quick':
        stats.exhaustive = False


# ------------------------------------------------------------------ helpers
def _special_day(t):
    return (t.month, t.day) in ((2, 28), (2, 29), (3, 1), (12, 31), (1, 1))


def _fmt(t):
    return t.isoformat() if hasattr(t, 'isoformat') else repr(t)


def _as_list(out):
    return list(np.asarray(out, dtype=object).ravel())


def _aware(t):
    """library datetimes -> aware UTC datetime (naive ones are UTC by the
    library's own convention in gettimes)"""
    if not isinstance(t, dt.datetime):
        raise TypeError('not a datetime: %r' % (t,))
    if t.tzinfo is None:
        return t.replace(tzinfo=UTC)
    return t.astimezone(UTC)


def cmp_instants(r, clause, got, want, what, klass='', tol_us=0):
    """exact (or tol_us) comparison of two lists of aware datetimes"""
    got = _as_list(got)
    if len(got) != len(want):
        r.fail(clause, '%s: %d datetimes returned, %d expected' % (
            what, len(got), len(want)), klass=klass)
        return False
    for i, (g, w) in enumerate(zip(got, want)):
        try:
            g = _aware(g)
        except TypeError as e:
            r.fail(clause, '%s: element %d %s' % (what, i, e), klass=klass)
            return False
        if abs(CT.us_between(w, g)) > tol_us:
            r.fail(clause, '%s: element %d decoded as %s, true instant %s' %
                   (what, i, _fmt(g), _fmt(w)), klass=klass)
            return False
    return True


EPOCH = dt.datetime(1970, 1, 1, tzinfo=UTC)


def check_datetype(r, f, spec, good, bounds_flag, klass):
    """getTimes(datetype=<numpy datetime64 unit>): numpy's datetime64 is
    naive UTC, so each element must be the UTC instant of the (already
    validated) datetime result floored to the unit"""
    dtp = spec.get('datetype')
    if not dtp:
        return
    with np.errstate(all='ignore'):
        exc, arr = attempt(f.getTimes, datetype=dtp, bounds=bounds_flag)
    if exc is not None:
        r.label('datetype-raised:' + dtp)
        return
    r.label('datetype:' + dtp)
    arr = np.asarray(arr)
    if arr.dtype != np.dtype(dtp):
        r.fail('datetype-dtype', 'getTimes(datetype=%r) returned dtype %s' %
               (dtp, arr.dtype), klass=klass)
        return
    res = DT64_US[dtp]
    want = [CT.us_between(EPOCH, _aware(g)) // res for g in _as_list(good)]
    got = arr.astype('i8').ravel().tolist()
    if got != want:
        i = [a != b for a, b in zip(got, want)].index(True) \
            if len(got) == len(want) else 0
        r.fail('datetype-instant', 'getTimes(datetype=%r)[%d] = %s, but the '
               'datetime result is %s (UTC %s)' % (
                   dtp, i, arr.ravel()[i] if arr.size > i else arr,
                   _fmt(_as_list(good)[i]),
                   _fmt(_aware(_as_list(good)[i]))), klass=klass)


# ------------------------------------------------------------------ CF cases
def build_cf(spec):
    from PseudoNetCDF import PseudoNetCDFFile
    code = {'f8': 'd', 'f4': 'f', 'i4': 'i', 'i8': 'q'}[spec['dtype']]
    vals = np.array(spec['values'], dtype=code)
    f = PseudoNetCDFFile()
    f.createDimension('time', vals.size)
    v = f.createVariable('time', code, ('time',))
    v[:] = vals
    v.units = units_of(spec)
    if spec['calendar'] is not None:
        v.calendar = spec['calendar']
    if spec['bounds'] == 'var':
        e = np.array(spec['edges'], dtype=code)
        f.createDimension('nv', 2)
        b = f.createVariable('time_bounds', code, ('time', 'nv'))
        b[:] = np.array([e[:-1], e[1:]]).T
        b.units = v.units
    return f, vals


def lib365_model(fam, ref, unit, tarr, sign, sec60):
    """Mirror of the arithmetic coded in getTimes' fixed-length-year branch
    (same float operations on the same array dtype), with two switches: the
    reference's day-of-year offset applied with `sign` (-1 as coded, +1
    corrected) and the seconds denominator as coded (`sec60`) or corrected.
    The time of day is dropped, as coded.  Returns a list of aware datetimes
    or None.  NOT an oracle: used only to attribute an observed wrong result
    to a known root cause narrowly."""
    yeardays = float(CT.yearlen(fam))
    yearseconds = yeardays * 86400.
    yearlike = 1970 if fam == 'noleap' else 1972
    y, mo, d = ref[:3]
    cref = dt.datetime(yearlike, 1, 1, tzinfo=UTC)
    if (mo, d) != (1, 1):
        refc = dt.datetime(yearlike, mo, d, tzinfo=UTC)
        addyears = sign * (refc - cref).total_seconds() / yearseconds
    else:
        addyears = 0
    denom = {'days': yeardays, 'hours': yeardays * 24,
             'minutes': yeardays * 24 * 60,
             'seconds': yeardays * 24 * 60 * (1 if sec60 else 60)}[unit]
    with np.errstate(all='ignore'):
        frac = tarr / denom + addyears
        yinc = np.array(frac // 1).astype('i')
        dinc = (frac % 1) * yeardays
    try:
        cdays = [cref + dt.timedelta(days=float(x)) for x in dinc]
    except (ValueError, OverflowError):
        return None
    try:
        return [dt.datetime(y + int(yi), c.month, c.day, tzinfo=UTC)
                for yi, c in zip(yinc, cdays)]
    except (ValueError, OverflowError):
        pass
    try:
        return [dt.datetime(y + int(yi), 1, 1, tzinfo=UTC) +
                dt.timedelta(days=float(x)) for yi, x in zip(yinc, dinc)]
    except (ValueError, OverflowError):
        return None


def _lib_time_array(spec):
    """the number array getTimes works on (centres or edges), formed the way
    the library forms it"""
    code = {'f8': 'd', 'f4': 'f', 'i4': 'i', 'i8': 'q'}[spec['dtype']]
    t = np.array(spec['values'], dtype=code)
    if spec['bounds'] == 'var':
        e = np.array(spec['edges'], dtype=code)
        tb = np.array([e[:-1], e[1:]]).T
        return np.append(tb[:, 0], tb[-1, 1])
    if spec['bounds'] == 'derived':
        with np.errstate(all='ignore'):
            dts = np.diff(t)
            d = dts.mean()
            return np.append(t - d / 2, t[-1] + d / 2)
    return t


def classify365(fam, spec, stored, got):
    """name of the known root cause (or combination) that reproduces `got`
    exactly, else 'unexplained'"""
    got = [_aware(g) for g in got]
    ref = spec['ref']
    notjan1 = (ref[1], ref[2]) != (1, 1)
    combos = [(+1, False, 'tod')]
    if spec['unit'] == 'seconds':
        combos.append((+1, True, 'sec60'))
    if notjan1:
        combos.append((-1, False, 'refsign'))
    if notjan1 and spec['unit'] == 'seconds':
        combos.append((-1, True, 'sec60+refsign'))
    for sign, sec60, name in combos:
        pred = lib365_model(fam, ref, spec['unit'], stored, sign, sec60)
        if pred is None or len(pred) != len(got):
            continue
        if all(abs(CT.us_between(p, g)) <= 1000 for p, g in zip(pred, got)):
            return name
    return 'unexplained'


def check_cf(spec, r):
    from PseudoNetCDF.coordutil import gettimes
    fam = CT.calendar_family(spec['calendar'])
    unit = spec['unit']
    ref = spec['ref']
    sp = spec['spell']
    f, vals = build_cf(spec)
    stored = [v.item() for v in vals]     # exact python numbers
    n = len(stored)
    bounds = spec['bounds']
    r.label('kind:cf', 'family:' + fam, 'unit:' + unit,
            'calendar:%s' % (spec['calendar'].lower() if spec['calendar']
                             else 'absent'),
            'tfmt:' + sp['tfmt'], 'suffix:' + sp['suffix'],
            'sep:' + ('T' if sp['sep'] == 'T' else 'space'),
            'pad:%s' % sp['pad'], 'dtype:' + spec['dtype'],
            'bounds:' + bounds, 'n=1' if n == 1 else 'n>=2',
            'offset:%s' % ('zero' if spec['off'] == 0 else 'nonzero'))
    if spec['calendar'] and spec['calendar'] != spec['calendar'].lower():
        r.label('calendar-mixed-case')
    if spec.get('clean'):
        r.label('fixed-clean-input')
    if n >= 2 and stored[0] > stored[-1]:
        r.label('axis:descending')
    frac = any(Fraction(v).denominator != 1 for v in stored)
    if frac:
        r.label('fractional-values')
    if max(abs(Fraction(v)) * CT.UNIT_US[unit] for v in stored) > \
            50 * 365 * CT.DAY_US:
        r.label('offset>50y')
    nonmid = any(ref[3:]) or spec['off'] != 0
    if nonmid:
        r.label('reference-non-midnight')

    # ---- expected centres / edges
    def expect(numbers):
        out = []
        for v in numbers:
            if fam == 'standard':
                t, ex = CT.decode_standard(
                    CT.utc_reference(ref, spec['off']), unit, v)
                out.append((t, ex))
            else:
                cus, ex = CT.decode_fixed(fam, ref, spec['off'], unit, v)
                msg = CT.cftime_check(fam, ref, spec['off'], unit, v, cus)
                if msg:
                    raise HarnessError('oracle disagreement: ' + msg)
                out.append((cus, ex))
        return out

    centres = expect(stored)
    if bounds == 'var':
        code = {'f8': 'd', 'f4': 'f', 'i4': 'i', 'i8': 'q'}[spec['dtype']]
        enum = [x.item() for x in np.array(spec['edges'], dtype=code)]
        want = expect(enum)
        wnum = enum
    elif bounds == 'derived':
        if n >= 2:
            d = np.diff(np.array([Fraction(v) for v in stored],
                                 dtype=object))
            uniform = all(x == d[0] for x in d)
        else:
            uniform = False
        if uniform:
            half = Fraction(stored[1]) - Fraction(stored[0])
            half = half / 2
            wnum = [Fraction(v) - half for v in stored] + \
                [Fraction(stored[-1]) + half]
            want = expect(wnum)
            r.label('derived-bounds-uniform')
        else:
            want = None
            wnum = None
            r.label('derived-bounds-not-judged')
    else:
        want = centres
        wnum = stored
    special = False
    for c, _ in centres:
        if fam == 'standard':
            special = special or _special_day(c)
        else:
            comp = CT.from_cus(fam, c)
            special = special or (comp[1], comp[2]) in (
                (2, 28), (2, 29), (3, 1), (12, 31), (1, 1))
    if special:
        r.label('leapday-or-yearend-instant')
    r.nontrivial = bool(nonmid or frac or fam != 'standard' or special)

    # ---- excluded: an expected date that the real calendar does not have
    if fam != 'standard':
        allw = list(centres) + (list(want) if want is not None else [])
        if not all(CT.exists_in_real_calendar(CT.from_cus(fam, c))
                   for c, _ in allw):
            r.label('excluded:date-absent-from-real-calendar')
            r.nontrivial = False
            return

    with np.errstate(all='ignore'):
        exc, got = attempt(f.getTimes, bounds=(bounds != 'none'))
    if exc is not None:
        r.label('getTimes-raised', 'raised:' + exc_where(exc))
        return
    r.label('getTimes-returned')
    forward_ok = True
    if want is not None:
        got_l = _as_list(got)
        klass_in = '%s/%s' % (fam, 'bounds' if bounds != 'none' else
                              'centres')
        if len(got_l) != len(want):
            r.fail('cf-instant', 'getTimes(bounds=%s) returned %d datetimes, '
                   '%d expected (units %r)' % (bounds != 'none', len(got_l),
                                               len(want), units_of(spec)),
                   klass=klass_in + '/count')
            forward_ok = False
        else:
            bad = None
            for i, (g, (w, ex)) in enumerate(zip(got_l, want)):
                try:
                    g = _aware(g)
                except TypeError as e:
                    bad = (i, str(e), None)
                    break
                tol = 2 + int(abs(Fraction(wnum[i])) * CT.UNIT_US[unit] *
                              Fraction(1, 2 ** 50))
                if bounds == 'derived' and spec['dtype'] == 'f4':
                    # the half-step edges are formed in the variable's own
                    # float32 arithmetic: one float32 ulp of the edge
                    tol += int(Fraction(float(np.spacing(np.float32(
                        max(abs(float(x)) for x in wnum))))) *
                        CT.UNIT_US[unit]) + 1
                if fam == 'standard':
                    base = CT.utc_reference(ref, spec['off'])
                    diff = abs(Fraction(CT.us_between(base, g)) - ex)
                    if diff > tol:
                        bad = (i, _fmt(g), _fmt(w))
                        break
                else:
                    gc = CT.datetime_to_cus(fam, g)
                    if gc is None or abs(Fraction(gc) - ex) > tol:
                        bad = (i, _fmt(g), '%04d-%02d-%02d %02d:%02d:%02d'
                               '.%06d' % CT.from_cus(fam, w))
                        break
            if bad is not None:
                forward_ok = False
                if fam == 'standard':
                    sub = 'tfmt=%s,suffix=%s,sep=%s' % (
                        sp['tfmt'], sp['suffix'],
                        'T' if sp['sep'] == 'T' else 'sp')
                else:
                    try:
                        sub = classify365(fam, spec, _lib_time_array(spec),
                                          got_l)
                    except TypeError:
                        sub = 'unexplained'
                r.fail('cf-instant', 'units %r calendar %r: stored %r '
                       'decoded as %s, true instant %s (element %d of %s)' %
                       (units_of(spec), spec['calendar'],
                        float(wnum[bad[0]]), bad[1], bad[2], bad[0],
                        'bounds' if bounds != 'none' else 'centres'),
                       klass='%s/%s' % (fam, sub))
    if forward_ok and want is not None:
        r.label('forward-correct:' + fam)
        check_datetype(r, f, spec, got, bounds != 'none',
                       '%s/offset-%s' % (fam, 'zero' if spec['off'] == 0
                                         else 'nonzero'))
    if True:
        # functional form (it has no bounds option: centres only)
        with np.errstate(all='ignore'):
            exc, got2 = attempt(gettimes, f)
        if exc is not None:
            r.label('gettimes-raised')
        else:
            r.label('gettimes-returned')
            g2 = _as_list(got2)
            ok = len(g2) == n
            asstd = fam != 'standard' and ok
            if ok:
                for g, (w, ex), v in zip(g2, centres, stored):
                    try:
                        g = _aware(g)
                    except TypeError:
                        ok = asstd = False
                        break
                    tol = 2 + int(abs(Fraction(v)) * CT.UNIT_US[unit] *
                                  Fraction(1, 2 ** 50))
                    base = CT.utc_reference(ref, spec['off'])
                    sdiff = abs(Fraction(CT.us_between(base, g)) -
                                CT.value_us(v, unit))
                    if fam == 'standard':
                        if sdiff > tol:
                            ok = False
                            break
                    else:
                        # symptom of ignoring the calendar attribute: the
                        # result is the proleptic-Gregorian decode
                        if sdiff > tol:
                            asstd = False
                        gc = CT.datetime_to_cus(fam, g)
                        if gc is None or abs(Fraction(gc) - ex) > tol:
                            ok = False
            if not ok:
                wtxt = [_fmt(w) if fam == 'standard' else
                        '%04d-%02d-%02d %02d:%02d:%02d.%06d' %
                        CT.from_cus(fam, w) for w, _ in centres[:3]]
                r.fail('cf-gettimes', 'coordutil.gettimes: units %r '
                       'calendar %r stored %r decoded as %s, true %s' % (
                           units_of(spec), spec['calendar'], stored[:3],
                           [_fmt(x) for x in g2[:3]], wtxt),
                       klass=('tfmt=%s,suffix=%s' % (sp['tfmt'],
                                                     sp['suffix'])
                              if fam == 'standard' else
                              fam + ('/decoded-as-gregorian' if asstd
                                     else '/other')))
            elif fam != 'standard':
                r.label('gettimes-correct:' + fam)
    if not forward_ok:
        return
    # ---- inverses on the centres
    if bounds != 'none':
        with np.errstate(all='ignore'):
            exc, cent = attempt(f.getTimes)
        if exc is not None:
            return
        # centres must be right too before the inverse is judged
        cl = _as_list(cent)
        if len(cl) != n:
            return
        for g, (w, ex), v in zip(cl, centres, stored):
            tol = 2 + int(abs(Fraction(v)) * CT.UNIT_US[unit] *
                          Fraction(1, 2 ** 50))
            g = _aware(g)
            if fam == 'standard':
                base = CT.utc_reference(ref, spec['off'])
                if abs(Fraction(CT.us_between(base, g)) - ex) > tol:
                    return
            else:
                gc = CT.datetime_to_cus(fam, g)
                if gc is None or abs(Fraction(gc) - ex) > tol:
                    return
    else:
        cent = got
    sub = 'tfmt=%s,suffix=%s,sep=%s' % (sp['tfmt'], sp['suffix'],
                                        'T' if sp['sep'] == 'T' else 'sp')
    with np.errstate(all='ignore'):
        exc, nums = attempt(f.date2num, cent)
    if exc is not None:
        r.label('date2num-raised')
        return
    r.label('date2num-returned')
    nums = np.atleast_1d(np.asarray(nums))
    ok = nums.shape == (n,)
    if ok:
        for a, v in zip(nums.tolist(), stored):
            atol = Fraction(1, CT.UNIT_US[unit]) * (
                1 + int(abs(Fraction(v)) * CT.UNIT_US[unit] *
                        Fraction(1, 2 ** 49)))
            if abs(Fraction(a) - Fraction(v)) > \
                    Fraction(1, 10 ** 12) * abs(Fraction(v)) + atol:
                ok = False
    if not ok:
        sym = ''
        if nums.shape == (n,):
            # symptom: every number is off by exactly the reference's time
            # of day minus its UTC offset (i.e. date2num measured from
            # midnight UTC of the reference date) expressed in the unit
            tod = Fraction((ref[3] * 3600 + ref[4] * 60 + ref[5] -
                            spec['off'] * 60) * CT.US, CT.UNIT_US[unit])
            if tod != 0 and all(
                    abs(Fraction(a) - Fraction(v) - tod) <=
                    Fraction(2, CT.UNIT_US[unit]) + abs(Fraction(v)) *
                    Fraction(1, 2 ** 48)
                    for a, v in zip(nums.tolist(), stored)):
                sym = '/off-by-reference-time-and-offset'
        r.fail('cf-date2num', 'date2num(getTimes()) = %r but the stored '
               'numbers are %r (units %r, calendar %r)' % (
                   nums.tolist()[:4], stored[:4], units_of(spec),
                   spec['calendar']), klass='%s/%s%s' % (fam, sub, sym))
        return
    # the same instants re-expressed in another time zone must give the same
    # numbers (the instant, not its spelling, is what is converted)
    rz = spec.get('rezone')
    if rz is not None:
        tz = dt.timezone(dt.timedelta(minutes=rz))
        moved = np.array([_aware(t).astimezone(tz) for t in _as_list(cent)])
        with np.errstate(all='ignore'):
            exc, nums2 = attempt(f.date2num, moved)
        if exc is not None:
            r.label('date2num-rezoned-raised')
        else:
            r.label('date2num-rezoned:%+d' % rz)
            nums2 = np.atleast_1d(np.asarray(nums2))
            ok2 = nums2.shape == (n,)
            if ok2:
                for a, v in zip(nums2.tolist(), stored):
                    atol = Fraction(1, CT.UNIT_US[unit]) * (
                        1 + int(abs(Fraction(v)) * CT.UNIT_US[unit] *
                                Fraction(1, 2 ** 49)))
                    if abs(Fraction(a) - Fraction(v)) > \
                            Fraction(1, 10 ** 12) * abs(Fraction(v)) + atol:
                        ok2 = False
            if not ok2:
                r.fail('cf-date2num-rezoned', 'date2num of getTimes() '
                       're-expressed at UTC%+d min = %r but the stored '
                       'numbers are %r (units %r)' % (
                           rz, nums2.tolist()[:4], stored[:4],
                           units_of(spec)), klass=fam)
                return
    with np.errstate(all='ignore'):
        exc, idx = attempt(f.time2idx, cent)
    if exc is not None:
        r.label('time2idx-raised')
        return
    r.label('time2idx-returned')
    ia = np.atleast_1d(np.ma.getdata(idx))
    im = np.atleast_1d(np.ma.getmaskarray(idx))
    if ia.shape != (n,) or im.any() or ia.tolist() != list(range(n)):
        sym = ''
        if spec['dtype'] == 'i4' and max(stored) - min(stored) >= 2 ** 31:
            sym = '/int32-span>=2^31'
        r.fail('cf-time2idx', 'time2idx(getTimes()) = %r, expected 0..%d '
               '(stored %r, units %r)' % (idx, n - 1, stored,
                                          units_of(spec)),
               klass='%s/%s%s' % (fam, sub, sym))
        return
    # ---- second phase on the SAME file object: the time axis is re-based by
    # rewriting the units attribute (same stored numbers, so other instants);
    # decoding and the date2num round trip must follow the axis as it is now
    rb = spec.get('rebase')
    if rb and fam == 'standard':
        d0 = dt.date(ref[0], ref[1], ref[2]) + dt.timedelta(
            days=rb['dayshift'])
        spec2 = dict(spec, ref=[d0.year, d0.month, d0.day] + list(ref[3:]),
                     unit=rb['unit'] or unit)
        unit2 = spec2['unit']
        # the re-based instants must stay inside the property's domain
        # (no mixed Julian/Gregorian dates, no datetime overflow)
        span = max(abs(Fraction(v)) for v in stored) * CT.UNIT_US[unit2]
        if span > 250 * 366 * CT.DAY_US:
            r.label('rebase-skipped:out-of-domain')
            return
        f.variables['time'].units = units_of(spec2)
        r.label('rebased:%s' % ('unit+ref' if unit2 != unit and
                                rb['dayshift'] else
                                ('unit' if unit2 != unit else
                                 ('ref' if rb['dayshift'] else 'same'))))
        with np.errstate(all='ignore'):
            exc, cent2 = attempt(f.getTimes)
        if exc is not None:
            r.label('rebased-getTimes-raised')
            return
        base2 = CT.utc_reference(spec2['ref'], spec['off'])
        c2 = _as_list(cent2)
        if len(c2) != n:
            r.fail('cf-instant-rebased', 'after re-basing getTimes returned '
                   '%d datetimes' % len(c2), klass=fam)
            return
        for g, v in zip(c2, stored):
            tol = 2 + int(abs(Fraction(v)) * CT.UNIT_US[unit2] *
                          Fraction(1, 2 ** 50))
            if abs(Fraction(CT.us_between(base2, _aware(g))) -
                   CT.value_us(v, unit2)) > tol:
                r.fail('cf-instant-rebased', 'units rewritten to %r on the '
                       'same file: stored %r decoded as %s' % (
                           units_of(spec2), v, _fmt(g)), klass=fam)
                return
        with np.errstate(all='ignore'):
            exc, nums3 = attempt(f.date2num, cent2)
        if exc is not None:
            r.label('rebased-date2num-raised')
            return
        nums3 = np.atleast_1d(np.asarray(nums3))
        ok3 = nums3.shape == (n,)
        if ok3:
            for a, v in zip(nums3.tolist(), stored):
                atol = Fraction(1, CT.UNIT_US[unit2]) * (
                    1 + int(abs(Fraction(v)) * CT.UNIT_US[unit2] *
                            Fraction(1, 2 ** 49)))
                if abs(Fraction(a) - Fraction(v)) > \
                        Fraction(1, 10 ** 12) * abs(Fraction(v)) + atol:
                    ok3 = False
        if not ok3:
            r.fail('cf-date2num-rebased', 'units rewritten from %r to %r on '
                   'the same file: date2num(getTimes()) = %r but the stored '
                   'numbers are %r' % (units_of(spec), units_of(spec2),
                                       nums3.tolist()[:4], stored[:4]),
                   klass=fam)
        else:
            r.label('rebased-roundtrip-ok')


# ------------------------------------------------------------------ IOAPI
def _tflag_array(rows, nvar):
    a = np.zeros((len(rows), nvar, 2), dtype='i')
    for i, (d, t) in enumerate(rows):
        a[i, :, 0] = d
        a[i, :, 1] = t
    return a


def build_ioapi(spec):
    """returns (file, expected centre instants, step timedelta)"""
    from PseudoNetCDF import PseudoNetCDFFile
    form = spec['form']
    n = spec['n']
    nvar = spec.get('nvar', 1)
    step = dt.timedelta(seconds=CT.hhmmss_to_seconds(spec['tstep']))
    if form == 'tflag-irregular':
        rows = [list(x) for x in spec['rows']]
        want = [CT.ioapi_instant(d, t) for d, t in rows]
    else:
        want = CT.ioapi_series(spec['sdate'], spec['stime'], spec['tstep'],
                               n)
        rows = [list(CT.instant_to_flags(t)) for t in want]
    if form == 'from_arrays':
        from PseudoNetCDF.cmaqfiles import ioapi_base
        kw = {}
        for i in range(nvar):
            kw['V%d' % i] = np.zeros((n, 1, 1, 2), dtype='f')
        f = ioapi_base.from_arrays(
            fileattrs=dict(SDATE=spec['sdate'], STIME=spec['stime'],
                           TSTEP=spec['tstep']), **kw)
        return f, want, step
    f = PseudoNetCDFFile()
    f.createDimension('TSTEP', n).setunlimited(True)
    f.createDimension('VAR', nvar)
    f.createDimension('DATE-TIME', 2)
    f.createDimension('LAY', 1)
    f.createDimension('ROW', 1)
    f.createDimension('COL', 2)
    f.SDATE = np.int32(rows[0][0])
    f.STIME = np.int32(rows[0][1])
    f.TSTEP = np.int32(spec['tstep'])
    f.NVARS = np.int32(nvar)
    if form in ('tflag', 'tflag-irregular'):
        tf = f.createVariable('TFLAG', 'i', ('TSTEP', 'VAR', 'DATE-TIME'))
        tf[:] = _tflag_array(rows, nvar)
        tf.units = '<YYYYDDD,HHMMSS>'
    for i in range(nvar):
        v = f.createVariable('V%d' % i, 'f', ('TSTEP', 'LAY', 'ROW', 'COL'))
        v[:] = 0
        v.units = 'ppm'
    return f, want, step


def check_ioapi(spec, r):
    """phase 1 (fresh file) and, for synthesised CF time, an optional phase
    2 on the SAME file object: the IOAPI time metadata (and TFLAG) are
    re-stamped for another period, the CF variables are synthesised again
    and must decode the new period"""
    holder = {}
    _ioapi_phase1(spec, r, holder)
    rs = spec.get('restamp')
    if not rs or not spec['synth'] or r.failures or 'f' not in holder or \
            not holder.get('complete'):
        return
    from PseudoNetCDF.conventions.ioapi._ioapi import add_time_variables
    f = holder['f']
    n = spec['n']
    want = CT.ioapi_series(rs['sdate'], rs['stime'], rs['tstep'], n)
    step = dt.timedelta(seconds=CT.hhmmss_to_seconds(rs['tstep']))
    rows = [list(CT.instant_to_flags(t)) for t in want]
    f.SDATE = np.int32(rs['sdate'])
    f.STIME = np.int32(rs['stime'])
    f.TSTEP = np.int32(rs['tstep'])
    if 'TFLAG' in f.variables:
        f.variables['TFLAG'][:] = _tflag_array(
            rows, f.variables['TFLAG'].shape[1])
    r.label('restamped', 'restamped:' + ('with-TFLAG' if 'TFLAG' in
                                         f.variables else 'attributes-only'))
    with np.errstate(all='ignore'):
        exc, _ = attempt(add_time_variables, f)
    if exc is not None:
        r.label('restamp-synth-raised')
        return
    klass = 'restamped/%s' % spec['form']
    what = 're-stamped to SDATE=%d STIME=%06d TSTEP=%06d and synthesised ' \
        'again on the same file (was SDATE=%d STIME=%06d TSTEP=%06d)' % (
            rs['sdate'], rs['stime'], rs['tstep'], spec['sdate'],
            spec['stime'], spec['tstep'])
    for b in (False, True):
        with np.errstate(all='ignore'):
            exc, got = attempt(f.getTimes, bounds=b)
        if exc is not None:
            r.label('restamp-getTimes-raised')
            return
        if not cmp_instants(r, 'ioapi-instant-restamped', got,
                            want + [want[-1] + step] if b else want, what,
                            klass=klass + ('/bounds' if b else '') +
                            ('/tstep>=100h' if rs['tstep'] >= 1000000
                             else '')):
            return
    r.label('restamp-decoded-new-period')


def _ioapi_phase1(spec, r, holder):
    from PseudoNetCDF.coordutil import gettimes
    form = spec['form']
    with np.errstate(all='ignore'):
        exc, built = attempt(build_ioapi, spec)
    r.label('kind:ioapi', 'form:' + form, 'bounds:%s' % spec['bounds'],
            'synth:%s' % spec['synth'],
            'tstep:%s' % ('whole-hours' if spec['tstep'] % 10000 == 0
                          else 'sub-hour'),
            'tstep>=100h' if spec['tstep'] >= 1000000 else 'tstep<100h',
            'n=1' if spec['n'] == 1 else 'n>=2')
    if exc is not None:
        if form == 'from_arrays':
            r.label('from_arrays-raised', 'raised:' + exc_where(exc))
            return
        raise exc
    f, want, step = built
    holder['f'] = f
    if spec['stime'] % 10000:
        r.label('stime:HHMMSS')
    edges = want + [want[-1] + step]
    alli = edges if spec['bounds'] else want
    special = any(_special_day(t) for t in alli)
    crosses = len(set(t.year for t in alli)) > 1
    if special:
        r.label('leapday-or-yearend-instant')
    if crosses:
        r.label('crosses-year')
    if len(set(t.date() for t in alli)) > 1:
        r.label('crosses-day')
    r.nontrivial = bool(special or spec['stime'] % 10000 or
                        spec['tstep'] % 10000)
    klass = form + ('/bounds' if spec['bounds'] else '')
    if spec['synth']:
        from PseudoNetCDF.conventions.ioapi._ioapi import add_time_variables
        with np.errstate(all='ignore'):
            exc, _ = attempt(add_time_variables, f)
        if exc is not None:
            r.label('synth-raised', 'raised:' + exc_where(exc))
            return
        klass = 'synth/' + klass
        if 'time' not in f.variables:
            r.fail('ioapi-synth', 'add_time_variables added no time '
                   'variable', klass=klass)
            return
    with np.errstate(all='ignore'):
        exc, got = attempt(f.getTimes, bounds=bool(spec['bounds']))
    if exc is not None:
        r.label('getTimes-raised', 'raised:' + exc_where(exc))
        return
    r.label('getTimes-returned')
    what = '%s SDATE=%d STIME=%06d TSTEP=%06d n=%d%s' % (
        form, spec['sdate'], spec['stime'], spec['tstep'], spec['n'],
        ' rows=%r' % spec['rows'][:3] if spec['rows'] else '')
    ok = cmp_instants(r, 'ioapi-instant', got, alli, what, klass=klass +
                      ('/tstep>=100h' if spec['tstep'] >= 1000000 else ''))
    if not ok:
        return
    check_datetype(r, f, spec, got, bool(spec['bounds']), klass)
    if not spec['synth']:
        if form != 'sdate':
            with np.errstate(all='ignore'):
                exc, got2 = attempt(gettimes, f)
            if exc is None:
                cmp_instants(r, 'ioapi-gettimes', got2, want,
                             'coordutil.gettimes ' + what, klass=klass)
            else:
                r.label('gettimes-raised')
        return
    # ---- synthesised CF variable: inverses
    with np.errstate(all='ignore'):
        exc, cent = attempt(f.getTimes)
    if exc is not None:
        return
    if not cmp_instants(r, 'ioapi-instant', cent, want, what,
                        klass=klass + '/centres'):
        return
    stored = np.asarray(f.variables['time'][:]).astype('d').tolist()
    with np.errstate(all='ignore'):
        exc, nums = attempt(f.date2num, cent)
    if exc is not None:
        r.label('date2num-raised')
        return
    nums = np.atleast_1d(np.asarray(nums, dtype='d'))
    if nums.shape != (len(want),) or \
            not np.allclose(nums, stored, rtol=1e-12, atol=1e-6):
        r.fail('ioapi-date2num', 'synthesised time: date2num(getTimes()) = '
               '%r, stored %r' % (nums.tolist()[:4], stored[:4]),
               klass=klass)
        return
    if len(want) >= 1 and (len(set(stored)) == len(stored)):
        with np.errstate(all='ignore'):
            exc, idx = attempt(f.time2idx, cent)
        if exc is not None:
            r.label('time2idx-raised')
            return
        ia = np.atleast_1d(np.ma.getdata(idx))
        im = np.atleast_1d(np.ma.getmaskarray(idx))
        if im.any() or ia.tolist() != list(range(len(want))):
            r.fail('ioapi-time2idx', 'synthesised time: time2idx(getTimes())'
                   ' = %r' % (idx,), klass=klass)
    holder['complete'] = True


def check_enum(spec, r):
    from PseudoNetCDF import PseudoNetCDFFile
    year = spec['year']
    r.label('kind:ioapi-enum', 'enum:' + spec['form'])
    f = PseudoNetCDFFile()
    if spec['form'] == 'tflag':
        m, s = spec['mmss']
        rows = []
        for day in spec['days']:
            for h in range(24):
                rows.append([year * 1000 + day, h * 10000 + m * 100 + s])
        d0 = dt.date(year, 1, 1)
        want = [dt.datetime(year, 1, 1, tzinfo=UTC) +
                dt.timedelta(days=day - 1, hours=h, minutes=m, seconds=s)
                for day in spec['days'] for h in range(24)]
        assert d0.year == year
        f.createDimension('TSTEP', len(rows))
        f.createDimension('VAR', 1)
        f.createDimension('DATE-TIME', 2)
        tf = f.createVariable('TFLAG', 'i', ('TSTEP', 'VAR', 'DATE-TIME'))
        tf[:] = _tflag_array(rows, 1)
        f.TSTEP = np.int32(10000)
        r.label('mmss:%02d%02d' % (m, s))
    else:
        day, hour, n = spec['days'][0], spec['hour'], spec['n']
        f.createDimension('TSTEP', n)
        f.SDATE = np.int32(year * 1000 + day)
        f.STIME = np.int32(hour * 10000)
        f.TSTEP = np.int32(10000)
        want = [dt.datetime(year, 1, 1, tzinfo=UTC) +
                dt.timedelta(days=day - 1, hours=hour + i) for i in range(n)]
    if any(_special_day(t) for t in want):
        r.label('leapday-or-yearend-instant')
        r.nontrivial = True
    if CT.isleap(year):
        r.label('leap-year')
    with np.errstate(all='ignore'):
        exc, got = attempt(f.getTimes)
    if exc is not None:
        r.label('getTimes-raised', 'raised:' + exc_where(exc))
        return
    cmp_instants(r, 'ioapi-instant', got, want, 'enumerated %s year %d day '
                 '%r' % (spec['form'], year, spec['days']),
                 klass='enum-' + spec['form'])


def check_tau(spec, r):
    from PseudoNetCDF import PseudoNetCDFFile
    from PseudoNetCDF.coordutil import gettimes
    n = len(spec['tau0'])
    f = PseudoNetCDFFile()
    f.createDimension('t', n)
    v = f.createVariable('tau0', 'd', ('t',))
    v[:] = spec['tau0']
    v.units = 'hours since 1985-01-01 00:00:00 UTC'
    if spec['has_tau1']:
        v = f.createVariable('tau1', 'd', ('t',))
        v[:] = spec['tau1']
        v.units = 'hours since 1985-01-01 00:00:00 UTC'
    r.label('kind:tau', 'bounds:%s' % spec['bounds'],
            'tau1:%s' % spec['has_tau1'])
    want = [CT.tau_instant(h)[0] for h in spec['tau0']]
    frac = any(Fraction(h).denominator != 1 for h in spec['tau0'])
    special = any(_special_day(t) for t in want)
    r.nontrivial = bool(frac or special)
    if frac:
        r.label('fractional-values')
    alli = list(want)
    if spec['bounds'] and spec['has_tau1']:
        alli.append(CT.tau_instant(spec['tau1'][-1])[0])
    with np.errstate(all='ignore'):
        exc, got = attempt(f.getTimes, bounds=bool(spec['bounds']))
    if exc is not None:
        r.label('getTimes-raised', 'raised:' + exc_where(exc))
        return
    r.label('getTimes-returned')
    if cmp_instants(r, 'tau-instant', got, alli,
                    'tau0 %r' % spec['tau0'][:3],
                    klass='bounds' if spec['bounds'] else 'centres',
                    tol_us=2):
        check_datetype(r, f, spec, got, bool(spec['bounds']), 'tau')
    with np.errstate(all='ignore'):
        exc, got2 = attempt(gettimes, f)
    if exc is None:
        cmp_instants(r, 'tau-gettimes', got2, want, 'coordutil.gettimes tau0',
                     tol_us=2)


def check_case(spec):
    r = Result()
    kind = spec['kind']
    if kind == 'cf':
        check_cf(spec, r)
    elif kind == 'ioapi':
        check_ioapi(spec, r)
    elif kind == 'ioapi-enum':
        check_enum(spec, r)
    elif kind == 'tau':
        check_tau(spec, r)
    else:
        raise ValueError(kind)
    return r


# ------------------------------------------------------------------ known findings
def _fixed(spec):
    return spec.get('kind') == 'cf' and \
        CT.calendar_family(spec['calendar']) != 'standard'


def _has_tod(spec):
    """the true instants carry a time of day: reference time / offset or a
    stored number that is not a whole number of days"""
    if any(spec['ref'][3:]) or spec['off'] != 0:
        return True
    if spec['bounds'] != 'none':
        return True    # derived / stored edges are generally not whole days
    code = {'f8': 'd', 'f4': 'f', 'i4': 'i', 'i8': 'q'}[spec['dtype']]
    for v in np.array(spec['values'], dtype=code):
        if (Fraction(v.item()) * CT.UNIT_US[spec['unit']]) % CT.DAY_US != 0:
            return True
    return False


# calendar class AND symptom (the returned datetimes are exactly what the
# coded arithmetic gives with that single root cause switched on)
known.register('C12-cal365-tod', lambda spec, f: _fixed(spec) and
               _has_tod(spec) and f.clause == 'cf-instant' and
               f.klass.endswith('/tod'))
known.register('C12-cal365-seconds', lambda spec, f: _fixed(spec) and
               spec['unit'] == 'seconds' and f.clause == 'cf-instant' and
               f.klass.split('/')[-1] in ('sec60', 'sec60+refsign'))
known.register('C12-cal365-refsign', lambda spec, f: _fixed(spec) and
               tuple(spec['ref'][1:3]) != (1, 1) and
               f.clause == 'cf-instant' and
               f.klass.split('/')[-1] in ('refsign', 'sec60+refsign'))
known.register('C12-date2num-houronly', lambda spec, f:
               spec.get('kind') == 'cf' and spec['spell']['tfmt'] == 'H' and
               f.clause == 'cf-date2num' and
               f.klass.endswith('/off-by-reference-time-and-offset'))
known.register('C12-synth-tstep100h', lambda spec, f:
               spec.get('kind') == 'ioapi' and spec['synth'] and
               spec['tstep'] >= 1000000 and f.clause == 'ioapi-instant' and
               f.klass.startswith('synth/') and
               f.klass.endswith('/tstep>=100h'))
known.register('C12-gettimes-calendar', lambda spec, f: _fixed(spec) and
               f.clause == 'cf-gettimes' and
               f.klass.endswith('/decoded-as-gregorian'))
# input class: int32 time variable whose span does not fit int32; symptom:
# time2idx returns wrong (reversed) indices
known.register('C12-time2idx-int32-span', lambda spec, f:
               spec.get('kind') == 'cf' and spec['dtype'] == 'i4' and
               max(spec['values']) - min(spec['values']) >= 2 ** 31 and
               f.clause == 'cf-time2idx' and
               f.klass.endswith('/int32-span>=2^31'))
