"""C09 - binary files conform to the published layout (independent codec).

(->) library writer output is walked by vf.ref.fortran and decoded by
vf.ref.camx_ref; (<-) reference-encoded files are read by the library's
memmap and record readers."""
from collections import OrderedDict

import numpy as np
from hypothesis import strategies as st

from ..core import Result, guard
from .. import camxspec as C
from .. import camxknown as K
from .. import known
from .. import libstate
from ..ref import camx_ref as R
from ..ref import fortran

ID = 'C09'
LEVEL = 'exploration'
RULE = ('Hypothesis: CamxSpec (format in uamiv[AVERAGE EMISSIONS AIRQUALITY '
        'INSTANT], lateral_boundary, temperature, height_pressure, humidity, '
        'vertical_diffusivity, one3d, wind[stagger flag -1/0/1/absent], '
        'cloud_rain[3/5 variables], landuse[new/old style, 0-2 optional '
        'fields]; 1-4 species with names [A-Z][A-Z0-9_]{0,9}; nx, ny, nz 1-5; '
        '1-4 steps of 1 (sometimes 2, 3, 6) whole hours starting 1970-2069 '
        'weighted to day/year/century/leap-day roll-overs; float32 payload '
        'ramp / uniformly random finite bit patterns / special pool incl. '
        'denormals and -0.0; header floats exactly representable; 4 '
        'projection header variants) x direction.  Direction w2r: in-memory '
        'file built from arrays (PseudoNetCDFFile or ioapi_base.from_arrays, '
        'with or without ETFLAG; variables held as float32, float64, '
        'big-endian float32 or int32 with values exactly representable in '
        'float32, the expected payload being the float32 conversion; one '
        'case in four carries masked cells - masked variables built in '
        'memory or the file passed through the library\'s mask(where=, '
        'dims=) - and must be written as float32 of np.ma.filled(variable)) '
        '-> '
        'library writer -> bytes must tile as '
        'Fortran records (leading == trailing marker, no gap, no trailing '
        'bytes), reference decoder must accept the layout (record sizes and '
        'counts follow from header nspec/nx/ny/nz, record names follow the '
        'header species order) and return exactly the names, header fields, '
        'begin (and end) instants and float32 bit patterns written.  '
        'Direction r2l: reference encoder -> library memmap reader (and '
        'record reader where one exists) must present the encoded dimension '
        'lengths, variable names in file order, float32 bits, TFLAG/ETFLAG '
        'and header attributes.  Bit equality throughout; two-digit years '
        'are read in the window 1970-2069.  Non-trivial: (nspec>1 or format '
        'has >1 variable) and nz>1 and steps>1, or a day/year/century/leap '
        'roll-over inside the file, or a denormal / -0.0 payload.  Distinct '
        'by sha1 of the case spec.' + '  Domain by construction: lateral_boundary nx, ny >= 2 (an edge needs its two corner cells), EMISSIONS nz = 1, AIRQUALITY one step, steps of whole hours (lateral_boundary 1 h), every instant incl. the last end time inside 1970-2069, species names not DATE/TFLAG/ETFLAG, a 3-variable cloud_rain file whose size is also a whole number of 5-variable steps is not generated (the format stores no variable count), old-style landuse with at most one optional field.  The record reader is exercised here for uamiv only (the other record readers are compared with the memmap readers under C13); files built from arrays for the wind writer always carry a stagger flag.' + '  Round-5 extensions: route pnc creates the data variables in a drawn permutation (the bytes written must not depend on creation order; VAR-LIST order of uamiv/lateral_boundary is content and is kept); w2r route refread = the memmap reader\'s view of the reference-encoded file is written while 0/1 bystander files of the same format and another grid/species count are open (or were opened and closed), lateral_boundary edge-definition records must equal the file\'s own; r2l for uamiv also produces little-endian files (words and markers byte-swapped, character words kept) opened with endian="little".' + '  Round-7 extensions: payload modes zeros / zslab (whole files or whole 2-D fields made of +-0 mixtures, -0.0 only, denormals only); w2r route refread may cut the re-read met file to a TSTEP/LAY/ROW/COL window before writing, the expected content being the window of the model; r2l single-layer EMISSIONS files are also encoded with nz = 0 in the grid header (2-D emissions) and must be presented with LAY = 1.')
ASSUMPTIONS = ['vf.ref.camx_ref implements the CAMx layouts of DESIGN.md '
               'Appendix A; validated by vf.ref.selfcheck against the '
               'repository samples and the literal arrays of its tests',
               'two-digit years denote 1970-2069']
BUDGET = {'quick': dict(examples=4800, max_s=200),
          'thorough': dict(examples=60000, max_s=2400)}

W2R_FORMATS = C.ALL_FORMATS


@st.composite
def cases(draw, tier='quick'):
    spec = draw(C.camxspecs())
    fmt = spec['fmt']
    d = draw(st.sampled_from(['w2r', 'r2l']))
    spec['dir'] = d
    if d == 'w2r':
        routes = ['pnc', 'pnc', 'pnc', 'refread']
        if fmt == 'uamiv':
            routes = ['pnc', 'pnc', 'ioapi', 'refread']
        spec['route'] = draw(st.sampled_from(routes))
        if spec['route'] == 'refread' and fmt == 'wind' and \
                spec['nx'] * spec['ny'] == 1:
            spec['route'] = 'pnc'   # known finding: wind memmap on 1x1
        if spec['route'] == 'refread':
            # the file the writer gets is the library's own view of a
            # reference-encoded file; 0/1 bystander files of another shape
            # are opened (and kept alive or closed again) before the write
            spec['etflag'] = False
            spec['bystander'] = draw(st.sampled_from([None, 'alive',
                                                      'alive', 'closed']))
            draw(C.input_slices(spec))
            return spec
        spec['etflag'] = bool(fmt == 'uamiv' and draw(st.booleans()))
        draw(C.input_dtypes(spec))
        draw(C.input_masks(spec))
        if spec.get('mask') and spec['mask']['kind'] == 'build':
            spec['route'] = 'pnc'
        if spec['route'] == 'pnc':
            draw(C.input_orders(spec))
            if not spec.get('mask'):
                draw(C.input_layouts(spec))
        if fmt == 'wind' and spec['lstagger'] is None:
            # the writer documents/uses LSTAGGER: files built from arrays
            # carry one
            spec['lstagger'] = draw(st.sampled_from([-1, 0, 1]))
    else:
        rd = ['memmap']
        if fmt == 'uamiv':
            # the record-based readers of the other formats are compared
            # with the memmap readers under C13
            rd = ['memmap', 'memmap', 'read']
        spec['reader'] = draw(st.sampled_from(rd))
        if fmt == 'uamiv' and spec['name'] == 'EMISSIONS' and \
                spec['nz'] == 1 and draw(st.booleans()):
            # 2-D emission files carry nz = 0 in the grid header
            spec['hdr_nz0'] = True
        if fmt == 'uamiv' and spec['reader'] == 'memmap' and \
                draw(st.integers(0, 2)) == 0:
            # the uamiv memmap reader documents endian='little'
            spec['endian'] = 'little'
    return spec


def strategy(tier):
    return cases(tier)


# ------------------------------------------------------------------ labels
def describe(r, spec, m):
    fmt = spec['fmt']
    r.label('fmt:' + fmt)
    if fmt == 'uamiv':
        r.label('name:' + spec['name'])
        r.label('iproj:%d' % spec['proj']['iproj'])
    nt = spec.get('nsteps', 1)
    nvar = len(m.vars)
    r.label('steps:%d' % nt if nt < 3 else 'steps:3+')
    if spec['nz'] == 1:
        r.label('nz:1')
    if spec['nx'] * spec['ny'] == 1:
        r.label('cells:1')
    ro = []
    if fmt != 'landuse':
        ro = C.rollovers(spec, with_end=fmt in ('uamiv', 'lateral_boundary'))
        for x in ro:
            r.label('roll:' + x)
        if spec['step_h'] != 1:
            r.label('step>1h')
    pc = C.payload_classes(m.bits)
    for x in pc:
        r.label('payload:' + x)
    r.label('mode:' + spec['payload']['mode'])
    r.nontrivial = bool((nvar > 1 and spec['nz'] > 1 and nt > 1) or ro or pc)


def fail(r, spec, clause, detail, extra=''):
    k = spec['fmt']
    if extra:
        k += '/' + extra
    r.fail(clause, detail, klass=k)


def gfail(r, spec, n0, extra=''):
    """add the format class to failures appended by guard() since n0"""
    for f in r.failures[n0:]:
        if not f.klass:
            f.klass = spec['fmt'] + ('/' + extra if extra else '')


# ------------------------------------------------------------- comparisons
def cmp_header_view(r, spec, m, v):
    """decoded header fields of uamiv / lateral_boundary vs the spec"""
    p = spec['proj']
    want = dict(name=spec['name'].ljust(10), note=spec['note'].ljust(60),
                itzon=spec['itzon'], nspec=len(spec['species']),
                nx=spec['nx'], ny=spec['ny'], nz=spec['nz'],
                plon=p['plon'], plat=p['plat'], iutm=p['iutm'],
                xorg=p['xorg'], yorg=p['yorg'], delx=p['delx'],
                dely=p['dely'], iproj=p['iproj'], istag=p['istag'],
                tlat1=p['tlat1'], tlat2=p['tlat2'],
                cell=[1, 1, spec['nx'], spec['ny']])
    for k, w in want.items():
        if v.hdr[k] != w:
            fail(r, spec, 'w2r-header', 'header field %s is %r, written %r' %
                 (k, v.hdr[k], w), k)
    if [s.strip() for s in v.hdr['species']] != spec['species']:
        fail(r, spec, 'w2r-species-order', 'species records %r, VAR-LIST '
             'order %r' % (v.hdr['species'], spec['species']))
    if spec['fmt'] == 'uamiv' and v.hdr['ione'] != [1]:
        fail(r, spec, 'w2r-header', 'data records start with %r, 1 expected'
             % (v.hdr['ione'],), 'ione')


def inst_tuple(t):
    return (t.year, t.timetuple().tm_yday, float(t.hour))


def cmp_times_view(r, spec, v, c):
    ts = C.instants(spec)
    want_b = [inst_tuple(t) for t in ts[:-1]]
    if v.begin != want_b:
        fail(r, spec, 'w2r-begin-times', 'decoded begin instants '
             '(year, day, hour) %r, written %r' % (v.begin, want_b))
    if v.end is not None:
        want_e = [inst_tuple(t) for t in ts[1:]]
        if v.end != want_e:
            fail(r, spec, 'w2r-end-times', 'decoded end instants %r, '
                 'TFLAG+TSTEP is %r' % (v.end, want_e),
                 K.end_symptom(v.end, want_e))
        # file header dates must bracket the content
        hb = C._inst(c['ibdate'], c['btime'])
        he = C._inst(c['iedate'], c['etime'])
        if hb != want_b[0]:
            fail(r, spec, 'w2r-header-dates', 'file header begins %r, first '
                 'step begins %r' % (hb, want_b[0]), 'begin')
        if he != want_e[-1]:
            fail(r, spec, 'w2r-header-dates', 'file header ends %r, last '
                 'step ends %r' % (he, want_e[-1]),
                 'end/' + K.end_symptom([he], [want_e[-1]]))


def build_refread(spec, keep):
    """f = memmap reader on the reference-encoded file; then the bystander
    (same format, other grid) is opened and kept alive or closed again"""
    p0 = libstate.scratch_path('.ref.' + spec['fmt'])
    keep['paths'].append(p0)
    with open(p0, 'wb') as fo:
        fo.write(C.ref_bytes(spec))
    f = C.open_lib(spec, p0, 'memmap')
    keep['files'].append(f)
    if spec.get('slice'):
        f = C.apply_slice(spec, f)
        keep['files'].append(f)
    by = spec.get('bystander')
    if by:
        bs = C.bystander_spec(spec)
        p1 = libstate.scratch_path('.by.' + spec['fmt'])
        keep['paths'].append(p1)
        with open(p1, 'wb') as fo:
            fo.write(C.ref_bytes(bs))
        b = C.open_lib(bs, p1, 'memmap')
        if by == 'closed':
            C.drop(b)
        else:
            keep['files'].append(b)
        del b
    return f


def check_w2r(r, spec, m):
    keep = {'paths': [], 'files': []}
    try:
        _check_w2r(r, spec, m, keep)
    finally:
        C.drop(*keep['files'])
        keep['files'] = []
        C.cleanup(*keep['paths'])


def _check_w2r(r, spec, m, keep):
    orig = spec
    if spec.get('slice'):
        # the re-read file is cut to a window before it is written: the
        # expected content is the window of the model
        spec, m = C.sliced(spec, m)
    n0 = len(r.failures)
    if spec.get('route') == 'refread':
        ok, f = guard(r, 'w2r-build', build_refread, orig, keep)
        built = (f,)
    else:
        ok, built = guard(r, 'w2r-build', C.build_lib, spec,
                          spec.get('route', 'pnc'), spec.get('etflag', False))
    gfail(r, spec, n0)
    if not ok:
        return
    f = built[0]
    want_vars = OrderedDict((n, a) for n, (d, a) in m.vars.items())
    if spec.get('mask'):
        # masked cells must reach the disk as the variable's fill value
        # (what ncf2uamiv / ncf2lateral_boundary / ncf2one3d implement with
        # np.ma.filled / MaskedArray.tobytes)
        n0 = len(r.failures)
        ok, fe = guard(r, 'w2r-build', C.filled_expectation, f, list(m.vars))
        gfail(r, spec, n0)
        if not ok:
            return
        want_vars = fe[0]
        if fe[1] == 0 and spec['nx'] * spec['ny'] * spec['nz'] > 1:
            fail(r, spec, 'w2r-build', 'mask description produced no masked '
                 'cell')
    path = libstate.scratch_path('.' + spec['fmt'])
    try:
        n0 = len(r.failures)
        ok, _ = guard(r, 'w2r-write-raises', C.write_lib, spec, f, path)
        gfail(r, spec, n0)
        if not ok:
            return
        with open(path, 'rb') as fi:
            raw = fi.read()
    finally:
        C.cleanup(path)
    try:
        fortran.spans(raw)
    except fortran.FortranError as e:
        fail(r, spec, 'w2r-records', 'writer output is not a gap-free '
             'sequence of Fortran records: %s' % e)
        return
    try:
        c = R.decode(spec['fmt'], raw, **C.decode_hints(spec))
    except R.LayoutError as e:
        fail(r, spec, 'w2r-layout', 'writer output violates the layout: %s'
             % e)
        return
    v = C.view_of_content(c, spec['nx'], spec['ny'])
    fmt = spec['fmt']
    if fmt in ('uamiv', 'lateral_boundary'):
        cmp_header_view(r, spec, m, v)
    if fmt == 'lateral_boundary' and \
            v.hdr['edges'] != R.default_edges(spec['nx'], spec['ny']):
        fail(r, spec, 'w2r-header', 'edge definition records %r, expected '
             '%r' % (v.hdr['edges'], R.default_edges(spec['nx'], spec['ny'])),
             'edges')
    if fmt == 'cloud_rain':
        want = dict(desc=spec['desc'].ljust(20)[:20], nx=spec['nx'],
                    ny=spec['ny'], nz=spec['nz'], nvar=spec['nvar'])
        for k, w in want.items():
            if v.hdr[k] != w:
                fail(r, spec, 'w2r-header', 'header field %s is %r, written '
                     '%r' % (k, v.hdr[k], w), k)
    if fmt == 'wind':
        if any(x != spec['lstagger'] for x in v.hdr['lstagger']):
            fail(r, spec, 'w2r-header', 'stagger flag decoded as %r, written '
                 '%r' % (v.hdr['lstagger'], spec['lstagger']), 'lstagger')
    if fmt == 'landuse':
        if v.hdr['newstyle'] != spec['newstyle']:
            fail(r, spec, 'w2r-header', 'new-style keys %r, expected %r' % (
                v.hdr['newstyle'], spec['newstyle']), 'newstyle')
    else:
        cmp_times_view(r, spec, v, c)
    if list(v.vars) != list(m.vars):
        fail(r, spec, 'w2r-names', 'decoded variables %r, written %r' % (
            list(v.vars), list(m.vars)))
        return
    for name, (dims, arr) in m.vars.items():
        msg = C.cmp_bits(v.vars[name], want_vars[name],
                         'decoded %s%r' % (name, dims))
        if msg:
            fail(r, spec, 'w2r-values', msg,
                 'masked-input' if spec.get('mask') else '')
            break


LIB_ATTRS = ['NAME', 'NOTE', 'ITZON', 'PLON', 'PLAT', 'TLAT1', 'TLAT2',
             'IUTM', 'ISTAG', 'CPROJ', 'XORIG', 'YORIG', 'XCELL', 'YCELL']


def cmp_lib_attrs(r, spec, m, f, clause):
    for k, w in m.attrs.items():
        if k == 'LSTAGGER' and w is None:
            continue      # absent flag: any presentation is accepted
        if not hasattr(f, k):
            fail(r, spec, clause, 'attribute %s missing' % k, k)
            continue
        g = getattr(f, k)
        if isinstance(w, str):
            same = isinstance(g, str) and g == w
        else:
            try:
                same = np.ndim(g) == 0 and float(g) == float(w)
            except (TypeError, ValueError):
                same = False
        if not same:
            fail(r, spec, clause, 'attribute %s is %r, encoded %r' % (k, g, w),
                 k)


def cmp_lib_tflag(r, spec, var, want, clause, name, begin=None):
    try:
        a = np.asarray(var[...])
    except Exception as e:
        fail(r, spec, clause, '%s cannot be read: %s: %s' % (
            name, type(e).__name__, e), name)
        return
    if a.ndim != 3 or a.shape[0] != want.shape[0] or a.shape[2] != 2:
        fail(r, spec, clause, '%s has shape %r, %d steps encoded' % (
            name, a.shape, want.shape[0]), name)
        return
    exp = np.repeat(want[:, None, :], a.shape[1], axis=1)
    if not np.array_equal(a, exp):
        sym = ''
        if (a == a[:, :1]).all():
            sym = K.tflag_symptom(a[:, 0], want, begin)
        fail(r, spec, clause, '%s[:, 0] is %s, encoded %s' % (
            name, a[:, 0].tolist(), want.tolist()), name + '/' + sym)


def check_r2l(r, spec, m):
    reader = spec.get('reader', 'memmap')
    fmt = spec['fmt']
    raw = C.ref_bytes(spec)
    path = libstate.scratch_path('.' + fmt)
    with open(path, 'wb') as fo:
        fo.write(raw)
    f = None
    try:
        n0 = len(r.failures)
        ok, f = guard(r, 'r2l-open-raises', C.open_lib, spec, path, reader)
        gfail(r, spec, n0, reader)
        if not ok:
            return
        # dimensions
        for d, n in m.dims.items():
            if d not in f.dimensions:
                fail(r, spec, 'r2l-dim', 'dimension %s missing' % d, reader)
                continue
            try:
                ln = len(f.dimensions[d])
            except Exception as e:
                fail(r, spec, 'r2l-dim', 'len(dimension %s) raises %s: %s' %
                     (d, type(e).__name__, e), reader)
                continue
            if ln != n:
                fail(r, spec, 'r2l-dim', 'dimension %s has length %r, '
                     'encoded %d' % (d, ln, n), reader)
        if r.failures:
            return
        names = [k for k in f.variables.keys()
                 if k not in ('TFLAG', 'ETFLAG')]
        ordered = fmt in ('uamiv', 'lateral_boundary')
        if reader == 'memmap' and (names != list(m.vars) if ordered else
                                   sorted(names) != sorted(m.vars)):
            fail(r, spec, 'r2l-names', 'variables %r, encoded %s %r' % (
                names, 'order' if ordered else 'set', list(m.vars)), reader)
        for name, (dims, arr) in m.vars.items():
            if name not in f.variables.keys():
                if reader == 'read' and name == 'SURFTEMP':
                    continue
                fail(r, spec, 'r2l-names', 'variable %s missing' % name,
                     reader)
                continue
            n0 = len(r.failures)
            ok, var = guard(r, 'r2l-read-raises',
                            lambda: f.variables[name])
            gfail(r, spec, n0, reader)
            if not ok:
                break
            exp = arr
            if reader == 'read' and name == 'SURFTEMP':
                exp = arr[:, None]      # record reader: (TSTEP, SURF, ROW, COL)
            msg = C.cmp_bits(var, exp, 'variable %s' % name)
            if msg:
                fail(r, spec, 'r2l-values', msg, reader)
                break
        if C.tripped():
            fail(r, spec, 'r2l-nontermination', 'iteration budget exhausted',
                 reader)
        if reader != 'memmap' or fmt == 'landuse':
            return
        if 'TFLAG' in f.variables.keys():
            cmp_lib_tflag(r, spec, f.variables['TFLAG'], m.tflag,
                          'r2l-tflag', 'TFLAG')
        else:
            fail(r, spec, 'r2l-tflag', 'no TFLAG variable', 'TFLAG')
        if fmt in ('uamiv', 'lateral_boundary'):
            cmp_lib_tflag(r, spec, f.variables['ETFLAG'], m.etflag,
                          'r2l-etflag', 'ETFLAG', begin=m.tflag)
            vl = getattr(f, 'VAR-LIST', '')
            got = [vl[i:i + 16].strip() for i in range(0, len(vl), 16)]
            if got != list(m.vars):
                fail(r, spec, 'r2l-names', 'VAR-LIST %r, encoded order %r' %
                     (got, list(m.vars)), 'VAR-LIST')
        cmp_lib_attrs(r, spec, m, f, 'r2l-attrs')
        # IOAPI time metadata the reader derives from the encoded times
        derived = []
        if fmt in ('uamiv', 'lateral_boundary'):
            derived = [('SDATE', int(m.tflag[0, 0])),
                       ('STIME', int(m.tflag[0, 1]))]
        if fmt == 'uamiv':
            derived.append(('TSTEP', spec['step_h'] * 10000))
        for k, w in derived:
            if hasattr(f, k):
                g = getattr(f, k)
                try:
                    same = int(g) == w and float(g) == w
                except (TypeError, ValueError):
                    same = False
                if not same:
                    sym = ''
                    if k == 'SDATE' and np.ndim(g) == 0 and \
                            int(g) - w == 100000 and w < 2000000:
                        sym = '/+100y'
                    fail(r, spec, 'r2l-derived', 'attribute %s is %r, the '
                         'encoded times give %r' % (k, g, w), k + sym)
    finally:
        C.drop(f)
        del f
        C.cleanup(path)


def check_case(spec):
    if C.slice_is_ambiguous(spec):
        # a window that makes a 3-variable cloud/rain file ambiguous with
        # a 5-variable one (format without variable count) is dropped
        spec = dict(spec, slice=None)
    r = Result()
    C.reset_guards()
    m = C.model_of(spec)
    describe(r, spec, m)
    r.label('dir:' + spec['dir'])
    if spec['dir'] == 'w2r':
        r.label('route:' + spec.get('route', 'pnc') +
                ('+etflag' if spec.get('etflag') else ''),
                'vdtype:' + spec.get('vdtype', 'f4'))
        if spec.get('route') == 'refread':
            r.label('bystander:%s' % spec.get('bystander'))
            if spec.get('slice'):
                r.label('sliced-before-write',
                        *['slice:' + d for d in sorted(spec['slice'])])
        if spec.get('vorder'):
            r.label('creation-order-permuted')
        if spec.get('memlayout'):
            r.label('memlayout:' + spec['memlayout'])
        if spec.get('mask'):
            r.label('masked-input:' + spec['mask']['kind'])
        check_w2r(r, spec, m)
    else:
        r.label('reader:' + spec.get('reader', 'memmap'))
        if spec.get('endian') == 'little':
            r.label('endian:little')
        if spec.get('hdr_nz0'):
            r.label('hdr-nz=0')
        check_r2l(r, spec, m)
    return r


# ---------------------------------------------------------- known findings
def _fmt(spec, *names):
    return spec['fmt'] in names


def _time(spec, f):
    if f.clause == 'r2l-tflag':
        return K.time_cause(spec, f.klass, 'begin')
    if f.clause == 'r2l-etflag':
        return K.time_cause(spec, f.klass, 'end')
    if f.clause == 'r2l-derived' and f.klass.endswith('SDATE/+100y'):
        return K.time_cause(spec, f.klass, 'begin')
    return None


known.register('C09-century',
               lambda spec, f: _time(spec, f) == 'century')
known.register('C09-lateral-etflag-btime',
               lambda spec, f: _time(spec, f) == 'lateral-etflag-btime')
known.register('C09-enddate-yearend', lambda spec, f: (
    f.clause in ('w2r-end-times', 'w2r-header-dates') and
    f.klass.endswith('jday+1') and
    _fmt(spec, 'uamiv', 'lateral_boundary') and
    K.a_step_ends_next_year(spec)))
known.register('C09-uamiv-tstep-midnight', lambda spec, f: (
    f.clause == 'r2l-derived' and f.klass == 'uamiv/TSTEP' and
    K.first_step_wraps_midnight(spec)))
known.register('C09-one3d-memmap-1step', lambda spec, f: (
    f.clause == 'r2l-open-raises' and K.single_step(spec) and
    spec['fmt'] in C.ONE3D_VAR and spec.get('reader') == 'memmap' and
    f.where == 'IndexError@camxfiles/one3d/Memmap.py:__init__'))
known.register('C09-temperature-memmap-1step', lambda spec, f: (
    f.clause == 'r2l-dim' and K.single_step(spec) and
    _fmt(spec, 'temperature') and spec.get('reader') == 'memmap'))
known.register('C09-height_pressure-memmap-1step', lambda spec, f: (
    f.clause == 'r2l-dim' and K.single_step(spec) and
    _fmt(spec, 'height_pressure') and spec.get('reader') == 'memmap'))
known.register('C09-wind-memmap-1cell', lambda spec, f: (
    _fmt(spec, 'wind') and K.one_cell(spec) and
    spec.get('reader') == 'memmap' and
    (f.clause == 'r2l-dim' or
     (f.clause == 'r2l-open-raises' and f.where in (
         'NonTermination@camxfiles/wind/Memmap.py:__init__',
         # form the endless scan takes once it is repaired
         'OSError@camxfiles/wind/Memmap.py:__init__')))))
known.register('C09-landuse-oldstyle-decode', lambda spec, f: (
    _fmt(spec, 'landuse') and not spec['newstyle'] and
    f.clause == 'r2l-open-raises' and f.where.startswith(
        'UnicodeDecodeError@camxfiles/FortranFileUtil.py')))
known.register('C09-landuse-writer-order', lambda spec, f: (
    _fmt(spec, 'landuse') and spec['newstyle'] and spec['nextra'] >= 1 and
    f.clause == 'w2r-layout'))
known.register('C09-wind-lstagger-byteorder', lambda spec, f: (
    _fmt(spec, 'wind') and spec.get('lstagger') not in (0, -1, None) and
    f.clause == 'w2r-header' and f.klass == 'wind/lstagger'))
known.register('C09-read-uamiv-midnight', lambda spec, f: (
    _fmt(spec, 'uamiv') and spec.get('reader') == 'read' and
    K.uamiv_read_time_class(spec) and
    f.clause in ('r2l-dim', 'r2l-read-raises', 'r2l-open-raises',
                 'r2l-values', 'r2l-nontermination')))
known.register('C09-read-uamiv-emissions-squeeze', lambda spec, f: (
    _fmt(spec, 'uamiv') and spec.get('reader') == 'read' and
    spec.get('name') == 'EMISSIONS' and
    (spec['nsteps'] == 1 or spec['nx'] == 1 or spec['ny'] == 1) and
    f.clause == 'r2l-read-raises' and
    f.where == 'IndexError@camxfiles/uamiv/Read.py:constr'))
known.register('C09-uamiv-tstep-multiday', lambda spec, f: (
    _fmt(spec, 'uamiv') and spec.get('step_h', 1) > 24 and
    f.clause == 'r2l-derived' and f.klass == 'uamiv/TSTEP'))
known.register('C09-read-uamiv-emissions-layers', lambda spec, f: (
    _fmt(spec, 'uamiv') and spec.get('reader') == 'read' and
    spec.get('name') == 'EMISSIONS' and spec['nz'] > 1 and
    f.clause in ('r2l-dim', 'r2l-values', 'r2l-read-raises')))
MASK_RAISERS = ('temperature', 'height_pressure', 'wind', 'cloud_rain')
known.register('C09-met-writers-masked-tofile', lambda spec, f: (
    bool(spec.get('mask')) and spec['fmt'] in MASK_RAISERS and
    f.clause == 'w2r-write-raises' and f.where.startswith(
        'NotImplementedError@camxfiles/%s/Write.py' % spec['fmt'])))
known.register('C09-landuse-masked-stale', lambda spec, f: (
    bool(spec.get('mask')) and spec['fmt'] == 'landuse' and
    f.clause == 'w2r-values' and f.klass == 'landuse/masked-input'))
