"""C11 - IOAPI subsetting preserves geo- and time-referencing.

IoapiSpec file x contiguous window (int, positive or negative, or unit-stride
slice selecting >= 1 element) over a non-empty subset of ROW, COL, LAY,
TSTEP.  Oracle: origin moves by first-index x cell size (exact), level edges
are the matching sub-range, decoded times are the same sub-range of the
source's decoded times, SDATE/STIME encode the first retained instant and
TSTEP is kept when >= 2 steps are retained."""
import numpy as np
from hypothesis import strategies as st

from ..core import Result, guard
from .. import ioapispec as I
from .. import libstate
from .. import known

ID = 'C11'
LEVEL = 'exploration'
RULE = (
    'Hypothesis: IoapiSpec file (gridded or boundary; routes from_arrays / '
    'griddesc text / griddesc text with CF variables / saved and re-opened '
    'with the ioapi reader; 1-8 steps, 1-6 layers/rows/cols; SDATE weighted '
    'to year ends and the leap day, one file in three constructed so that '
    'the series crosses midnight of such a day; TSTEP from 30 s to 100 h; '
    'XORIG/YORIG/XCELL/YCELL multiples of 1/8 so that origin arithmetic is '
    'exact in float64; VGLVLS multiples of 1/64) x a window over a non-empty '
    'subset of ROW, COL, LAY, TSTEP (boundary files: LAY, TSTEP) in permuted '
    'keyword order, each an int in [-n, n-1] (passed as Python int, '
    'np.int64, np.int32 or np.intp, any mix over the dimensions) or a slice with step None/1 '
    'selecting >= 1 element with start/stop spelled as None, non-negative, '
    'negative or - at an edge - beyond the axis (start < -n, stop > n: '
    'clamped by slice semantics).  Oracle (all exact, no tolerance): XORIG\' == XORIG + i0*XCELL '
    'and YORIG\' == YORIG + j0*YCELL with the source values read before the '
    'call, XCELL/YCELL unchanged, origins untouched when ROW/COL are not '
    'windowed; VGLVLS\' == VGLVLS[k0:k1+2] bit for bit (untouched when LAY is '
    'not windowed); getTimes(window) == getTimes(source)[selection]; '
    '(SDATE\', STIME\') == the source TFLAG row of the first retained step '
    '(== integer-arithmetic instant of the model); TSTEP\' == TSTEP when >= 2 '
    'steps are retained; when the window has a TFLAG variable every column '
    'of it equals the retained source rows and SDATE\', STIME\' == '
    'TFLAG\'[0,0]; sliceDimensions must return.  Each source is put into '
    'one of these states before the window is taken (ioapispec.preps): '
    'synced (as constructed, 1/4), var-added (one more standard-dimension '
    'variable added by createVariable or copyVariable without a following '
    'updatemeta, so TFLAG/VAR lag behind NVARS, 1/4), no-tflag (TFLAG '
    'deleted, file timed by SDATE/STIME/TSTEP or the CF time variable, 1/4), '
    'VAR-LIST without its padding (trailing blanks stripped 1/8, names '
    'separated by single blanks 1/8); '
    'for the disk route the state is applied before saving; the reference '
    'is always the source\'s own getTimes().  One source in four with >= 3 '
    'steps has an uneven time axis (a prior sliceDimensions(TSTEP=index '
    'list), or two windows of the file stacked with a gap); every retained '
    'step must keep its own flag, TSTEP\' is not judged there.  XORIG/YORIG '
    'are stored as float, Python int, np.int32, np.int64 or np.float32 '
    '(integer types with whole-number values) and the cells as float or '
    'np.float32, cells being fractional in general.  Non-trivial: >= 2 '
    'dimensions windowed, or a negative int, or a window touching either '
    'edge of its dimension without covering it, or a retained time range '
    'lying on more than one date.  Distinct by sha1 of the case spec.  In '
    'addition a finite sub-domain is enumerated: ' + 'see exhaustive_scope.')
ASSUMPTIONS = [
    'index lists and strides other than 1 are outside the statement',
    'the source file decodes its own times (C12 judges getTimes itself); '
    'the window is compared with the source through the same decoder',
    'sum of a multiple of 1/8 below 2**22 and up to 5 cell sizes below 2**17 '
    'is exact in float64']
BUDGET = {'quick': dict(examples=7200, max_s=240),
          'thorough': dict(examples=40000, max_s=3000)}


# ------------------------------------------------------------------ strategy
@st.composite
def windows(draw, n):
    if draw(st.integers(0, 2)) == 0:
        # the integer is passed as a Python int or as a numpy integer
        # scalar (what np.argmax / np.unravel_index return)
        ity = draw(st.sampled_from(['py', 'py', 'i8', 'i4', 'intp']))
        w = ['int', draw(st.integers(-n, n - 1))]
        return w if ity == 'py' else w + [ity]
    a = draw(st.integers(0, n - 1))
    b = draw(st.integers(a + 1, n))
    lo, hi = I.spell_slice(draw, a, b, n)
    step = draw(st.sampled_from([None, None, 1]))
    return ['slice', [lo, hi, step]]


@st.composite
def cases(draw, tier='quick'):
    fs = draw(I.ioapispecs(origin_types=True))
    # a 16-character name followed by another name makes the *source*
    # incoherent (finding C10-name16-split); that is C10's subject, so here
    # such a name is kept only in last position
    vs = [v if (len(v) < 16 or i == len(fs['vars']) - 1) else v[:15]
          for i, v in enumerate(fs['vars'])]
    if len(set(vs)) < len(vs):
        vs = ['V%d' % i for i in range(len(vs))]
    fs = dict(fs, vars=vs)
    # source state first: an uneven time axis (prior index-list selection,
    # two runs stacked with a gap) changes the number of steps
    prep = draw(I.preps(fs, uneven=True))
    tidx = I.prep_time_index(fs, prep)
    dlen = dict(TSTEP=len(tidx), LAY=fs['nz'])
    if fs['ftype'] == 1:
        dlen['ROW'], dlen['COL'] = fs['ny'], fs['nx']
    names = sorted(dlen)
    k = draw(st.integers(1, len(names)))
    chosen = draw(st.permutations(names))[:k]
    if fs.get('crossing') and 'TSTEP' not in chosen and draw(st.booleans()):
        chosen = list(chosen) + ['TSTEP']
    win = [[d] + draw(windows(dlen[d])) for d in chosen]
    if 'TSTEP' in chosen and len(tidx) >= 2 and \
            draw(st.integers(0, 2)) > 0:
        # two thirds of the time windows keep >= 2 steps; in files built to
        # cross midnight they contain the crossing
        nt = len(tidx)
        alltimes = I.model(fs).times
        times = [alltimes[i] for i in tidx]
        cross = [i for i in range(1, nt)
                 if times[i].date() != times[i - 1].date()]
        if cross and draw(st.booleans()):
            c = draw(st.sampled_from(cross))
            a = draw(st.integers(0, c - 1))
            b = draw(st.integers(c + 1, nt))
        else:
            a = draw(st.integers(0, nt - 2))
            b = draw(st.integers(a + 2, nt))
        lo, hi = I.spell_slice(draw, a, b, nt)
        win = [w if w[0] != 'TSTEP' else ['TSTEP', 'slice', [lo, hi, None]]
               for w in win]
    return dict(file=fs, win=win, prep=prep)


def strategy(tier):
    return cases(tier)


ENUM_FILE = dict(ftype=1, route='arrays', vars=['O3', 'NO2'], nt=4, nz=3,
                 ny=3, nx=4, sdate=2019365, stime=180000, tstep=60000,
                 xorig=-1000.5, yorig=500.25, xcell=250.0, ycell=125.5,
                 vglvls=[1.0, 0.75, 0.5, 0.0], dmul=1, crossing=True)
EXHAUSTIVE_NOTE = (
    'one fixed from_arrays file (4 steps of 6 h from 2019-12-31 18:00, 3 '
    'layers, 3 rows, 4 columns): every window of one dimension and every '
    'pair of windows of two dimensions (quick), every combination over all '
    'four dimensions including "untouched" (thorough); a window is every int '
    'in [-n, n-1] and every slice(a, b) with 0 <= a < b <= n.  Source '
    'states: synced for all of the above; in addition every single window '
    'in the states var-added(create), var-added(copy), no-tflag, every pair '
    'containing TSTEP in state no-tflag (quick), every pair in all three '
    'states (thorough); every ROW x COL pair of integers passed as numpy '
    'integer scalars (3 type pairings); single windows with bounds beyond '
    'the axis on every dimension')


def _all_windows(n):
    out = [['int', i] for i in range(-n, n)]
    for a in range(n):
        for b in range(a + 1, n + 1):
            out.append(['slice', [a, b, None]])
    return out


def enumerate_cases(tier):
    import itertools
    fs = ENUM_FILE
    dl = [('TSTEP', fs['nt']), ('LAY', fs['nz']), ('ROW', fs['ny']),
          ('COL', fs['nx'])]
    states = [['var-added', 'create', I.ADDED_NAME],
              ['var-added', 'copy', I.ADDED_NAME], 'no-tflag']
    if tier == 'thorough':
        opts = [[None] + _all_windows(n) for d, n in dl]
        for combo in itertools.product(*opts):
            win = [[d] + w for (d, n), w in zip(dl, combo) if w is not None]
            if win:
                yield dict(file=fs, win=win, prep='synced')
    for d, n in dl:
        for w in _all_windows(n):
            if tier != 'thorough':
                yield dict(file=fs, win=[[d] + w], prep='synced')
            for p in states:
                yield dict(file=fs, win=[[d] + w], prep=p)
    # slice bounds beyond the axis (clamped by slice semantics)
    for d, n in dl:
        oob = [[-100, 100], [None, n + 3], [-n - 3, None]]
        for b in range(1, n + 1):
            oob += [[-n - 1, b], [-n - 7, b]]
        for a in range(n):
            oob += [[a, n + 1], [a, n + 9], [a - n, n + 2]]
        for lo, hi in oob:
            yield dict(file=fs, win=[[d, 'slice', [lo, hi, None]]],
                       prep='synced')
    # every ROW x COL pair of integers given as numpy integer scalars
    for t1, t2 in (('i8', 'i8'), ('i4', 'intp'), ('intp', 'i4')):
        for i in range(-fs['ny'], fs['ny']):
            for j in range(-fs['nx'], fs['nx']):
                yield dict(file=fs, win=[['ROW', 'int', i, t1],
                                         ['COL', 'int', j, t2]],
                           prep='synced')
    for (d1, n1), (d2, n2) in itertools.combinations(dl, 2):
        for w1 in _all_windows(n1):
            for w2 in _all_windows(n2):
                win = [[d2] + w2, [d1] + w1]
                if tier != 'thorough':
                    yield dict(file=fs, win=win, prep='synced')
                for p in states:
                    if tier == 'thorough' or (d1 == 'TSTEP' and
                                              p == 'no-tflag'):
                        yield dict(file=fs, win=win, prep=p)


def finish(stats):
    if stats.enumerated:
        stats.exhaustive = True


# ------------------------------------------------------------------ oracle
INT_TYPES = {'py': int, 'i8': np.int64, 'i4': np.int32, 'intp': np.intp}


def to_sel(kind, val, ity='py'):
    if kind == 'int':
        return INT_TYPES[ity](val)
    return slice(*val)


def bounds(n, kind, val):
    """first and last retained index"""
    idx = np.arange(n)[to_sel(kind, val)]
    idx = np.atleast_1d(idx)
    return int(idx[0]), int(idx[-1]), int(idx.size)


def check_case(case):
    r = Result()
    fs = case['file']
    m = I.model(fs)
    f = I.build(fs, case.get('prep'))
    try:
        return _check(case, fs, m, f, r)
    finally:
        if I.is_disk(fs):
            libstate.release(f)
        del f


def _check(case, fs, m, f, r):
    win = I_OD(case['win'])
    ity = dict((w[0], w[3]) for w in case['win'] if len(w) > 3)
    for d in sorted(ity):
        r.label('npint:' + ity[d])
    if 'ROW' in ity and 'COL' in ity:
        r.label('npint:ROW+COL')
    r.label('route:' + fs['route'], 'ftype:%d' % fs['ftype'])
    prep = I.prep_kind(case.get('prep'))
    r.label('prep:' + prep)
    tidx = I.prep_time_index(fs, case.get('prep'))
    mtimes = [m.times[i] for i in tidx]
    mtflag = m.tflag[tidx]
    uneven = prep.startswith('uneven')
    dlen = dict((d, (len(tidx) if d == 'TSTEP' else m.dims[d])) for d in win)
    rng = dict((d, bounds(dlen[d], *win[d])) for d in win)
    # ---- labels / non-triviality
    nt = len(win) >= 2
    r.label('ndims:%d' % len(win))
    for d, (kind, val) in win.items():
        r.label('win:' + d)
        i0, i1, cnt = rng[d]
        n = dlen[d]
        if kind == 'int':
            r.label('int')
            if val < 0:
                r.label('neg-int')
                nt = True
        else:
            r.label('slice')
            if (val[0] is not None and val[0] < 0) or \
                    (val[1] is not None and val[1] < 0):
                r.label('neg-slice-bound')
            if (val[0] is not None and val[0] < -n) or \
                    (val[1] is not None and val[1] > n):
                r.label('oob-slice-bound', 'oob-slice-bound:' + d)
        if cnt < n and (i0 == 0 or i1 == n - 1):
            r.label('touches-edge')
            nt = True
        if cnt == n:
            r.label('covers-all')
        if i0 > 0:
            r.label('first-index>0:' + d)
    crosses = False
    if 'TSTEP' in win:
        i0, i1, cnt = rng['TSTEP']
        crosses = len(set(t.date() for t in mtimes[i0:i1 + 1])) > 1
        if crosses:
            r.label('time-window-crosses-day')
            nt = True
            if mtimes[i0].year != mtimes[i1].year:
                r.label('time-window-crosses-year')
        r.label('steps-kept:%s' % ('1' if cnt == 1 else '2+'))
    if fs['tstep'] >= 240000:
        r.label('tstep>=24h')
    if prep in ('var-added', 'no-tflag'):
        # the result's TFLAG cannot be the sliced source TFLAG: it has to be
        # rebuilt for the window
        r.label('tflag-rebuilt')
        if 'TSTEP' in win and rng['TSTEP'][0] > 0:
            r.label('tflag-rebuilt+time-window-not-at-step0')
            if fs['route'] != 'griddesc_cf':
                r.label('tflag-rebuilt-from-start-attrs+offset')
    r.nontrivial = nt
    # ---- source values, read before the call
    src = {}
    for k in ('XORIG', 'YORIG', 'XCELL', 'YCELL', 'SDATE', 'STIME', 'TSTEP'):
        src[k] = getattr(f, k)
    src_vg = np.array(f.VGLVLS, dtype='f4', copy=True)
    ok, src_times = guard(r, 'source-gettimes-raises', f.getTimes)
    if not ok:
        return r
    src_times = np.array(src_times).copy()
    if 'TFLAG' in f.variables:
        src_tflag = np.array(f.variables['TFLAG'][:, 0, :], dtype='i8')
    else:
        # source timed by SDATE/STIME/TSTEP (or CF time) only: its own
        # decoded times are the reference
        src_tflag = np.array([[I.yyyyjjj(t), I.hhmmss(t)]
                              for t in src_times], dtype='i8')
    if src_tflag.shape != mtflag.shape or not (src_tflag == mtflag).all():
        # construction problem, not a windowing problem: C12's business
        r.label('source-tflag-differs-from-model')
    kw = I_OD((d, to_sel(win[d][0], win[d][1], ity.get(d, 'py')))
              for d in win)
    ok, out = guard(r, 'slice-raises', lambda: f.sliceDimensions(**kw))
    if not ok:
        return r
    # ---- origin
    for att, cell, d in (('XORIG', 'XCELL', 'COL'), ('YORIG', 'YCELL',
                                                     'ROW')):
        i0 = rng[d][0] if d in win else 0
        want = float(src[att]) + i0 * float(src[cell])
        got = getattr(out, att, None)
        if got is None or float(got) != want:
            r.fail('origin', '%s = %r after window %s=%r, expected %r + %d*%r'
                   ' = %r' % (att, got, d, win.get(d), src[att], i0,
                              src[cell], want),
                   klass=(win[d][0] if d in win else 'untouched'))
        gc_ = getattr(out, cell, None)
        if gc_ is None or float(gc_) != float(src[cell]):
            r.fail('cell', '%s = %r, source %r' % (cell, gc_, src[cell]))
    # ---- level edges
    if 'LAY' in win:
        k0, k1, _ = rng['LAY']
        want = src_vg[k0:k1 + 2]
    else:
        want = src_vg
    got = np.asarray(getattr(out, 'VGLVLS', np.array([])), dtype='f4')
    if got.shape != want.shape or got.tobytes() != want.tobytes():
        r.fail('vglvls', 'VGLVLS = %r after window LAY=%r of %r, expected %r'
               % (got.tolist(), win.get('LAY'), src_vg.tolist(),
                  want.tolist()),
               klass=(win['LAY'][0] if 'LAY' in win else 'untouched'))
    # ---- times
    if 'TSTEP' in win:
        i0, i1, cnt = rng['TSTEP']
    else:
        i0, i1, cnt = 0, len(src_times) - 1, len(src_times)
    want_times = list(src_times[i0:i1 + 1])
    ok, got_times = guard(r, 'window-gettimes-raises', out.getTimes)
    if ok:
        got_times = list(np.atleast_1d(got_times))
        if got_times != want_times:
            r.fail('times', 'getTimes(window TSTEP=%r) = %s, source[%d:%d] = '
                   '%s' % (win.get('TSTEP'), _ts(got_times), i0, i1 + 1,
                           _ts(want_times)),
                   klass=('windowed' if 'TSTEP' in win else 'untouched'))
    sd, stt = getattr(out, 'SDATE', None), getattr(out, 'STIME', None)
    wsd, wst = int(src_tflag[i0, 0]), int(src_tflag[i0, 1])
    if sd is None or stt is None or int(sd) != wsd or int(stt) != wst:
        r.fail('start', 'SDATE, STIME = %r, %r but the first retained step '
               '(index %d) is %d, %06d' % (sd, stt, i0, wsd, wst),
               klass=('windowed' if 'TSTEP' in win else 'untouched'))
    # the result's own time flags: every column carries the retained
    # instants, and the start attributes agree with the first row
    if 'TFLAG' in out.variables:
        otf = np.array(out.variables['TFLAG'][:], dtype='i8')
        want_rows = src_tflag[i0:i1 + 1]
        if otf.ndim != 3 or otf.shape[0] != want_rows.shape[0] or \
                otf.shape[1] < 1 or \
                not (otf == want_rows[:, None, :]).all():
            r.fail('tflag', 'TFLAG of the window (shape %r) = %s, the '
                   'retained source steps are %s' % (
                       tuple(otf.shape), otf[:, :1, :].tolist()[:8]
                       if otf.ndim == 3 else otf.tolist()[:8],
                       want_rows.tolist()[:8]),
                   klass=('windowed' if 'TSTEP' in win else 'untouched'))
        elif sd is not None and stt is not None and (
                int(sd) != int(otf[0, 0, 0]) or int(stt) != int(otf[0, 0, 1])):
            r.fail('start-vs-tflag', 'SDATE, STIME = %r, %r but TFLAG[0,0] of'
                   ' the window = %r' % (sd, stt, otf[0, 0].tolist()),
                   klass=('windowed' if 'TSTEP' in win else 'untouched'))
    if uneven and 'TSTEP' in win and i0 + 1 <= i1:
        gaps = set(tidx[k + 1] - tidx[k] for k in range(i0, i1))
        if len(gaps) > 1:
            r.label('uneven-interval-inside-window')
            if tidx[i0 + 1] - tidx[i0] != tidx[i1] - tidx[i1 - 1]:
                r.label('uneven-after-first-interval')
    # on an uneven axis no single TSTEP describes the window: not judged
    if (cnt >= 2 or 'TSTEP' not in win) and not uneven:
        ts = getattr(out, 'TSTEP', None)
        if ts is None or int(ts) != int(src['TSTEP']):
            r.fail('tstep', 'TSTEP = %r after keeping %d steps of a file '
                   'with TSTEP = %r' % (ts, cnt, src['TSTEP']),
                   klass=('windowed' if 'TSTEP' in win else 'untouched'))
    return r


def _ts(ts):
    return '[' + ', '.join(t.strftime('%Y-%m-%dT%H:%M:%S') +
                           ('.%06d' % t.microsecond if t.microsecond else '')
                           for t in ts[:8]) + ']'


def I_OD(pairs):
    import collections
    od = collections.OrderedDict()
    for p in pairs:
        if len(p) >= 3:
            od[p[0]] = (p[1], p[2])
        else:
            od[p[0]] = p[1]
    return od


# ------------------------------------------------------------------ known
# sliceDimensions recomputes TSTEP through strftime('%H%M%S') of
# 1900-01-01 + dt: whole days are dropped (24 h -> 0, 100 h -> 40000)
known.register('C11-tstep-ge-24h', lambda c, f: (
    f.clause == 'tstep' and f.klass == 'windowed' and
    c['file']['tstep'] >= 240000))
