"""C02 - dimension slicing selects exactly the requested hyperslab.

Generator: FileSpec x selector map (int / slice / index list, zipped lists)
in any keyword order.  Oracle: independent orthogonal per-axis selection on
the numpy model (pointwise for zipped lists)."""
import itertools

import numpy as np
from hypothesis import strategies as st

from ..core import Result, guard
from .. import spec as S

ID = 'C02'
LEVEL = 'exploration'
RULE = ('Hypothesis: FileSpec (1-5 dims of length 1-5, 1-5 variables of rank '
        '0-4 over differing dimension subsets, masked/unmasked, coordinate '
        'variables, f4/f8/i2/i4) x selectors over a non-empty subset of '
        'dimensions in permuted keyword order: int in [-n,n-1], slice with '
        'any start/stop/step (None, negative, reversed, empty, out of range),'
        ' index list with repeats/negatives; >=2 lists are equal-length '
        '(zipped) with default or custom newdims.  Thorough also enumerates '
        'every kind-combination x keyword order on a fixed 2x3x2x3 file; '
        'every run enumerates 31 selections on a 48x80x90 file whose '
        'results exceed 1 MiB (thorough: also 40x330x330, > 16 MiB). '
        'Oracle: np.take/slice per axis on the model, ints kept as length-1 '
        'axes; zipped = pointwise stack at the first list axis; data and '
        'masks bit-identical, attributes equal, dimension lengths = '
        'selection sizes.  Non-trivial: a variable with >=2 selected axes of '
        'different kinds, or negative int, reversed/empty slice, repeated '
        'list entry, or zipped.  One case in five drives the IOAPI override '
        'on generated gridded IOAPI files (TSTEP/LAY/ROW/COL selectors, '
        'uneven and repeated TSTEP lists, zipped ROW+COL): data variables '
        'and every column of the time-flag variable must hold exactly the '
        'selected elements.  One case in seven drives the string form '
        'slice_dim(f, "dim,start,stop,stride") on files that hold a sibling '
        'dimension whose name starts with the selected name; one generic case '
        'in four carries a fixed-width text variable (S2/S4/S5).  Distinct by '
        'sha1 of the case spec.')
ASSUMPTIONS = ['numpy basic/take indexing is the reference for orthogonal '
               'selection', 'empty index lists are outside the domain']
BUDGET = {'quick': dict(examples=4800, max_s=240),
          'thorough': dict(examples=100000, max_s=3000)}


# ------------------------------------------------------------------ strategy
@st.composite
def selectors(draw, n, allow_list=True):
    kinds = ['int', 'slice', 'slice'] + (['list'] if allow_list else [])
    kind = draw(st.sampled_from(kinds))
    if kind == 'int':
        return ['int', draw(st.integers(-n, n - 1))]
    if kind == 'slice':
        b = st.one_of(st.none(), st.integers(-n - 2, n + 2))
        step = draw(st.one_of(st.none(), st.sampled_from(
            [1, 1, 2, 3, -1, -1, -2, n + 1])))
        return ['slice', [draw(b), draw(b), step]]
    k = draw(st.integers(1, 6))
    return ['list', draw(st.lists(st.integers(-n, n - 1), min_size=k,
                                  max_size=k))]


@st.composite
def cases(draw, tier='quick'):
    # a declared fill value of 0 (counts, flags) is legitimate: the mask is
    # explicit, the fill only an attribute
    fs = draw(S.filespecs(max_len=5, max_dims=5, max_vars=5, attrs=True,
                          masked=True, fills=[-999, -9999, -1, 99, 0, 0]))
    names = [d[0] for d in fs['dims']]
    dlen = {d[0]: d[1] for d in fs['dims']}
    if draw(st.integers(0, 3)) == 0:
        # a fixed-width text variable (station ids, flags) wider than one
        # character, with or without selected dimensions
        rank = draw(st.integers(0, min(2, len(names))))
        vd = list(draw(st.permutations(names))[:rank])
        width = draw(st.sampled_from([2, 4, 5]))
        size = int(np.prod([dlen[d] for d in vd])) if vd else 1
        words = draw(st.lists(st.text(alphabet='ABCKXYZ09', min_size=width,
                                      max_size=width), min_size=size,
                              max_size=size))
        fs['vars'].append(dict(name='sid', dims=vd, dtype='S%d' % width,
                               data=words, mask=None, fill=None, attrs={}))
    k = draw(st.integers(1, len(names)))
    chosen = draw(st.permutations(names))[:k]
    zipped = draw(st.integers(0, 4)) == 0 and len(names) >= 2
    sel = []
    if zipped:
        nz = draw(st.integers(2, min(3, len(names))))
        zd = draw(st.permutations(names))[:nz]
        npts = draw(st.integers(1, 5))
        for d in zd:
            n = dlen[d]
            sel.append([d, 'list', draw(st.lists(st.integers(-n, n - 1),
                                                 min_size=npts,
                                                 max_size=npts))])
        for d in chosen:
            if d not in zd:
                sel.append([d] + draw(selectors(dlen[d], allow_list=False)))
        sel = draw(st.permutations(sel))
    else:
        nlists = 0
        for d in chosen:
            s = draw(selectors(dlen[d], allow_list=(nlists == 0)))
            if s[0] == 'list':
                nlists += 1
            sel.append([d] + s)
    newdims = None
    if zipped and draw(st.booleans()):
        newdims = ['PTS']
    route = draw(st.sampled_from(['memory', 'memory', 'memory', 'disk']))
    if route == 'disk':
        # "a reader": saved as NETCDF4 and re-opened as class netcdf, whose
        # variables are netCDF4 variables (own indexing rules).  Keep what a
        # netCDF file can represent: data never equals the declared fill
        # (|data| <= 1000), no unlimited dimension without data.
        for d in fs['dims']:
            d[2] = False
        # fixed-width text wider than one character needs a character
        # dimension in netCDF: not representable as is
        fs['vars'] = [v for v in fs['vars'] if v['dtype'] in S.DT]
        for v in fs['vars']:
            if v.get('fill') is not None:
                v['fill'] = -9999
    return dict(file=fs, sel=[list(s) for s in sel], newdims=newdims,
                route=route)


@st.composite
def cases_ioapi(draw, tier='quick'):
    """the IOAPI override of sliceDimensions: gridded in-memory IOAPI files
    (vf.ioapispec), non-empty selections over TSTEP/LAY/ROW/COL by int, slice
    or index list (repeats, any order), optionally zipped ROW+COL lists.  The
    data variables AND the time-flag variable must hold exactly the selected
    elements."""
    from .. import ioapispec as IO
    sp = draw(IO.ioapispecs(routes=('arrays', 'griddesc'), ftypes=(1,)))
    dlen = dict(TSTEP=sp['nt'], LAY=sp['nz'], ROW=sp['ny'], COL=sp['nx'])
    names = list(dlen)
    k = draw(st.integers(1, 4))
    chosen = draw(st.permutations(names))[:k]
    if 'TSTEP' not in chosen and draw(st.booleans()):
        chosen = ['TSTEP'] + list(chosen)[:k - 1] if k > 1 else ['TSTEP']
    sel = []
    zipped = set(['ROW', 'COL']) <= set(chosen) and draw(st.integers(0, 3)) == 0
    npts = draw(st.integers(1, 4))
    nlists = 0
    for d in chosen:
        n = dlen[d]
        if zipped and d in ('ROW', 'COL'):
            sel.append([d, 'list', draw(st.lists(st.integers(-n, n - 1),
                                                 min_size=npts,
                                                 max_size=npts))])
            continue
        allow_list = (nlists == 0 and not zipped) or d == 'TSTEP' and \
            nlists == 0 and not zipped
        for _ in range(8):
            s1 = draw(selectors(n, allow_list=allow_list))
            if sel_size(n, s1[0], s1[1]) > 0:
                break
        else:
            s1 = ['int', 0]
        if s1[0] == 'list':
            nlists += 1
        sel.append([d] + s1)
    return dict(ioapi=sp, sel=[list(x) for x in sel], newdims=None)


SIBLINGS = [('lev', 'lev_stag'), ('x', 'xb'), ('bottom_top',
                                                'bottom_top_stag'),
            ('t', 'time'), ('y', 'y_2d'), ('lat', 'latitude')]


@st.composite
def cases_strform(draw, tier='quick'):
    """the string form slice_dim(f, 'dim,start[,stop[,stride]]') of
    core/_functions.py on files that also hold a sibling dimension whose
    name merely STARTS with the selected name (staggered-grid style); the
    documented fuzzy matching covers only name+digits suffixes, which are not
    generated.  Unmasked variables only (the Pseudo2NetCDF copy of untouched
    variables stores masked cells as fill values)."""
    base, sib = draw(st.sampled_from(SIBLINGS))
    others = draw(st.lists(st.sampled_from(['a', 'b', 'c']), min_size=0,
                           max_size=2, unique=True))
    names = draw(st.permutations([base, sib] + others))
    lens = [draw(st.integers(2, 5)) for _ in names]
    dlen = dict(zip(names, lens))
    variables = []
    for i in range(draw(st.integers(2, 4))):
        rank = draw(st.integers(1, min(3, len(names))))
        vd = list(draw(st.permutations(list(names)))[:rank])
        if i == 0 and base not in vd:
            vd[0] = base
        if i == 1:
            vd = [d for d in vd if d != base] or [sib]
            if sib not in vd:
                vd[0] = sib
        vd = list(dict.fromkeys(vd))
        code = draw(st.sampled_from(['f4', 'f8', 'i4']))
        size = int(np.prod([dlen[d] for d in vd]))
        data = draw(st.lists(S._elements(code, {}), min_size=size,
                             max_size=size))
        variables.append(dict(name='v%d' % i, dims=vd, dtype=code, data=data,
                              mask=None, fill=None,
                              attrs=draw(S._attrs({'attr_kinds': ('str',
                                                                  'float')},
                                                  ['units', 'long_name'],
                                                  2))))
    fs = dict(dims=[[n, l, False] for n, l in zip(names, lens)],
              vars=variables, gattrs={'title': 'strform'})
    n = dlen[base]
    form = draw(st.sampled_from(['idx', 'range', 'stride', 'stride',
                                 'general']))
    a = draw(st.integers(0, n - 1))
    if form == 'idx':
        parts = [a]
    elif form == 'range':
        parts = [a, draw(st.integers(a + 1, n))]
    elif form == 'stride':
        parts = [a, draw(st.integers(a + 1, n)), draw(st.integers(1, 3))]
    else:
        # any start/stop/stride a slice accepts, 'None' spelled out
        b = st.one_of(st.none(), st.integers(-n - 1, n + 1))
        parts = [draw(b), draw(b),
                 draw(st.sampled_from([-1, -1, -2, -3, 1, 2, None]))]
    return dict(strform=fs, dim=base, parts=parts)


def strategy(tier):
    return st.one_of(cases(tier), cases(tier), cases(tier), cases(tier),
                     cases_ioapi(tier), cases(tier), cases_strform(tier))


def enumerate_cases(tier):
    """every combination of selector kinds over <=4 axes x keyword orders on
    one fixed 2x3x2x3 file (thorough: all orders; quick: natural + reversed
    order)"""
    dims = [['t', 2, True], ['z', 3, False], ['y', 2, False], ['x', 3, False]]
    data = list(range(36))
    vars_ = [dict(name='v', dims=['t', 'z', 'y', 'x'], dtype='f4',
                  data=[float(i) for i in data], mask=None, fill=None,
                  attrs={'units': 'ppb'}),
             dict(name='w', dims=['x', 'y', 'z'], dtype='i4',
                  data=list(range(18)), mask=[i % 5 == 0 for i in range(18)],
                  fill=-999, attrs={}),
             dict(name='s', dims=[], dtype='f8', data=[1.5], mask=None,
                  fill=None, attrs={})]
    for v in vars_:
        if v['mask'] is not None:
            v['mask'] = [int(b) for b in v['mask']]
    fs = dict(dims=dims, vars=vars_, gattrs={'title': 'enum'})
    reps = {'int': lambda n: ['int', n - 1], 'nint': lambda n: ['int', -1],
            'slice': lambda n: ['slice', [None, None, -1]],
            'sl1': lambda n: ['slice', [1, None, None]],
            'list': lambda n: ['list', [n - 1, 0, n - 1]],
            'none': None}
    kinds = ['none', 'int', 'nint', 'slice', 'sl1', 'list']
    for combo in itertools.product(kinds, repeat=4):
        sel = []
        nl = 0
        for (dn, n, _), k in zip(dims, combo):
            if k == 'none':
                continue
            if k == 'list':
                nl += 1
            sel.append([dn] + reps[k](n))
        if not sel:
            continue
        if nl >= 2:
            # equal-length by construction: all lists have 3 entries
            pass
        orders = [sel, sel[::-1]]
        if tier == 'thorough' and len(sel) <= 3:
            orders = [list(p) for p in itertools.permutations(sel)]
        for o in orders:
            yield dict(file=fs, sel=o, newdims=None)
    for c in large_cases(tier):
        yield c


def large_cases(tier):
    """variables whose sliced results exceed 1 MiB (and one above 16 MiB):
    an implementation may copy large results block-wise or read them in
    sorted order; every selector kind on the leading, a middle and the last
    axis, alone and combined"""
    shapes = [(48, 80, 90)] + ([(40, 330, 330)] if tier == 'thorough' else [])
    for nt, ny, nx in shapes:
        dims = [['t', nt, True], ['y', ny, False], ['x', nx, False]]
        vars_ = [dict(name='BIG', dims=['t', 'y', 'x'], dtype='f4',
                      gen=99991, mask=None, fill=None, attrs={'units': 'K'}),
                 dict(name='BIGM', dims=['t', 'y', 'x'], dtype='f4',
                      gen=65521, genmask=7, mask=None, fill=-999.0,
                      attrs={}),
                 dict(name='t', dims=['t'], dtype='f8',
                      data=[float(i) for i in range(nt)], mask=None,
                      fill=None, attrs={}),
                 dict(name='XY', dims=['x', 'y'], dtype='i4', gen=1000,
                      mask=None, fill=None, attrs={})]
        fs = dict(dims=dims, vars=vars_, gattrs={'title': 'large'})
        per = {
            't': [['slice', [12, nt - 4, None]], ['slice', [1, None, 2]],
                  ['slice', [None, None, -1]], ['int', 5], ['int', -1],
                  ['list', [3, 0, 2, 2, 1] + list(range(nt - 1, 10, -1))],
                  ['list', list(range(2, nt - 2))]],
            'y': [['slice', [2, ny - 5, None]], ['slice', [None, None, -1]],
                  ['list', list(range(ny - 1, 3, -1)) + [0, 0]]],
            'x': [['slice', [3, None, None]], ['slice', [None, -2, 1]],
                  ['list', [5, 1] + list(range(10, nx - 2))]]}
        for d, sels in per.items():
            for s1 in sels:
                yield dict(file=fs, sel=[[d] + s1], newdims=None, large=1)
        for st_ in per['t'][:4]:
            for sy in per['y'][:2]:
                yield dict(file=fs, sel=[['y'] + sy, ['t'] + st_],
                           newdims=None, large=1)


# ------------------------------------------------------------------ oracle
def to_selector(kind, val):
    if kind == 'int':
        return int(val)
    if kind == 'slice':
        return slice(*val)
    return [int(i) for i in val]


def ortho(a, axis, kind, val):
    """orthogonal selection on one axis of a plain ndarray, axis retained"""
    if kind == 'int':
        return np.take(a, [int(val)], axis=axis)
    if kind == 'slice':
        idx = [slice(None)] * a.ndim
        idx[axis] = slice(*val)
        return a[tuple(idx)]
    return np.take(a, [int(i) for i in val], axis=axis)


def sel_size(n, kind, val):
    return ortho(np.arange(n), 0, kind, val).size


def expected_var(dims, arr, sel, zdims, newdim):
    """arr: plain ndarray.  Returns (dims_out, arr_out)."""
    vz = [d for d in dims if d in zdims]
    if len(vz) < 2:
        out = arr
        for ax, d in enumerate(dims):
            if d in sel:
                out = ortho(out, ax, *sel[d])
        return tuple(dims), out
    out = arr
    for ax, d in enumerate(dims):
        if d in sel and d not in vz:
            out = ortho(out, ax, *sel[d])
    npts = len(sel[vz[0]][1])
    first = min(dims.index(d) for d in vz)
    pts = []
    for k in range(npts):
        idx = tuple(int(sel[d][1][k]) if d in vz else slice(None)
                    for d in dims)
        pts.append(out[idx])
    # axes before `first` are all retained, so the new axis index is `first`
    stacked = np.stack(pts, axis=first)
    odims = [d for d in dims if d not in vz]
    odims.insert(first, newdim)
    return tuple(odims), stacked


def check_ioapi(case):
    """IOAPI override: same oracle on the data variables plus the time-flag
    variable (TSTEP, VAR, DATE-TIME), which must follow the TSTEP selection
    element for element"""
    from .. import ioapispec as IO
    r = Result()
    sp = case['ioapi']
    mod = IO.model(sp)
    f = IO.build(sp)
    sel = S.OD()
    for d, kind, val in case['sel']:
        sel[d] = (kind, val)
    lists = [d for d, (k, v) in sel.items() if k == 'list']
    zdims = lists if len(lists) >= 2 else []
    kw = S.OD((d, to_selector(k, v)) for d, (k, v) in sel.items())
    r.label('route:ioapi-' + sp['route'])
    for d, (k, v) in sel.items():
        r.label('ioapi-sel:%s:%s' % (d, k))
    if 'TSTEP' in sel and sel['TSTEP'][0] == 'list':
        v = [x % sp['nt'] for x in sel['TSTEP'][1]]
        if len(v) > 2 and len(set(np.diff(v))) > 1:
            r.label('ioapi-tstep-list-uneven')
    if zdims:
        r.label('ioapi-zipped-rowcol')
    r.nontrivial = True
    # descriptive attributes (not the defaults derived from the variable
    # name): they must be carried over like any other attribute
    descr = {}
    for i, name in enumerate(mod.varnames):
        v = f.variables[name]
        descr[name] = dict(long_name=('LN %d %s' % (i, name))[:16].ljust(16),
                           units=('unit%d' % i).ljust(16),
                           var_desc=('description of %s' % name).ljust(80))
        for k, val in descr[name].items():
            setattr(v, k, val)
    ok, out = guard(r, 'ioapi-slice-raises',
                    lambda: f.sliceDimensions(**kw))
    if not ok:
        return r
    for msg in S.wellformed(out, 'result'):
        r.fail('ioapi-result-malformed', msg)
    if r.failures:
        return r
    dims = list(IO.STD_DIMS[1])
    for name in mod.varnames:
        data = mod.data(name)
        odims, edata = expected_var(dims, data, sel, zdims, 'POINTS')
        if name not in out.variables:
            r.fail('ioapi-var-missing', 'variable %s missing' % name)
            continue
        ov = out.variables[name]
        if tuple(ov.dimensions) != tuple(odims):
            r.fail('ioapi-var-dims', 'variable %s has dimensions %r, '
                   'expected %r' % (name, tuple(ov.dimensions), odims))
            continue
        msg = S.cmp_array(ov, edata, 'variable %s%r' % (name, tuple(dims)),
                          bits=True, check_dtype=False)
        if msg:
            r.fail('ioapi-var-data', msg)
        for k, val in descr[name].items():
            got = getattr(ov, k, None)
            if got != val:
                r.fail('ioapi-var-attrs', 'variable %s attribute %s = %r '
                       'after slicing, was %r' % (name, k, got, val),
                       klass=k)
    # time flags: rows follow the TSTEP selection exactly
    if 'TFLAG' in out.variables:
        tf = np.asarray(out.variables['TFLAG'][...])
        exp = mod.tflag
        if 'TSTEP' in sel:
            exp = ortho(exp, 0, *sel['TSTEP'])
        if tf.ndim != 3 or tf.shape[0] != exp.shape[0] or tf.shape[2] != 2:
            r.fail('ioapi-tflag-shape', 'TFLAG shape %r, expected (%d, *, 2)'
                   % (tf.shape, exp.shape[0]))
        else:
            for vi in range(tf.shape[1]):
                if not np.array_equal(tf[:, vi, :].astype('i8'), exp):
                    r.fail('ioapi-tflag-rows', 'TFLAG[:, %d] = %s, the '
                           'selected steps are %s' % (
                               vi, tf[:, vi, :].tolist(), exp.tolist()),
                           klass=sel.get('TSTEP', ('none',))[0])
                    break
    else:
        r.fail('ioapi-tflag-missing', 'result has no TFLAG')
    return r


def check_strform(case):
    from PseudoNetCDF.core._functions import slice_dim
    r = Result()
    fs = case['strform']
    m = S.model_of(fs)
    f = S.build_file(fs)
    dim = case['dim']
    parts = case['parts']
    text = ','.join([dim] + [str(p) for p in parts])
    r.label('route:strform', 'strform:%d-args' % len(parts))
    r.nontrivial = True
    ok, out = guard(r, 'strform-raises', lambda: slice_dim(f, text))
    if not ok:
        return r
    for msg in S.wellformed(out, 'result'):
        r.fail('strform-malformed', msg)
    if r.failures:
        return r
    if len(parts) == 1:
        sl = slice(parts[0], parts[0] + 1)
    else:
        sl = slice(*parts)
    n = m.dims[dim][0]
    for d, (l, u) in m.dims.items():
        want = len(range(n)[sl]) if d == dim else l
        if d not in out.dimensions or len(out.dimensions[d]) != want:
            r.fail('strform-dim-length', 'dimension %s has length %s, '
                   'expected %d after slice_dim(f, %r)' % (
                       d, len(out.dimensions[d]) if d in out.dimensions
                       else None, want, text),
                   klass='selected' if d == dim else 'other')
    for name, mv in m.vars.items():
        if name not in out.variables:
            r.fail('strform-var-missing', 'variable %s missing' % name)
            continue
        exp = np.asarray(mv.data)
        if dim in mv.dims:
            idx = [slice(None)] * exp.ndim
            idx[mv.dims.index(dim)] = sl
            exp = exp[tuple(idx)]
        ov = out.variables[name]
        if tuple(ov.dimensions) != tuple(mv.dims):
            r.fail('strform-var-dims', 'variable %s dims %r, expected %r' % (
                name, tuple(ov.dimensions), mv.dims))
            continue
        msg = S.cmp_array(ov, exp, 'variable %s%r' % (name, mv.dims),
                          bits=True, check_mask=False)
        if msg:
            r.fail('strform-var-data', msg,
                   klass='sliced' if dim in mv.dims else 'untouched')
    return r


def check_case(case):
    if 'ioapi' in case:
        return check_ioapi(case)
    if 'strform' in case:
        return check_strform(case)
    r = Result()
    fs = case['file']
    m = S.model_of(fs)
    f = S.build_file(fs)
    sel = S.OD()
    for d, kind, val in case['sel']:
        sel[d] = (kind, val)
    lists = [d for d, (k, v) in sel.items() if k == 'list']
    zdims = lists if len(lists) >= 2 else []
    newdim = (case.get('newdims') or ['POINTS'])[0]
    kw = S.OD((d, to_selector(k, v)) for d, (k, v) in sel.items())
    if case.get('newdims'):
        kw['newdims'] = tuple(case['newdims'])
    route = case.get('route', 'memory')
    r.label('route:' + route)
    disk = None
    if route == 'disk':
        import gc
        from .. import libstate
        from PseudoNetCDF.core._files import netcdf
        path = libstate.scratch_path('.nc')
        o = f.save(path, format='NETCDF4', verbose=0)
        libstate.release(o)
        del o
        gc.collect()
        f = disk = netcdf(path)
    try:
        ok, out = guard(r, 'slice-raises', lambda: f.sliceDimensions(**kw))
        if ok:
            # realise lazily read data before the source is closed
            for k in out.variables.keys():
                out.variables[k][...]
    finally:
        if disk is not None:
            libstate.release(disk)
            del disk, f
            gc.collect()
            import os
            os.remove(path)
    # ---- labels / non-triviality
    kinds = set(k for k, v in sel.values())
    r.label(*['sel:' + k for k in sorted(kinds)])
    if case.get('large'):
        r.label('result>1MiB')
    nt = False
    for mv in m.vars.values():
        ks = set(sel[d][0] for d in mv.dims if d in sel)
        if len(ks) >= 2:
            nt = True
            r.label('var-mixed-kinds')
        if len([d for d in mv.dims if d in zdims]) >= 2:
            r.label('var-zipped')
        if mv.masked and any(d in sel for d in mv.dims):
            r.label('masked-sliced')
    for d, (k, v) in sel.items():
        n = m.dims[d][0]
        if k == 'int' and v < 0:
            nt = True
            r.label('neg-int')
        if k == 'slice':
            if sel_size(n, k, v) == 0:
                nt = True
                r.label('empty-slice')
            if v[2] is not None and v[2] < 0:
                nt = True
                r.label('reversed-slice')
        if k == 'list' and len(set(x % n for x in v)) < len(v):
            nt = True
            r.label('list-repeat')
    if zdims:
        nt = True
        r.label('zipped')
    r.nontrivial = nt
    if not ok:
        return r
    # ---- well-formedness of the result (cheap, avoids cascades)
    for msg in S.wellformed(out, 'result'):
        r.fail('result-malformed', msg)
    if r.failures:
        return r
    # ---- dimensions
    for d, (n, u) in m.dims.items():
        if d not in out.dimensions:
            if d in zdims:
                continue
            r.fail('dim-missing', 'dimension %s missing from result' % d)
            continue
        want = sel_size(n, *sel[d]) if d in sel else n
        if len(out.dimensions[d]) != want:
            r.fail('dim-length', 'dimension %s has length %d, selection '
                   'size is %d' % (d, len(out.dimensions[d]), want))
    # ---- variables
    if list(out.variables.keys()) != list(m.vars.keys()):
        r.fail('var-names', 'variables %r, expected %r' % (
            list(out.variables.keys()), list(m.vars.keys())))
        return r
    for name, mv in m.vars.items():
        data = np.asarray(np.ma.getdata(mv.data))
        odims, edata = expected_var(list(mv.dims), data, sel, zdims, newdim)
        if mv.masked:
            _, emask = expected_var(list(mv.dims),
                                    np.ma.getmaskarray(mv.data), sel, zdims,
                                    newdim)
            exp = np.ma.MaskedArray(edata, mask=emask)
        else:
            exp = edata
        ov = out.variables[name]
        touched = any(d in sel for d in mv.dims)
        tag = 'sliced' if touched else 'untouched'
        if tuple(ov.dimensions) != tuple(odims):
            r.fail('var-dims-' + tag, 'variable %s has dimensions %r, '
                   'expected %r' % (name, tuple(ov.dimensions), odims))
            continue
        klass = ''
        if touched:
            ks = sorted(set(sel[d][0] for d in mv.dims if d in sel))
            klass = '+'.join(ks) + ('/zip' if len(
                [d for d in mv.dims if d in zdims]) >= 2 else '')
        msg = S.cmp_array(ov, exp, 'variable %s%r' % (name, mv.dims),
                          bits=True)
        if msg:
            r.fail('var-data-' + tag, msg, klass=klass)
        msg = S.cmp_attrs(ov, mv.attrs, 'variable %s' % name,
                          skip=('fill_value', '_FillValue',
                                'missing_value'))
        if msg:
            r.fail('var-attrs', msg)
    msg = S.cmp_attrs(out, m.gattrs, 'file')
    if msg:
        r.fail('global-attrs', msg)
    return r
