"""C16 - value-to-index lookup returns the containing or nearest cell.

Generator: strictly monotonic dyadic coordinates (either direction, uniform
or not), three bounds representations, every method / bounds / clean /
left-right option, queries placed on and one ulp around every centre, edge
and midpoint and outside the domain; datetime front-end (time2idx) on a CF
time axis.  Oracle: brute-force search over cells / centres with explicit
accepted sets (DESIGN 7 C16)."""
import datetime as dt
import io
import math
import sys
import warnings

import numpy as np
from hypothesis import strategies as st

from ..core import Result, attempt, exc_where
from .. import known

ID = 'C16'
LEVEL = 'exploration'
RULE = (
    'Hypothesis: 1-D coordinate of n=2..40 (70% 2-8, 20% 9-20, 10% 21-40) '
    'dyadic rationals (multiples of '
    '1/4), ascending or descending, uniform or non-uniform, stored f8, f4 or '
    '(scaled to whole numbers) i4; '
    'bounds representation none / 1-D edges (n+1) / n x 2 (edges at '
    '1/4,1/2,3/4 of each gap, outer edges beyond the end centres; found via '
    '<dim>_bounds, <dim>_bnds or the bounds attribute); method nearest / '
    'bounds / exact x bounds ignore / warn / error x clean none / mask x '
    'left,right in {None, nan}; 1-30 queries (array or scalar; 5/6 of the '
    'cases 1-10, 1/6 11-24 distinct picks; in 2/3 of the array cases 1-12 of '
    'the picked values are deliberately repeated at arbitrary positions - '
    'centres, non-centres and out-of-range values alike, every method) '
    'drawn from: '
    'every centre, edge, midpoint, nextafter on both sides of each of them, '
    'just outside and far outside both ends, interior dyadic points.  A '
    'fresh in-memory file is built for every call.  quick also enumerates '
    'all 2^k direction x uniformity x bounds-kind x method grids for n<=4 '
    'with the full query pool.  Datetime front-end: CF time axis (hours '
    'since a reference), time2idx with datetimes at multiples of 1/64 h.  '
    'Oracle (brute force): nearest -> any index minimising |v-c_i| (either '
    'on an exact tie), judged for v inside the hull of the centres; outside '
    'it the end index or, where left/right=nan and clean=mask, masked.  '
    'bounds with a bounds variable -> any i with lo_i<=v<=hi_i (either '
    'neighbour on an interior edge, outer edges belong to the end cells); '
    'without a bounds variable only v strictly inside a midpoint cell is '
    'judged.  exact -> index of the equal centre, masked otherwise.  Values '
    'outside every reading of the domain: bounds=error must raise, '
    'bounds=warn must emit a warning (captured on stderr, where '
    'pncwarn writes), left/right=nan & clean=mask must mask; never an '
    'interior index; no unmasked index outside 0..n-1 (entries for which '
    'the caller asked for raw nan with clean=none are not judged); '
    'when every query lies in the certain domain (cells of the bounds '
    'variable if there is one, for any method; half-cell extension for '
    'method=bounds on a uniform coordinate without one; else the hull of '
    'the centres) bounds=error must not raise the out-of-bounds rejection '
    'and bounds=warn must not emit an out-of-bounds warning; queries '
    'between the end centres and the outer edges are forced into half of '
    'the in-domain-only cases.  time2idx queries are the same instants '
    'given as naive, UTC-aware, or aware datetimes with offsets -06:00, '

    '+05:30, +09:00, -11:00, +05:45, +01:00 (the instant decides the cell); in half of the datetime cases the '
    'looked-up dimension is called tstep or date and the file also holds a '
    'differently based variable named time.  One case in three gives the '
    'coordinate a bounds attribute that names a non-existent variable '
    'while <dim>_bounds / <dim>_bnds exists (the conventional variable '
    'still applies).  One third of the datetime cases are '
    'two-phase on ONE file object: after the first lookup the time '
    'variable\'s units attribute (unit word hours/minutes/seconds and/or '
    'reference date moved by 0 h .. 366 d) and values (and bounds values) '
    'are rewritten in place - same instants or moved ones - and the lookup '
    'is repeated; the second lookup is judged by the same oracle on the '
    'axis as it is then.  Comparison is exact except inside an explicit, '
    'tight floating-point band at decision points: a query within tol = 8 '
    'eps x (largest |coordinate| + (n+1) x widest cell) (+ twice the '
    'disagreement of shared n x 2 vertices) of a cell edge / within 2 tol '
    'of an exact tie may take either neighbour (label '
    'accepted-by-ulp-leniency); tol is about 1e-12 of a cell, the '
    'fractional-index noise measured on the unchanged tree is < 2e-15 of a '
    'cell (< 0.04 tol).  Queries at every edge/midpoint -+ cell width x '
    '{1e-9, 1e-7, 1e-6, 1e-5, 1e-4} lie outside the band and must land in '
    'the right cell.  One value-lookup case in seven uses a non-dyadic axis '
    '(step 0.1/0.7/0.3/1.1/0.05, or layers stretched by 1.05-1.3) whose n x '
    '2 bounds are written as centre -+ half width in float64 or float32, so '
    'adjacent rows share a vertex only up to rounding; the edge array is '
    'then first vertices + last second vertex as documented.  One case in '
    'eight (value lookups and time2idx on int32 epoch seconds) uses an '
    'integer coordinate (int16/int32/int64) within 0-7 of the top or bottom '
    'of its type\'s range (int64: 2^50, kept exact in float64), steps 1 .. '
    '86400, both directions: arithmetic in the coordinate\'s own type would '
    'wrap there, and an in-domain query must not be rejected; a ValueError '
    '"neither ascending nor descending" for these by-construction strictly '
    'monotonic coordinates is a violation (other raises stay counted).  Non-trivial: descending, or non-uniform, or a query '
    'within 1 ulp of an edge/midpoint.  Distinct by sha1 of the case spec.')
ASSUMPTIONS = ['IEEE double arithmetic and numpy comparison are the '
               'reference for "contains"/"closest"',
               'masked coordinates are outside the generated domain; a raise '
               'other than the requested out-of-bounds rejection is counted, '
               'not judged (R3)']
BUDGET = {'quick': dict(examples=14400, max_s=200),
          'thorough': dict(examples=600000, max_s=2400)}

Q = 0.25   # coordinate quantum
CODE = {'f8': 'd', 'f4': 'f', 'i4': 'i', 'i2': 'h', 'i8': 'q'}
NEAR = (1e-9, 1e-7, 1e-6, 1e-5, 1e-4)   # fractions of a cell width
# UTC offsets (minutes) of timezone-aware query datetimes
TZ_OFFSETS = [-360, 330, 540, -660, 345, 60, 0]


# ------------------------------------------------------------------ strategy
def _pool(coord, edges):
    """structural query points: (value, tag)"""
    c = [float(x) for x in coord]
    n = len(c)
    pts = []
    for x in c:
        pts.append((x, 'centre'))
    mids = [(c[i] + c[i + 1]) / 2 for i in range(n - 1)]
    for x in mids:
        pts.append((x, 'midpoint'))
    es = [float(x) for x in edges] if edges is not None else []
    for x in es:
        pts.append((x, 'edge'))
    for x in list(c) + mids + es:
        pts.append((math.nextafter(x, math.inf), 'ulp'))
        pts.append((math.nextafter(x, -math.inf), 'ulp'))
    lo = min(c + es)
    hi = max(c + es)
    span = hi - lo
    for x in (lo - 10 * span - 1, hi + 10 * span + 1, lo - Q / 2, hi + Q / 2,
              lo - 1e6, hi + 1e6):
        pts.append((x, 'outside'))
    # half-cell extensions of the no-bounds approximation
    pts.append((c[0] - (c[1] - c[0]) / 2, 'ext-edge'))
    pts.append((c[-1] + (c[-1] - c[-2]) / 2, 'ext-edge'))
    pts.append((c[0] - (c[1] - c[0]) / 4, 'ext-inside'))
    pts.append((c[-1] + (c[-1] - c[-2]) / 4, 'ext-inside'))
    for i in range(n - 1):
        for fr in (0.125, 0.375, 0.625, 0.875):
            pts.append((c[i] + fr * (c[i + 1] - c[i]), 'interior'))
    # a cell width x {1e-9 .. 1e-4} on either side of every decision point:
    # far outside the floating-point band of the oracle (measured on the
    # unchanged tree: the fractional-index noise is < 2e-15 of a cell), so
    # these must land in the right cell
    dps = es if es else mids
    for j, x in enumerate(dps):
        for side in (-1, 1):
            jj = j + (0 if side > 0 else -1)
            if es:
                if not 0 <= jj < len(es) - 1:
                    continue
                w = abs(es[jj + 1] - es[jj])
            else:
                w = abs(c[min(j + 1, n - 1)] - c[j]) / 2
            sgn = side * (1 if c[1] > c[0] else -1)
            for fr in NEAR:
                pts.append((x + sgn * w * fr, 'near-edge'))
    if es:
        for j, x in enumerate(mids):
            w = abs(c[j + 1] - c[j])
            for fr in NEAR:
                pts.append((x + w * fr, 'near-edge'))
                pts.append((x - w * fr, 'near-edge'))
    # between the end centres and the outer edges of a bounds variable
    if es:
        for cc, ee in ((c[0], es[0]), (c[-1], es[-1])):
            for fr in (0.25, 0.5, 0.75):
                pts.append((cc + fr * (ee - cc), 'end-half'))
    return pts


@st.composite
def coords(draw, nmin=2, nmax=8):
    # most cases small (shrinkable, cheap); a fixed share of long coordinates
    # (up to 40 points) so that size-dependent code paths in numpy / the
    # library (sort-based membership, searchsorted) are reached
    size = draw(st.sampled_from(['small'] * 7 + ['medium', 'medium',
                                                  'long']))
    if size == 'small':
        n = draw(st.integers(nmin, nmax))
    elif size == 'medium':
        n = draw(st.integers(9, 20))
    else:
        n = draw(st.integers(21, 40))
    start = draw(st.integers(-40, 40)) * Q
    uniform = draw(st.booleans())
    if uniform:
        s = draw(st.sampled_from([1, 2, 3, 4, 6, 8, 12, 20]))
        steps = [s] * (n - 1)
    else:
        steps = draw(st.lists(st.sampled_from([1, 2, 3, 4, 5, 6, 8, 12, 40]),
                              min_size=n - 1, max_size=n - 1))
    c = [start]
    for s in steps:
        c.append(c[-1] + s * Q)
    desc = draw(st.sampled_from([False, False, False, True, True]))
    if desc:
        c = c[::-1]
    return c


@st.composite
def decimal_axis(draw):
    """non-dyadic coordinate with n x 2 bounds written the way data
    producers write them: centre -+ half a step (step 0.1, 0.7, ...) or
    layer mid-point -+ thickness / 2 of stretched layers, computed in float64
    or float32 - adjacent rows then share a vertex only up to rounding.
    Returns (centres, rows) in coordinate order, rows[i] = [first, second]
    vertex in the direction of the coordinate."""
    n = draw(st.sampled_from([2, 3, 4, 5, 6, 8, 12, 20, 33]))
    ft = np.float32 if draw(st.booleans()) else np.float64
    start = ft(draw(st.integers(-40, 40)) * Q)
    if draw(st.booleans()):
        step = ft(draw(st.sampled_from([0.1, 0.7, 0.3, 1.1, 0.05])))
        c = [start + ft(i) * step for i in range(n)]
        rows = [[x - step / ft(2), x + step / ft(2)] for x in c]
        style = 'decimal-uniform'
    else:
        t0 = ft(draw(st.sampled_from([0.1, 0.3, 0.7])))
        g = ft(draw(st.sampled_from([1.1, 1.3, 1.05])))
        z = [start]
        for i in range(n):
            z.append(z[-1] + t0 * g ** ft(i))
        c = [(z[i] + z[i + 1]) / ft(2) for i in range(n)]
        rows = [[c[i] - (z[i + 1] - z[i]) / ft(2),
                 c[i] + (z[i + 1] - z[i]) / ft(2)] for i in range(n)]
        style = 'decimal-stretched'
    c = [float(x) for x in c]
    rows = [[float(a), float(b)] for a, b in rows]
    if draw(st.sampled_from([False, False, True])):
        c = c[::-1]
        rows = [[b, a] for a, b in rows[::-1]]
    return c, rows, style + ('/f4' if ft is np.float32 else '/f8')


@st.composite
def edges_for(draw, c):
    """n+1 edges enclosing the centres, same direction, dyadic"""
    n = len(c)
    sign = 1.0 if c[1] > c[0] else -1.0
    style = draw(st.sampled_from(['mid', 'mid', 'frac']))
    e = []
    for i in range(n - 1):
        fr = 0.5 if style == 'mid' else draw(st.sampled_from([0.25, 0.5,
                                                              0.75]))
        e.append(c[i] + fr * (c[i + 1] - c[i]))
    first = c[0] - sign * draw(st.sampled_from([1, 2, 3, 8])) * Q / 2
    last = c[-1] + sign * draw(st.sampled_from([1, 2, 3, 8])) * Q / 2
    if style == 'mid':
        first = c[0] - (c[1] - c[0]) / 2
        last = c[-1] + (c[-1] - c[-2]) / 2
    return [first] + e + [last]


def _with_repeats(draw, idx, kmax=30):
    """deliberately repeat some of the chosen query entries (array lookups
    with duplicated values), inserted at arbitrary positions"""
    if len(idx) < 1 or draw(st.integers(0, 2)) == 0:
        return idx
    nrep = draw(st.integers(1, max(1, min(12, kmax - len(idx)))))
    idx = list(idx)
    for _ in range(nrep):
        if len(idx) >= kmax:
            break
        src = idx[draw(st.integers(0, len(idx) - 1))]
        idx.insert(draw(st.integers(0, len(idx))), src)
    return idx


def _nqueries(draw, small_max):
    """mostly short query arrays, a share of long ones (up to 30)"""
    if draw(st.integers(0, 5)) == 0:
        return draw(st.integers(small_max + 1, 24))
    return draw(st.integers(1, small_max))


@st.composite
def cases(draw, tier='quick'):
    kind = draw(st.sampled_from(['val'] * 7 + ['time']))
    rows = None
    cstyle = 'dyadic'
    tunit = None
    if draw(st.integers(0, 7)) == 0:
        # integer-typed coordinate close to the limits of its type (int32
        # epoch seconds near 2038 / 1901, int16 heights near 32767, ...):
        # arithmetic in the coordinate's own type would wrap
        cdtype = draw(st.sampled_from(['i2', 'i4', 'i4', 'i8']))
        if kind == 'time':
            cdtype = 'i4'
            tunit = 'seconds'
        top = {'i2': 2 ** 15 - 1, 'i4': 2 ** 31 - 1, 'i8': 2 ** 50}[cdtype]
        n = draw(st.sampled_from([2, 3, 4, 5, 8, 12]))
        steps = draw(st.lists(st.sampled_from(
            [1, 2, 3, 5, 8, 60] + ([] if cdtype == 'i2' else [3600, 86400])),
            min_size=n - 1, max_size=n - 1))
        if draw(st.booleans()):
            steps = [steps[0]] * (n - 1)
        gap = draw(st.sampled_from([0, 0, 1, 7]))
        side = draw(st.sampled_from(['top', 'top', 'bottom']))
        c = [top - gap]
        for st_ in steps:
            c.append(c[-1] - st_)
        if side == 'bottom':
            c = [-x - 1 for x in c]
        if draw(st.booleans()):
            c = c[::-1]
        c = [float(x) for x in c]
        cstyle = 'int-near-%s-of-type' % side
        bkind = draw(st.sampled_from(['none', 'none', 'none', 'edges',
                                      'nx2']))
        edges = draw(edges_for(c)) if bkind != 'none' else None
    elif kind == 'val' and draw(st.integers(0, 6)) == 0:
        c, rows, cstyle = draw(decimal_axis())
        cdtype = 'f4' if cstyle.endswith('/f4') else 'f8'
        bkind = draw(st.sampled_from(['nx2', 'nx2', 'nx2', 'edges', 'none']))
        if bkind == 'none':
            # approximated bounds are formed in the stored dtype: keep f8
            cdtype = 'f8'
        # the edge array as the library documents it for n x 2 bounds:
        # first vertices + last second vertex
        edges = [r_[0] for r_ in rows] + [rows[-1][1]] \
            if bkind != 'none' else None
        if bkind != 'nx2':
            rows = None
    else:
        c = draw(coords())
        cdtype = draw(st.sampled_from(['f8', 'f8', 'f8', 'f4', 'f4', 'i4']))
        if cdtype == 'i4':
            # integer-typed coordinate: scale the quarters to whole numbers
            c = [x * 4 for x in c]
        bkind = draw(st.sampled_from(['none', 'none', 'edges', 'nx2']))
        edges = draw(edges_for(c)) if bkind != 'none' else None
    method = draw(st.sampled_from(['nearest', 'nearest', 'bounds', 'bounds',
                                   'exact']))
    spec = dict(kind=kind, coord=c, cdtype=cdtype, bkind=bkind, edges=edges,
        rows=rows, cstyle=cstyle,
        **({'tunit': tunit} if tunit else {}))
    spec.update(dict(
        bname=draw(st.sampled_from(['_bounds', '_bnds', 'attr'])),
        method=method, bounds=draw(st.sampled_from(
            ['ignore', 'warn', 'warn', 'error'])),
        clean=draw(st.sampled_from(['mask', 'mask', 'none'])),
        left=draw(st.sampled_from([None, None, 'nan'])),
        right=draw(st.sampled_from([None, None, 'nan'])),
        dangling=draw(st.sampled_from([False, False, True]))))
    if kind == 'time':
        spec['tdim'] = draw(st.sampled_from(['time', 'time', 'tstep',
                                             'date']))
        # time axis: the coordinate is in hours; queries at multiples of
        # 1/64 h (= 56.25 s, whole microseconds)
        if spec['cdtype'] == 'f4':
            spec['cdtype'] = 'f8'
        spec['ref'] = [draw(st.integers(1950, 2050)), draw(st.integers(1, 12)),
                       draw(st.integers(1, 28)), draw(st.integers(0, 23))]
        if tunit == 'seconds':
            # epoch seconds in the coordinate's integer type
            spec['ref'] = [1970, 1, 1, 0]
        pool = []
        allc = list(c) + (edges or [])
        mids = [(c[i] + c[i + 1]) / 2 for i in range(len(c) - 1)]
        for x in allc + mids:
            pool += [x, x - 1 / 64., x + 1 / 64.]
        pool += [min(allc) - 50, max(allc) + 50]
        # cell width x {1e-6, 1e-5, 1e-4} around the decision points,
        # snapped to whole microseconds
        for x, tag in (_pool(c, edges) if tunit is None else []):
            if tag == 'near-edge':
                xs_ = round(x * 3600e6) / 3600e6
                if abs(xs_ - x) * 50 < min(abs(xs_ - y) for y in allc + mids):
                    pool.append(xs_)
        k = _nqueries(draw, 8)
        idx = draw(st.lists(st.integers(0, len(pool) - 1), min_size=k,
                            max_size=k))
        idx = _with_repeats(draw, idx)
        spec['queries'] = [pool[i] for i in idx]
        spec['scalar'] = False
        qtz = draw(st.sampled_from(['naive', 'utc', 'offsets', 'offsets']))
        if qtz == 'offsets':
            qtz = [draw(st.sampled_from(TZ_OFFSETS)) for _ in idx]
        spec['qtz'] = qtz
        if tunit is None and draw(st.integers(0, 2)) == 0:
            # two-phase history on one file object (see check_case)
            spec['phase2'] = dict(
                tunit=draw(st.sampled_from(['hours', 'minutes', 'seconds'])),
                shift_h=draw(st.sampled_from([0, 1, -5, 24, 24 * 59,
                                              -24 * 366])),
                instants=draw(st.sampled_from(['same', 'moved'])))
        return spec
    pool = _pool(c, edges)
    k = _nqueries(draw, 10)
    # inside-only cases keep bounds=error / warn paths reachable
    inside_only = draw(st.integers(0, 2)) == 0
    if inside_only:
        # the certain domain (same rule as the oracle): bounds-variable
        # cells, or the half-cell extension for method='bounds' on a uniform
        # coordinate, else the hull of the centres
        lo, hi = min(c), max(c)
        d = [c[i + 1] - c[i] for i in range(len(c) - 1)]
        if edges is not None:
            lo, hi = min(edges + c), max(edges + c)
        elif method == 'bounds' and all(x == d[0] for x in d):
            lo, hi = lo - abs(d[0]) / 2, hi + abs(d[0]) / 2
        pool = [p for p in pool if lo <= p[0] <= hi]
    idx = draw(st.lists(st.integers(0, len(pool) - 1), min_size=k,
                        max_size=k))
    if inside_only and draw(st.booleans()):
        # make the half cells beyond the end centres well represented
        ends = [i for i, p in enumerate(pool)
                if p[1] in ('end-half', 'ext-inside', 'ext-edge', 'edge') and
                not (min(c) <= p[0] <= max(c))]
        if ends:
            idx[draw(st.integers(0, k - 1))] = draw(st.sampled_from(ends))
    if not inside_only and draw(st.booleans()):
        outs = [i for i, p in enumerate(pool) if p[1] in ('outside',
                                                          'ext-edge')]
        idx[draw(st.integers(0, k - 1))] = draw(st.sampled_from(outs))
    scalar = (k == 1 and draw(st.booleans()))
    if not scalar:
        idx = _with_repeats(draw, idx)
    spec['queries'] = [pool[i][0] for i in idx]
    spec['scalar'] = scalar
    return spec


def strategy(tier):
    return cases(tier)


def enumerate_cases(tier):
    """n<=4 grids x direction x bounds kind x method with the full pool"""
    layouts = [[0.0, 1.0], [0.0, 1.0, 2.0], [0.0, 0.5, 2.0],
               [1.0, 2.0, 3.0, 4.0], [-1.0, 0.0, 2.5, 3.0]]
    for base in layouts:
        for desc in (False, True):
            c = base[::-1] if desc else base
            n = len(c)
            mid_edges = [c[0] - (c[1] - c[0]) / 2] + \
                [(c[i] + c[i + 1]) / 2 for i in range(n - 1)] + \
                [c[-1] + (c[-1] - c[-2]) / 2]
            for bkind in ('none', 'edges', 'nx2'):
                edges = mid_edges if bkind != 'none' else None
                pool = [p[0] for p in _pool(c, edges)]
                for method in ('nearest', 'bounds', 'exact'):
                    for bounds, clean, lr in (('ignore', 'mask', None),
                                              ('ignore', 'mask', 'nan'),
                                              ('warn', 'none', None)):
                        yield dict(kind='val', coord=c, cdtype='f8',
                                   bkind=bkind, edges=edges, bname='_bounds',
                                   method=method, bounds=bounds, clean=clean,
                                   left=lr, right=lr, queries=pool,
                                   scalar=False)


# ------------------------------------------------------------------ build
def build(spec):
    from PseudoNetCDF import PseudoNetCDFFile
    dim = spec.get('tdim', 'time') if spec['kind'] == 'time' else 'x'
    code = CODE[spec['cdtype']]
    c = np.array(spec['coord'], dtype=code)
    f = PseudoNetCDFFile()
    if spec['kind'] == 'time' and dim != 'time':
        # the file also holds a differently based variable called 'time';
        # the lookup is on `dim` and must use that coordinate's units
        f.createDimension('time', 2)
        tv = f.createVariable('time', 'd', ('time',))
        tv[:] = [0., 1.]
        tv.units = 'days since 1900-01-01 00:00:00'
    f.createDimension(dim, c.size)
    v = f.createVariable(dim, code, (dim,))
    v[:] = c
    if spec['kind'] == 'time':
        y, mo, d, h = spec['ref']
        v.units = '%s since %04d-%02d-%02d %02d:00:00' % (
            spec.get('tunit', 'hours'), y, mo, d, h)
    else:
        v.units = 'm'
    if spec['bkind'] != 'none':
        ecode = 'd' if code in 'ihq' else code
        e = np.array(spec['edges'], dtype=ecode)
        bname = dim + spec['bname'] if spec['bname'] != 'attr' else 'cell_e'
        if spec['bname'] == 'attr':
            v.bounds = bname
        elif spec.get('dangling'):
            # bounds attribute naming a variable that does not exist: the
            # conventional <dim>_bounds / <dim>_bnds variable still applies
            v.bounds = 'no_such_bounds_variable'
        if spec['bkind'] == 'edges':
            f.createDimension('ne', e.size)
            bv = f.createVariable(bname, ecode, ('ne',))
            bv[:] = e
        else:
            f.createDimension('nv', 2)
            bv = f.createVariable(bname, ecode, (dim, 'nv'))
            if spec.get('rows'):
                bv[:] = np.array(spec['rows'], dtype=ecode)
            else:
                bv[:] = np.array([e[:-1], e[1:]]).T
    return f, dim


TUNIT_US = {'hours': 3600e6, 'minutes': 60e6, 'seconds': 1e6}


def rebase(f, spec):
    """rewrite the time axis of an existing file object in place: values
    and units attribute of the time variable (and the values of its bounds
    variable) as described by `spec`"""
    code = CODE[spec['cdtype']]
    tdim = spec.get('tdim', 'time')
    v = f.variables[tdim]
    v[:] = np.array(spec['coord'], dtype=code)
    y, mo, d, h = spec['ref']
    v.units = '%s since %04d-%02d-%02d %02d:00:00' % (
        spec.get('tunit', 'hours'), y, mo, d, h)
    if spec['bkind'] != 'none':
        bname = tdim + spec['bname'] if spec['bname'] != 'attr' \
            else 'cell_e'
        e = np.array(spec['edges'], dtype='d' if code in 'ihq' else code)
        bv = f.variables[bname]
        if spec['bkind'] == 'edges':
            bv[:] = e
        else:
            bv[:] = np.array([e[:-1], e[1:]]).T


def call(spec, fobj=None):
    """returns (exception or None, result, stderr text, file)"""
    if fobj is None:
        f, dim = build(spec)
    else:
        f, dim = fobj, spec.get('tdim', 'time')
    q = np.array(spec['queries'], dtype='d')
    kw = dict(method=spec['method'], bounds=spec['bounds'],
              clean=spec['clean'])
    kw['left'] = None if spec['left'] is None else np.nan
    kw['right'] = None if spec['right'] is None else np.nan
    if spec['kind'] == 'time':
        y, mo, d, h = spec['ref']
        ref = dt.datetime(y, mo, d, h, tzinfo=dt.timezone.utc)
        usf = TUNIT_US[spec.get('tunit', 'hours')]
        times = [ref + dt.timedelta(microseconds=int(round(x * usf)))
                 for x in spec['queries']]
        # the same instants spelled as naive (= UTC by the library's
        # convention), UTC-aware, or aware with other UTC offsets
        qtz = spec.get('qtz', 'utc')
        if qtz == 'naive':
            times = [t.replace(tzinfo=None) for t in times]
        elif qtz != 'utc':
            times = [t.astimezone(dt.timezone(dt.timedelta(minutes=o)))
                     for t, o in zip(times, qtz)]

        def fn():
            return f.time2idx(np.array(times), dim=dim, **kw)
    else:
        val = q[0] if spec.get('scalar') else q

        def fn():
            return f.val2idx(dim, val, **kw)
    buf = io.StringIO()
    old = sys.stderr
    with warnings.catch_warnings():
        warnings.simplefilter('always')
        with np.errstate(all='ignore'):
            sys.stderr = buf
            try:
                exc, out = attempt(fn)
            finally:
                sys.stderr = old
    return exc, out, buf.getvalue(), f


# ------------------------------------------------------------------ oracle
def _hull(c, spec, code):
    """widest reading of the domain: centres, bounds variable, half-cell
    extension"""
    vals = [c.min(), c.max()]
    if spec['bkind'] != 'none':
        e = np.array(spec['edges'], dtype='d' if code in 'ihq' else code)
        vals += [float(e.min()), float(e.max())]
    else:
        vals += [c[0] - (c[1] - c[0]) / 2, c[-1] + (c[-1] - c[-2]) / 2]
    return min(vals), max(vals)


def hlo_pre(c, spec, code):
    return _hull(c, spec, code)[0]


def hhi_pre(c, spec, code):
    return _hull(c, spec, code)[1]


def phase2_spec(spec):
    """the single-phase spec of the re-based axis: other unit word and/or
    other reference date; 'same' keeps the instants (numbers change),
    'moved' keeps the numbers' structure and moves the instants"""
    p2 = spec['phase2']
    k = {'hours': 1, 'minutes': 60, 'seconds': 3600}[p2['tunit']]
    sh = p2['shift_h']
    ref = dt.datetime(*spec['ref']) + dt.timedelta(hours=sh)
    off = -sh if p2['instants'] == 'same' else 0

    def tr(vals):
        return None if vals is None else [(x + off) * k for x in vals]
    s2 = dict(spec)
    s2.pop('phase2')
    s2.update(coord=tr(spec['coord']), edges=tr(spec['edges']),
              queries=tr(spec['queries']), tunit=p2['tunit'],
              ref=[ref.year, ref.month, ref.day, ref.hour])
    return s2


def check_case(spec):
    """one lookup on a fresh file; datetime cases may carry a second phase:
    the SAME file object gets its time axis re-based (units attribute and
    values rewritten) and is looked up again - the second lookup is judged
    against the oracle of the axis as it is then"""
    r = _check_single(spec)
    if spec.get('phase2') and spec['kind'] == 'time' and not r.failures \
            and getattr(r, 'fobj', None) is not None:
        s2 = phase2_spec(spec)
        rebase(r.fobj, s2)
        r2 = _check_single(s2, fobj=r.fobj)
        p2 = spec['phase2']
        r.label('two-phase', 'phase2:unit=%s' % p2['tunit'],
                'phase2:ref-%s' % ('moved' if p2['shift_h'] else 'same'),
                'phase2:instants-' + p2['instants'])
        if 'raised' in r2.labels:
            r.label('phase2:raised')
        for fl in r2.failures:
            r.fail(fl.clause, 'second lookup after re-basing the time axis '
                   'of the same file to %r: %s' % (
                       r.fobj.variables['time'].units, fl.detail),
                   where=fl.where, klass=fl.klass + '/phase2')
    r.fobj = None
    return r


def _check_single(spec, fobj=None):
    r = Result()
    code = CODE[spec['cdtype']]
    c = np.array(spec['coord'], dtype=code).astype('d')
    n = c.size
    desc = bool(c[1] < c[0])
    # "uniform" as the library decides it: half differences in the stored
    # dtype
    hd = np.diff(np.array(spec['coord'], dtype=code)) / 2
    uniform = bool((hd == hd[0]).all())
    hasb = spec['bkind'] != 'none'
    E = np.array(spec['edges'], dtype='d' if code in 'ihq' else code).astype(
        'd') if hasb else None
    vertex_gap = 0.0
    if hasb and spec.get('rows'):
        # n x 2 bounds whose rows share vertices only up to rounding: the
        # documented edge array is first vertices + last second vertex; the
        # disagreement of the shared vertices widens the decision band
        R = np.array(spec['rows'], dtype='d' if code in 'ihq' else code
                     ).astype('d')
        E = np.append(R[:, 0], R[-1, 1])
        vertex_gap = float(np.abs(R[:-1, 1] - R[1:, 0]).max()) \
            if len(R) > 1 else 0.0
    q = np.array(spec['queries'], dtype='d')
    method = spec['method']
    lnan = spec['left'] is not None
    rnan = spec['right'] is not None
    clean_mask = spec['clean'] == 'mask'
    klass0 = '%s/%s' % ('desc' if desc else 'asc', spec['bkind'])

    # ---- geometry
    clo, chi = c.min(), c.max()
    if hasb:
        lo_i = np.minimum(E[:-1], E[1:])
        hi_i = np.maximum(E[:-1], E[1:])
        hlo, hhi = min(E.min(), clo), max(E.max(), chi)
    else:
        mids = (c[:-1] + c[1:]) / 2
        ext0 = c[0] - (c[1] - c[0]) / 2
        ext1 = c[-1] + (c[-1] - c[-2]) / 2
        hlo, hhi = min(ext0, ext1), max(ext0, ext1)
    # floating-point leniency at decision points (R4): the fractional index
    # is formed as idx + (v - x_i) / (x_i+1 - x_i), whose rounding error is a
    # few ulp of the index and of the operands
    width = float(np.abs(np.diff(E if hasb else c)).max())
    scale = float(max(np.abs(c).max(), np.abs(E).max() if hasb else 0.0,
                      np.abs(q[np.abs(q) < 1e5]).max() if
                      (np.abs(q) < 1e5).any() else 0.0)) + (n + 1) * width
    tol = 8 * np.finfo('d').eps * scale + 2 * vertex_gap
    surely_out = (q < hlo) | (q > hhi)
    # the domain under the narrowest reading that is still certain: the
    # cells of the bounds variable when there is one (whatever the method);
    # without one the half-cell extension only where the library documents
    # it (method='bounds' on a uniform coordinate), else the centres' hull
    if hasb:
        dlo, dhi = hlo, hhi
    elif method == 'bounds' and uniform:
        dlo, dhi = hlo, hhi
    else:
        dlo, dhi = clo, chi
    surely_in = (q >= dlo) & (q <= dhi)
    beyond_centres = surely_in & ((q < clo) | (q > chi))
    # index of the end cell nearest to an outside value
    low_end = int(np.argmin(c))
    high_end = int(np.argmax(c))

    # ---- labels
    r.label('dir:' + ('desc' if desc else 'asc'),
            'spacing:' + ('uniform' if uniform else 'nonuniform'),
            'bkind:' + spec['bkind'], 'method:' + method,
            'bounds:' + spec['bounds'], 'clean:' + spec['clean'],
            'left:%s' % spec['left'], 'right:%s' % spec['right'],
            'kind:' + spec['kind'], 'cdtype:' + spec['cdtype'],
            'cstyle:' + spec.get('cstyle', 'dyadic'))
    if vertex_gap > 0:
        r.label('nx2-shared-vertices-differ-by-rounding')
    dpts = E if hasb else (c[:-1] + c[1:]) / 2
    dist = np.abs(q[:, None] - dpts[None, :]).min(axis=1)
    if ((dist > 4 * tol) & (dist <= 2e-4 * width)).any():
        r.label('query-within-1e-4-cell-of-edge-outside-band')
    if hasb:
        r.label('bname:' + spec['bname'])
    if spec.get('scalar'):
        r.label('scalar-query')
    if spec.get('dangling') and hasb and spec['bname'] != 'attr':
        r.label('dangling-bounds-attribute+' + spec['bname'])
    if spec['kind'] == 'time':
        r.label('tdim:' + spec.get('tdim', 'time'))
        qtz = spec.get('qtz', 'utc')
        r.label('qtz:' + (qtz if isinstance(qtz, str) else
                          ('offsets-nonzero' if any(qtz) else
                           'offsets-all-zero')))
    r.label('n:2-8' if n <= 8 else ('n:9-20' if n <= 20 else 'n:21-40'))
    r.label('nq:1-10' if q.size <= 10 else 'nq:11-30')
    uq, cnt = np.unique(q, return_counts=True)
    for v in uq[cnt > 1]:
        if v < hlo_pre(c, spec, code) or v > hhi_pre(c, spec, code):
            r.label('repeat:out-of-range')
        elif (c == v).any():
            r.label('repeat:centre')
        else:
            r.label('repeat:in-range-non-centre')
    if not (cnt > 1).any():
        r.label('repeat:none')
    special = np.concatenate([c, E if hasb else (c[:-1] + c[1:]) / 2,
                              (c[:-1] + c[1:]) / 2])
    near = False
    for v in q:
        d = np.abs(special - v)
        if ((d > 0) & (d <= 2 * np.spacing(np.abs(v)))).any():
            near = True
    if near:
        r.label('query-1ulp-from-decision-point')
    if (q[:, None] == special[None, :]).any():
        r.label('query-on-decision-point')
    if surely_out.any():
        r.label('has-out-of-range')
    else:
        r.label('all-in-range')
    if surely_in.all():
        r.label('all-certainly-in-domain')
    if beyond_centres.any():
        r.label('query-between-end-centre-and-outer-edge')
        if surely_in.all() and spec['bounds'] != 'ignore':
            r.label('end-half-cell-only-in-domain:' + spec['bounds'])
    r.nontrivial = bool(desc or not uniform or near)

    exc, out, err, r.fobj = call(spec, fobj)

    # ---- rejected / warned as requested
    if exc is not None:
        r.label('raised')
        if spec['bounds'] == 'error' and surely_out.any():
            r.label('raised-as-requested')
            return r
        rejected = isinstance(exc, ValueError) and \
            'out of bounds' in str(exc)
        if spec['bounds'] == 'error' and surely_in.all() and rejected:
            r.fail('inrange-rejected', 'bounds=error raised %s: %s although '
                   'every query %r lies inside the domain '
                   '[%r, %r]' % (type(exc).__name__, str(exc)[:200],
                                 q.tolist(), dlo, dhi),
                   klass=klass0)
            return r
        if spec['bounds'] == 'error' and rejected:
            r.label('raised-ambiguous-range')
            return r
        if isinstance(exc, ValueError) and \
                'neither ascending nor descending' in str(exc):
            # the lookup refuses the coordinate as non-monotonic although it
            # (and its bounds) are strictly monotonic by construction: a
            # rejection of in-domain input on a false ground
            r.fail('monotonic-rejected', 'val2idx raised %r for the '
                   'strictly monotonic %s coordinate %r (method=%s, bounds '
                   'variable: %s)' % (str(exc)[:120], spec['cdtype'],
                                      spec['coord'][:6], method,
                                      spec['bkind']), klass=klass0)
            return r
        # any other exception: the property does not demand completion (R3),
        # counted
        r.label('raised-other:' + exc_where(exc))
        return r
    if spec['bounds'] == 'error' and surely_out.any():
        r.fail('error-not-raised', 'bounds=error returned %r for queries %r '
               'outside the domain [%r, %r]' % (out, q.tolist(), hlo, hhi),
               klass=klass0)
    if spec['bounds'] == 'warn' and surely_in.all():
        if 'out of bounds' in err:
            r.fail('inrange-warned', 'bounds=warn emitted an out-of-bounds '
                   'warning although every query %r lies inside the domain '
                   '[%r, %r]: %s' % (q.tolist(), dlo, dhi,
                                     err.strip().replace('\n', ' ')[-200:]),
                   klass=klass0)
        else:
            r.label('no-warning-as-required')
    if spec['bounds'] == 'error' and surely_in.all():
        r.label('not-rejected-as-required')
    if spec['bounds'] == 'warn' and surely_out.any():
        if 'out of bounds' not in err and 'Warning' not in err:
            r.fail('warn-missing', 'bounds=warn emitted no warning for '
                   'queries %r outside [%r, %r]' % (q.tolist(), hlo, hhi),
                   klass=klass0)
        else:
            r.label('warned-as-requested')

    # ---- returned indices
    data = np.atleast_1d(np.asarray(np.ma.getdata(out)))
    mask = np.atleast_1d(np.ma.getmaskarray(out))
    nq = 1 if spec.get('scalar') else q.size
    if data.shape != (nq,):
        r.fail('result-shape', 'result shape %r for %d queries' % (
            data.shape, nq), klass=klass0)
        return r
    if data.dtype.kind not in 'iu':
        r.fail('result-dtype', 'indices have dtype %s' % data.dtype,
               klass=klass0)
        return r
    for k in range(nq):
        v = float(q[k])
        got = int(data[k])
        msk = bool(mask[k])
        out_left = v < hlo     # below every reading of the domain
        out_right = v > hhi
        # which of left/right applies to this side (np.interp semantics on
        # the x axis as stored; for descending coordinates either spelling
        # of "this side" is accepted)
        if desc:
            side_nan_lo = lnan or rnan
            side_nan_hi = lnan or rnan
            side_all_lo = lnan and rnan
            side_all_hi = lnan and rnan
        else:
            side_nan_lo = side_all_lo = lnan
            side_nan_hi = side_all_hi = rnan
        if out_left or out_right:
            end = low_end if out_left else high_end
            may_nan = side_nan_lo if out_left else side_nan_hi
            must_nan = side_all_lo if out_left else side_all_hi
            if method == 'exact':
                if not msk:
                    r.fail('exact-index', 'exact: query %r equals no '
                           'coordinate but is not masked (index %d)' % (
                               v, got), klass=klass0 + '/outside')
                continue
            if may_nan and not clean_mask:
                continue   # caller asked for raw nan: not judged
            if msk:
                if not (may_nan and clean_mask):
                    r.fail('outrange-masked', 'query %r outside the domain '
                           'is masked although left/right were not nan' %
                           v, klass=klass0)
                continue
            if must_nan and clean_mask:
                r.fail('outrange-not-masked', 'query %r outside [%r, %r] '
                       'with left/right=nan and clean=mask returned index '
                       '%d unmasked' % (v, hlo, hhi, got), klass=klass0)
                continue
            if got != end:
                what = 'interior' if 0 <= got < n else 'non-existent'
                r.fail('outrange-index', 'query %r outside [%r, %r] was '
                       'given the %s index %d (end cell is %d)' % (
                           v, hlo, hhi, what, got, end), klass=klass0)
            continue
        # ---- value inside some reading of the domain
        if method == 'exact':
            eq = np.nonzero(c == v)[0]
            if eq.size:
                if msk or got != int(eq[0]):
                    r.fail('exact-index', 'exact: query %r equals '
                           'coordinate %d but got %s' % (
                               v, int(eq[0]), 'masked' if msk else got),
                           klass=klass0)
            elif not msk:
                r.fail('exact-index', 'exact: query %r equals no coordinate '
                       'but is not masked (index %d)' % (v, got),
                       klass=klass0)
            continue
        inside_c = clo <= v <= chi
        if method == 'nearest':
            if inside_c:
                dist = np.abs(c - v)
                acc = set(np.nonzero(dist == dist.min())[0].tolist())
                lacc = set(np.nonzero(dist <= dist.min() + 2 * tol)[0]
                           .tolist())
                if not msk and got not in acc and got in lacc:
                    r.label('accepted-by-ulp-leniency')
                    acc = lacc
                if msk:
                    r.fail('inrange-masked', 'nearest: query %r inside '
                           '[%r, %r] is masked' % (v, clo, chi),
                           klass=klass0)
                elif got not in acc:
                    r.fail('nearest-index', 'nearest: query %r -> index %d, '
                           'closest coordinate(s) %r (coordinate %r)' % (
                               v, got, sorted(acc), c.tolist()),
                           klass=klass0)
            else:
                # between the end centre and the outer edge
                end = low_end if v < clo else high_end
                may_nan = side_nan_lo if v < clo else side_nan_hi
                if may_nan and not clean_mask:
                    continue
                if msk:
                    if not may_nan:
                        r.fail('inrange-masked', 'nearest: query %r is '
                               'masked although left/right were not nan' %
                               v, klass=klass0)
                elif got != end:
                    r.fail('nearest-index', 'nearest: query %r beyond the '
                           'end centre -> index %d, closest is %d' % (
                               v, got, end), klass=klass0)
            continue
        # ---- method == 'bounds'
        if hasb:
            acc = set(np.nonzero((lo_i <= v) & (v <= hi_i))[0].tolist())
            lacc = set(np.nonzero((lo_i - tol <= v) & (v <= hi_i + tol))[0]
                       .tolist())
            if not msk and got not in acc and got in lacc:
                r.label('accepted-by-ulp-leniency')
                acc = lacc
            tag = ''
            if abs(v - E[-1]) <= tol:
                tag = '/top-edge'
            elif v == E[0]:
                tag = '/bottom-edge'
            if msk:
                r.fail('inrange-masked', 'bounds: query %r inside the cell '
                       'edges is masked' % v, klass=klass0 + tag)
            elif got not in acc:
                if not 0 <= got < n:
                    r.fail('index-out-of-range', 'bounds: query %r -> index '
                           '%d, file has cells 0..%d (containing cell(s) '
                           '%r)' % (v, got, n - 1, sorted(acc)),
                           klass=klass0 + tag + '->%s' % (
                               'n' if got == n else 'other'))
                else:
                    r.fail('bounds-index', 'bounds: query %r -> cell %d '
                           'whose edges are [%r, %r]; containing cell(s) %r' %
                           (v, got, lo_i[got], hi_i[got], sorted(acc)),
                           klass=klass0 + tag)
            continue
        # no bounds variable: midpoint cells, strictly inside only
        cell = None
        if inside_c:
            brk = np.concatenate([[c[0]], mids, [c[-1]]])
            for i in range(n):
                a, b = sorted((brk[i], brk[i + 1]))
                if a + tol < v < b - tol:
                    cell = i
        if msk:
            if cell is not None:
                r.fail('inrange-masked', 'bounds (no bounds variable): '
                       'query %r strictly inside midpoint cell %d is masked'
                       % (v, cell), klass=klass0)
            continue
        tag = ''
        if abs(v - c[-1]) <= tol or abs(v - ext1) <= tol:
            tag = '/top-edge'
        if not 0 <= got < n:
            side_nan = (side_nan_lo if (v < clo or v == c[0] or v == ext0)
                        else side_nan_hi)
            if side_nan and not clean_mask and cell is None and \
                    not inside_c:
                continue
            r.fail('index-out-of-range', 'bounds (no bounds variable): '
                   'query %r -> index %d, file has cells 0..%d' % (
                       v, got, n - 1),
                   klass=klass0 + tag + '->%s' % ('n' if got == n
                                                  else 'other'))
            continue
        if cell is not None and got != cell:
            sub = ''
            if cell == (n - 1) and got == n - 2:
                sub = '/lastcell->n-2'
            r.fail('bounds-index', 'bounds (no bounds variable): query %r '
                   'lies strictly inside midpoint cell %d of %r but got %d'
                   % (v, cell, c.tolist(), got), klass=klass0 + sub)
    return r


# ------------------------------------------------------------------ known findings
_DESC_SYMPTOMS = ('nearest-index', 'bounds-index', 'exact-index',
                  'inrange-rejected', 'inrange-masked', 'outrange-index',
                  'index-out-of-range', 'outrange-not-masked',
                  'outrange-masked')


def _is_desc(spec):
    return spec['coord'][1] < spec['coord'][0]


def _uniform(spec):
    code = CODE[spec['cdtype']]
    d = np.diff(np.array(spec['coord'], dtype=code))
    return bool((d == d[0]).all())


# input class: descending coordinate; symptom: a returned index / mask /
# rejection that contradicts the brute-force oracle
known.register('C16-descending', lambda spec, f: _is_desc(spec) and
               f.klass.startswith('desc/') and f.clause in _DESC_SYMPTOMS)
# input class: ascending, method bounds, right=nan; symptom: the top edge
# itself is given index n
known.register('C16-top-edge-right-nan', lambda spec, f: not _is_desc(spec)
               and spec['method'] == 'bounds' and spec['right'] == 'nan' and
               f.clause == 'index-out-of-range' and
               f.klass.endswith('/top-edge->n'))
# input class: ascending uniform coordinate without bounds variable, method
# bounds; symptom: a value strictly inside the last midpoint cell gets n-2
known.register('C16-nobounds-lastcell', lambda spec, f: not _is_desc(spec)
               and spec['method'] == 'bounds' and spec['bkind'] == 'none' and
               _uniform(spec) and f.clause == 'bounds-index' and
               f.klass.endswith('/lastcell->n-2'))
