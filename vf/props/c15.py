"""C15 - format auto-detection depends only on the file, not on history.

Histories of pncopen(path) over a pool of files of every self-describing
format, under names with and without a recognisable extension.  Oracle: the
result of probing a file after any history equals the reference result of
probing it with an empty history (fixed pool: obtained in a fresh
interpreter; per-case generated netCDF files: obtained in-process right after
the registry was restored).  Second clause: auto-detected == explicitly
named format (dimensions and variable data)."""
import gc
import hashlib
import json
import os
import shutil
import struct
import subprocess
import sys

import numpy as np
from hypothesis import strategies as st

from ..core import Result, attempt, HarnessError
from .. import spec as S
from .. import camxspec as C
from .. import libstate

ID = 'C15'
LEVEL = 'exploration'
RULE = ('Pool per worker: the repository sample of every self-describing '
        'binary/text format (uamiv, lateral_boundary, humidity, '
        'vertical_diffusivity, bpch with its tracerinfo/diaginfo tables, '
        'ffi1001) each under a name whose extension is a registered reader '
        'name and under a neutral name (.dat); per case additionally two '
        'generated netCDF files (classic .nc / NETCDF4 .ncf, plus neutral '
        'copies) and an IOAPI-convention netCDF file (.nc and neutral).  '
        'Hypothesis draws a history of 1-12 pncopen(path) calls over the '
        'pool; after every open the probe (reader class, dimensions, '
        'variable names, sha1 of each variable\'s data+mask) must equal the '
        'reference of that file.  References: fixed pool probed once in a '
        'FRESH interpreter per worker; generated files probed in-process '
        'directly after the registry snapshot was restored.  Clause 2: for '
        'every file, pncopen(path) and pncopen(path, format=<name>) present '
        'equal dimensions and variable data.  Non-trivial: the history opens '
        'a file whose extension names a reader before probing a neutral-named'
        ' file that >=2 registered readers accept (humidity/'
        'vertical_diffusivity/one3d family, bpch family, netCDF/IOAPI '
        'family).  The pool also holds the ICARTT sample under three other '
        'delimiters (comma, comma+blank, tab: first line "36,1001" etc.), with '
        'a fixed-width (2I10) first line, and the bpch sample with other '
        'spellings of its file-type label.  One '
        'step in forty is "many:<file>": the file is opened and closed 80 '
        'times with only 64 free descriptors (soft RLIMIT_NOFILE lowered '
        'for the step); every open must have the reference outcome and the '
        'probe afterwards must equal the reference ("no matter how often").'
        '  Every sample is also present under a name with several dots '
        '(run.20020603.d01.<reader>), and every case adds one uamiv or '
        'lateral_boundary file from the reference encoder (camxspec: spans '
        'crossing midnight / year / century, any grid) under suffix, neutral '
        'and dotted names.  Where the last extension equals a registered '
        'reader name, auto-detection must use that reader (class equality '
        'with format=<name>).  Copies of the samples under the extension of '
        'another registered reader that cannot identify files (csv, landuse, '
        'wind, temperature, jtable, geos) must be detected by content.  '
        '"regdup" steps define classes named like built-in readers (uamiv, '
        'ffi1001) that claim every file: afterwards auto-detection and '
        'format=<name> must still agree in that registry state.  Distinct by '
        'sha1 of the history.')
ASSUMPTIONS = ['the global reader registry is restored from its import-time '
               'snapshot at the top of every case (R6)',
               'sample files of the repository stand for their formats; '
               'generated content varies only for netCDF']
BUDGET = {'quick': dict(examples=1200, max_s=300),
          'thorough': dict(examples=40000, max_s=3000)}

SAMPLES = ['uamiv', 'lateral_boundary', 'humidity', 'vertical_diffusivity',
           'bpch', 'ffi1001']
BROKEN = [('trunc_humidity', 10), ('trunc_uamiv', 40), ('trunc_bpch', 30),
          ('trunc_netcdf', 6), ('empty_vertical_diffusivity', 0),
          ('trunc_ffi1001', 20), ('trunc_lateral_boundary', 500)]
REWRITE_KINDS = ['uamiv', 'humidity', 'vertical_diffusivity', 'ffi1001',
                 'lateral_boundary', 'nc1', 'nc2', 'io', 'trunc_uamiv']
# header spellings of the same ICARTT content (first line "NLHEAD, FFI" with
# comma, comma+blank, blank): (kind, sample, format, first line)
VARIANTS = [('ffi1001c', 'ffi1001', 'ffi1001', b','),
            ('ffi1001cb', 'ffi1001', 'ffi1001', b', '),
            ('ffi1001t', 'ffi1001', 'ffi1001', b'\t'),
            # first line in Fortran 2I10 form, the rest as in the sample
            ('ffi1001w', 'ffi1001', 'ffi1001', b'2I10'),
            # other spellings of the 40-character file-type label, which no
            # reader interprets
            ('bpch4d', 'bpch', 'bpch', b'CTM bin 4D'),
            ('bpchlc', 'bpch', 'bpch', b'ctm bin 02')]


def icartt_delimited(blob, sep):
    """the blank-delimited ICARTT sample re-written with another delimiter
    on every list line (first line, volume line, dates, scale factors,
    missing codes, column names, data records); other variants: see
    VARIANTS"""
    if sep.startswith(b'CTM') or sep.startswith(b'ctm'):
        # bpch: 4-byte marker, 40-character label
        return blob[:4] + sep.ljust(40) + blob[44:]
    if sep == b'2I10':
        first, rest = blob.split(b'\n', 1)
        a, b = first.split()
        return b'%10d%10d' % (int(a), int(b)) + b'\n' + rest
    lines = blob.split(b'\n')
    nhead = int(lines[0].split()[0])
    nv = int(lines[9].split()[0])
    listlines = {0, 5, 6, 10, 11, nhead - 1} | set(range(nhead, len(lines)))
    out = []
    for i, ln in enumerate(lines):
        if i in listlines and ln.strip():
            ln = sep.join(ln.split())
        out.append(ln)
    assert nv == len(lines[10].split())
    return b'\n'.join(out)
FOREIGN_EXT = ['csv', 'landuse', 'wind', 'temperature', 'jtable', 'geos']
MANY_N = 80          # opens of one file in a 'many:' step
MANY_HEADROOM = 64   # descriptors left to the process during that step (one
#                      auto-detecting open transiently holds a few dozen)
AMBIGUOUS = {'humidity', 'vertical_diffusivity', 'bpch', 'nc1', 'nc2', 'io'}
_POOL = {}


def sample_paths():
    root = os.path.join(libstate.repo_src(), 'PseudoNetCDF', 'testcase')
    return dict(
        uamiv=os.path.join(root, 'camxfiles/uamiv/test.uamiv'),
        lateral_boundary=os.path.join(
            root, 'camxfiles/lateral_boundary/test.lateral_boundary'),
        humidity=os.path.join(root, 'camxfiles/humidity/test.humidity'),
        vertical_diffusivity=os.path.join(
            root, 'camxfiles/vertical_diffusivity/test.vertical_diffusivity'),
        bpch=os.path.join(root, 'geoschemfiles/test.bpch'),
        ffi1001=os.path.join(root, 'icarttfiles/test.ffi1001'))


def build_fixed_pool(d):
    """copies of the samples under suffix and neutral names"""
    os.makedirs(d, exist_ok=True)
    sp = sample_paths()
    pool = {}
    for k in SAMPLES:
        s = os.path.join(d, 'sfx_%s.%s' % (k, k))
        n = os.path.join(d, 'neutral_%s.dat' % k)
        shutil.copy(sp[k], s)
        shutil.copy(sp[k], n)
        pool['s:' + k] = dict(path=s, fmt=k, kind=k, suffix=True)
        pool['n:' + k] = dict(path=n, fmt=k, kind=k, suffix=False)
    # broken files: prefixes of valid samples and an empty file, under
    # suffix and neutral names.  Opening them fails (or is at least
    # unusual); a history containing a failed open must not change later
    # probes either.
    for k, nbytes in BROKEN:
        base = k.split('_', 1)[1]
        ext = {'netcdf': 'nc'}.get(base, base)
        with open(sp.get(base, sp['uamiv']), 'rb') as fi:
            blob = fi.read()[:nbytes]
        if base == 'netcdf':
            blob = b'CDF\x01\x00\x00'[:nbytes]
        s = os.path.join(d, 'sfx_%s.%s' % (k, ext))
        n = os.path.join(d, 'neutral_%s.dat' % k)
        for pth in (s, n):
            with open(pth, 'wb') as fo:
                fo.write(blob)
        pool['s:' + k] = dict(path=s, fmt=None, kind=k, suffix=True)
        pool['n:' + k] = dict(path=n, fmt=None, kind=k, suffix=False)
    # names with several dots whose LAST extension names the reader
    for k in SAMPLES:
        p_ = os.path.join(d, 'run.20020603.d01.%s' % k)
        shutil.copy(sp[k], p_)
        pool['d:' + k] = dict(path=p_, fmt=k, kind=k, suffix=True)
    # self-describing content under the extension of ANOTHER registered
    # reader that cannot identify files itself (it inherits the declining
    # isMine): detection must fall through to the content
    for k, ext in zip(SAMPLES, FOREIGN_EXT):
        p_ = os.path.join(d, 'foreign_%s.%s' % (k, ext))
        shutil.copy(sp[k], p_)
        pool['f:' + k] = dict(path=p_, fmt=k, kind=k, suffix=False)
    for k, base, fmt, line1 in VARIANTS:
        with open(sp[base], 'rb') as fi:
            blob = fi.read()
        blob = icartt_delimited(blob, line1)
        s = os.path.join(d, 'sfx_%s.%s' % (k, fmt))
        n = os.path.join(d, 'neutral_%s.dat' % k)
        for pth in (s, n):
            with open(pth, 'wb') as fo:
                fo.write(blob)
        pool['s:' + k] = dict(path=s, fmt=fmt, kind=k, suffix=True)
        pool['n:' + k] = dict(path=n, fmt=fmt, kind=k, suffix=False)
    # a little-endian uamiv file: readable only when the format is named
    # and endian='little' is passed
    with open(sp['uamiv'], 'rb') as fi:
        le = uamiv_to_little_endian(fi.read())
    lep = os.path.join(d, 'little_endian_uamiv.dat')
    with open(lep, 'wb') as fo:
        fo.write(le)
    pool['le:uamiv'] = dict(path=lep, fmt='uamiv', kind='le_uamiv',
                            suffix=False, kw=dict(format='uamiv',
                                                  endian='little'))
    # a file of the dummy format registered in mid-session
    dp = os.path.join(d, 'record.c15reca')
    with open(dp, 'wb') as fo:
        fo.write(b'C15R' + bytes(range(16)))
    pool['s:c15rec'] = dict(path=dp, fmt=None, kind='c15rec', suffix=True,
                            needs_dummy=True)
    gdir = os.path.dirname(sp['bpch'])
    for t in ('tracerinfo.dat', 'diaginfo.dat'):
        shutil.copy(os.path.join(gdir, t), os.path.join(d, t))
    return pool


def uamiv_to_little_endian(buf):
    """byte-swap a big-endian uamiv file word by word, leaving the character
    words (one character + three blanks each) untouched"""
    from ..ref import fortran
    out = []
    recs = fortran.payloads(buf, '>')
    nspec = struct.unpack('>i', recs[0][(70 + 1) * 4:(70 + 2) * 4])[0]

    def swap(b, keep=()):
        w = [b[i:i + 4] for i in range(0, len(b), 4)]
        return b''.join(x if i in keep else x[::-1] for i, x in enumerate(w))
    out.append(swap(recs[0], keep=set(range(70))))
    out.append(swap(recs[1]))
    out.append(swap(recs[2]))
    out.append(recs[3])                      # species names: characters
    for rec in recs[4:]:
        if len(rec) == 16:                   # time record
            out.append(swap(rec))
        else:                                # ione, name(10 chars), data
            out.append(swap(rec, keep=set(range(1, 11))))
    assert len(recs[3]) == 40 * nspec
    return fortran.records(out, '<')


_DUMMY = {}


def dummy_readers():
    """two overlapping readers (B subclasses A, both claim files starting
    with the magic bytes) used to model registration in mid-session; they are
    created once and taken out of the registry again - a history step
    registers them explicitly"""
    if not _DUMMY:
        from PseudoNetCDF import PseudoNetCDFFile
        from PseudoNetCDF import _getreader

        class c15reca(PseudoNetCDFFile):
            @classmethod
            def isMine(cls, path, *args, **kwds):
                try:
                    with open(path, 'rb') as fi:
                        return fi.read(4) == b'C15R'
                except Exception:
                    return False

            def __init__(self, path, *args, **kwds):
                with open(path, 'rb') as fi:
                    raw = fi.read()
                self.createDimension('n', len(raw) - 4)
                v = self.createVariable('payload', 'B', ('n',))
                v[:] = np.frombuffer(raw[4:], dtype='u1')

        class c15recb(c15reca):
            pass
        _getreader._readers[:] = [
            (k, v) for k, v in _getreader._readers
            if v is not c15reca and v is not c15recb]
        _DUMMY['a'] = c15reca
        _DUMMY['b'] = c15recb
    return _DUMMY['a'], _DUMMY['b']


def define_impostors():
    """registerreader(<name of a built-in reader>, impostor) in mid-session:
    the impostor is a plain class (not a PseudoNetCDFFile subclass, so it is
    not auto-registered under a module-qualified name) that claims every
    file.  The registry documents a refusal (returns False) for a taken name;
    whatever it does, auto-detection and format=<name> must keep agreeing."""
    from PseudoNetCDF import PseudoNetCDFFile
    from PseudoNetCDF._getreader import registerreader

    class impostor(object):
        @classmethod
        def isMine(cls, path, *args, **kwds):
            return True

        def __new__(cls, path, *args, **kwds):
            f = PseudoNetCDFFile()
            f.createDimension('impostor', 1)
            v = f.createVariable('impostor', 'i', ('impostor',))
            v[:] = 7
            return f
    return [registerreader(name, impostor) for name in ('uamiv', 'ffi1001')]


def register_dummies():
    from PseudoNetCDF._getreader import registerreader
    a, b = dummy_readers()
    registerreader('c15reca', a)
    registerreader('c15recb', b)


def digest(f):
    dims = [[k, len(v)] for k, v in f.dimensions.items()]
    vs = {}
    for k in f.variables.keys():
        v = f.variables[k]
        data, mask = S.get_data(v)
        h = hashlib.sha1()
        h.update(str(data.dtype).encode())
        h.update(repr(data.shape).encode())
        if mask is not None:
            data = np.where(mask, np.zeros((), data.dtype), data)
            h.update(mask.tobytes())
        h.update(np.ascontiguousarray(data).tobytes())
        vs[k] = h.hexdigest()
    modname = type(f).__module__
    if modname == '__main__':     # the reference process runs this module
        modname = 'vf.props.c15'  # as a script
    return dict(cls=modname + '.' + type(f).__name__,
                dims=dims, vars=vs)


def probe(path, aspath=False, **kw):
    """open, digest, close (R8b).  Returns ('ok', digest) or ('raise', type)"""
    from PseudoNetCDF import pncopen
    cwd = os.getcwd()
    os.chdir(os.path.dirname(path))   # bpch readers look for the tables
    try:
        if aspath:
            import pathlib
            arg = pathlib.Path(path)
        else:
            arg = path
        exc, f = attempt(pncopen, arg, **kw)
        if exc is not None:
            return ['raise', type(exc).__name__]
        try:
            exc, dg = attempt(digest, f)
        finally:
            libstate.release(f)
            del f
            gc.collect()
        if exc is not None:
            return ['read-raise', type(exc).__name__]
        return ['ok', dg]
    finally:
        os.chdir(cwd)


def fixed_pool():
    """per-worker pool + fresh-interpreter references (cached)"""
    d = os.path.join(libstate.scratch(), 'c15pool')
    if d in _POOL:
        return _POOL[d]
    pool = build_fixed_pool(d)
    env = dict(os.environ)
    out = subprocess.run(
        [sys.executable, '-W', 'ignore', '-m', 'vf.props.c15', '--ref', d],
        capture_output=True, text=True, env=env)
    if out.returncode != 0:
        raise HarnessError('fresh-interpreter reference failed: %s' %
                           out.stderr[-2000:])
    refs = json.loads(out.stdout.strip().splitlines()[-1])
    out2 = subprocess.run(
        [sys.executable, '-W', 'ignore', '-m', 'vf.props.c15', '--ref-dummy',
         d], capture_output=True, text=True, env=env)
    if out2.returncode != 0:
        raise HarnessError('fresh-interpreter dummy reference failed: %s' %
                           out2.stderr[-2000:])
    refs['s:c15rec'] = json.loads(out2.stdout.strip().splitlines()[-1])
    out3 = subprocess.run(
        [sys.executable, '-W', 'ignore', '-m', 'vf.props.c15', '--ref-le',
         d], capture_output=True, text=True, env=env)
    if out3.returncode != 0:
        raise HarnessError('fresh-interpreter little-endian reference '
                           'failed: %s' % out3.stderr[-2000:])
    refs['le:uamiv'] = json.loads(out3.stdout.strip().splitlines()[-1])
    for k in pool:
        pool[k]['ref'] = refs[k]
    _POOL[d] = pool
    return pool


def _main_ref(d):
    libstate.check_repo()
    pool = {}
    for k in SAMPLES:
        pool['s:' + k] = os.path.join(d, 'sfx_%s.%s' % (k, k))
        pool['n:' + k] = os.path.join(d, 'neutral_%s.dat' % k)
    for k, nbytes in BROKEN:
        base = k.split('_', 1)[1]
        ext = {'netcdf': 'nc'}.get(base, base)
        pool['s:' + k] = os.path.join(d, 'sfx_%s.%s' % (k, ext))
        pool['n:' + k] = os.path.join(d, 'neutral_%s.dat' % k)
    for k in SAMPLES:
        pool['d:' + k] = os.path.join(d, 'run.20020603.d01.%s' % k)
    for k, ext in zip(SAMPLES, FOREIGN_EXT):
        pool['f:' + k] = os.path.join(d, 'foreign_%s.%s' % (k, ext))
    for k, base, fmt, line1 in VARIANTS:
        pool['s:' + k] = os.path.join(d, 'sfx_%s.%s' % (k, fmt))
        pool['n:' + k] = os.path.join(d, 'neutral_%s.dat' % k)
    refs = {}
    for k, p in pool.items():
        libstate.reset()    # every reference is taken with an empty history
        refs[k] = probe(p)
    print(json.dumps(refs))


def _main_ref_le(d):
    """reference of the little-endian file in an interpreter of its own: it
    is the FIRST file this process opens (an empty history in the strict
    sense - state kept outside the registry, e.g. memoised header layouts,
    cannot have been primed by a big-endian file)"""
    libstate.check_repo()
    print(json.dumps(probe(os.path.join(d, 'little_endian_uamiv.dat'),
                           format='uamiv', endian='little')))


def _main_ref_dummy(d):
    """reference for the dummy format in an interpreter of its own: the
    readers are registered before ANY open of the process"""
    libstate.check_repo()
    register_dummies()
    print(json.dumps(probe(os.path.join(d, 'record.c15reca'))))


# ------------------------------------------------------------------ strategy
POOLKEYS = ['s:' + k for k in SAMPLES] + ['n:' + k for k in SAMPLES] + \
    ['s:nc1', 'n:nc1', 's:nc2', 'n:nc2', 's:io', 'n:io'] + \
    ['s:' + k for k, _ in BROKEN] + ['n:' + k for k, _ in BROKEN][:2] + \
    ['s:' + v[0] for v in VARIANTS] + ['n:' + v[0] for v in VARIANTS] + \
    ['d:' + k for k in SAMPLES] + ['s:cx', 's:cx', 'n:cx', 'n:cx', 'd:cx'] + \
    ['f:' + k for k in SAMPLES]
MANYKEYS = ['s:nc1', 'n:nc1', 's:io', 'n:io', 's:nc2', 'n:nc2', 's:uamiv',
            'n:humidity', 's:ffi1001', 'n:bpch', 'n:lateral_boundary',
            's:trunc_uamiv', 'n:trunc_humidity']


@st.composite
def cases(draw, tier='quick'):
    nc1 = draw(S.filespecs(max_dims=3, max_len=3, max_vars=3, max_rank=2,
                           attrs=False, unlimited=False,
                           dtypes=('f4', 'i4'), masked=False))
    nc2 = draw(S.filespecs(max_dims=3, max_len=3, max_vars=3, max_rank=2,
                           attrs=False, unlimited=False,
                           dtypes=('f4', 'f8'), masked=False))
    n = draw(st.integers(1, 12))
    # bias: suffix opens early, neutral ambiguous probes later
    hist = []
    for i in range(n):
        c = draw(st.integers(0, 8))
        if c <= 2:
            h = draw(st.sampled_from(
                ['n:humidity', 'n:vertical_diffusivity', 'n:io', 'n:nc1',
                 'n:bpch', 'n:nc2']))
        elif c == 3:
            # the scratch path work.dat is REWRITTEN with the content of
            # another pool file and probed: same path, different file
            h = 'w=' + draw(st.sampled_from(REWRITE_KINDS))
        elif c == 4 and draw(st.booleans()):
            h = draw(st.sampled_from(['le:uamiv', 'le:uamiv', 'reg', 'reg',
                                      's:c15rec', 's:uamiv', 'n:uamiv',
                                      'regdup', 'regdup']))
        else:
            h = draw(st.sampled_from(POOLKEYS))
        if draw(st.integers(0, 39)) == 0:
            # "no matter how often": the same file opened MANY_N times
            hist.append('many:' + draw(st.sampled_from(MANYKEYS)))
        if h == 'regdup':
            # an impostor class under the NAME of a built-in reader is defined
            # in mid-session; afterwards a file that reader owns is probed
            hist.append('regdup')
            h = draw(st.sampled_from(['n:uamiv', 'n:ffi1001', 'f:uamiv',
                                      'n:cx', 's:ffi1001', 'f:ffi1001']))
        if h == 'reg':
            # registration in mid-session, followed (now or later) by a probe
            # of the file whose suffix names the newly registered reader
            hist.append('reg')
            h = 's:c15rec'
        if draw(st.integers(0, 4)) == 0:
            h += '|P'       # hand the path over as pathlib.Path, not str
        hist.append(h)
    io = dict(nr=draw(st.integers(1, 3)), nc=draw(st.integers(1, 3)),
              nt=draw(st.integers(1, 3)), sdate=draw(st.sampled_from(
                  [2001001, 1999365, 2020060])))
    # a generated self-describing CAMx binary file (reference encoder): time
    # spans crossing midnight / year / century, 1-3 layers, any grid
    cx = draw(C.camxspecs(formats=('uamiv', 'lateral_boundary'), max_n=4,
                          max_nz=3, max_steps=3, max_spec=3))
    return dict(nc1=nc1, nc2=nc2, io=io, cx=cx, history=hist)


def strategy(tier):
    return cases(tier)


def make_case_pool(case, d):
    """generated netCDF files of this case; returns pool entries"""
    from PseudoNetCDF.cmaqfiles import ioapi_base
    os.makedirs(d, exist_ok=True)
    pool = {}

    def save(f, name, ext, flavour, fmt, kind):
        s = os.path.join(d, '%s.%s' % (name, ext))
        out = f.save(s, format=flavour, verbose=0)
        libstate.release(out)
        del out
        gc.collect()
        n = os.path.join(d, '%s_neutral.dat' % name)
        shutil.copy(s, n)
        pool['s:' + kind] = dict(path=s, fmt=fmt, kind=kind, suffix=True)
        pool['n:' + kind] = dict(path=n, fmt=fmt, kind=kind, suffix=False)

    save(S.build_file(case['nc1']), 'g1', 'nc', 'NETCDF3_CLASSIC', 'netcdf',
         'nc1')
    save(S.build_file(case['nc2']), 'g2', 'ncf', 'NETCDF4', 'netcdf', 'nc2')
    io = case['io']
    arr = np.arange(io['nt'] * 1 * io['nr'] * io['nc'], dtype='f').reshape(
        io['nt'], 1, io['nr'], io['nc'])
    iof = ioapi_base.from_arrays(
        O3=arr, fileattrs=dict(SDATE=io['sdate'], STIME=0, TSTEP=10000,
                               XORIG=0., YORIG=0., XCELL=1000., YCELL=1000.))
    save(iof, 'io', 'nc', 'NETCDF3_CLASSIC', 'ioapi', 'io')
    cx = case.get('cx')
    if cx is not None:
        raw = C.ref_bytes(cx)
        fmt = cx['fmt']
        for key, name, sfx in (('s:cx', 'cx.%s' % fmt, True),
                               ('n:cx', 'cx_neutral.dat', False),
                               ('d:cx', 'camx.%04d%03d.d02.%s' % (
                                   cx['start'][0], cx['start'][1], fmt),
                                True)):
            pth = os.path.join(d, name)
            with open(pth, 'wb') as fo:
                fo.write(raw)
            pool[key] = dict(path=pth, fmt=fmt, kind='cx-' + fmt, suffix=sfx)
    return pool


def open_many(e):
    """open and close the file MANY_N times with only MANY_HEADROOM free
    descriptors (soft RLIMIT_NOFILE lowered for the duration): every open must
    have the outcome of the reference, and a full probe afterwards must equal
    it.  Returns a message or None."""
    import resource
    from PseudoNetCDF import pncopen
    want_ok = e['ref'][0] in ('ok', 'read-raise')
    soft, hard = resource.getrlimit(resource.RLIMIT_NOFILE)
    top = max(int(x) for x in os.listdir('/proc/self/fd')) + 1
    cwd = os.getcwd()
    os.chdir(os.path.dirname(e['path']))
    msg = None
    try:
        resource.setrlimit(resource.RLIMIT_NOFILE,
                           (min(soft, top + MANY_HEADROOM), hard))
        for i in range(MANY_N):
            exc, f = attempt(pncopen, e['path'], **(e.get('kw') or {}))
            if exc is None:
                libstate.release(f)
                del f
            if (exc is None) != want_ok:
                msg = 'open #%d of %d: %s, reference %s' % (
                    i + 1, MANY_N, 'succeeds' if exc is None else
                    'raises %s: %s' % (type(exc).__name__, str(exc)[:80]),
                    'opens' if want_ok else 'raises %s' % e['ref'][1])
                break
            if exc is not None and type(exc).__name__ != e['ref'][1]:
                msg = 'open #%d of %d raises %s, reference raises %s' % (
                    i + 1, MANY_N, type(exc).__name__, e['ref'][1])
                break
        gc.collect()
    finally:
        resource.setrlimit(resource.RLIMIT_NOFILE, (soft, hard))
        os.chdir(cwd)
    if msg is None:
        d = compare(e['ref'], probe(e['path'], **(e.get('kw') or {})))
        if d is not None:
            msg = 'after %d opens: %s' % (MANY_N, d[1])
    return msg


def compare(ref, got):
    """first difference between two probes or None"""
    if ref[0] != got[0]:
        return 'outcome', 'reference %r, now %r' % (ref[:2] if ref[0] != 'ok'
                                                    else 'ok', got[:2] if
                                                    got[0] != 'ok' else 'ok')
    if ref[0] != 'ok':
        if ref[1] != got[1]:
            return 'outcome', 'reference raises %s, now %s' % (ref[1], got[1])
        return None
    a, b = ref[1], got[1]
    if a['cls'] != b['cls']:
        return 'reader', 'reader %s, reference %s' % (b['cls'], a['cls'])
    if a['dims'] != b['dims']:
        return 'dims', 'dimensions %r, reference %r' % (b['dims'], a['dims'])
    if a['vars'] != b['vars']:
        ks = sorted(set(a['vars']) ^ set(b['vars'])) or \
            [k for k in a['vars'] if a['vars'][k] != b['vars'][k]]
        return 'data', 'variables differ: %r' % ks[:6]
    return None


def judge_auto_vs_explicit(r, key, e, auto, expl, tag=''):
    """clause 2 for one file: the auto-detected open and the open with the
    format named must present the same dimensions and variable data (and the
    same reader where the last extension names it)"""
    if auto[0] != 'ok' or expl[0] != 'ok':
        if auto[0] != expl[0]:
            r.fail('explicit-outcome' + tag, '%s: auto-detect %r, '
                   'format=%s %r' % (key, auto[:2] if auto[0] != 'ok'
                                     else 'ok', e['fmt'],
                                     expl[:2] if expl[0] != 'ok'
                                     else 'ok'), klass=e['kind'])
        return
    a, b = auto[1], expl[1]
    if e['suffix'] and e['path'].endswith('.' + e['fmt']) and \
            a['cls'] != b['cls']:
        # the extension names a registered reader: auto-detection
        # must pick that reader, not merely one that reads the bytes
        r.fail('explicit-reader' + tag, '%s: the extension names %s, '
               'auto-detect used %s, format=%s uses %s' % (
                   key, e['fmt'], a['cls'], e['fmt'], b['cls']),
               klass=e['kind'])
    if a['dims'] != b['dims']:
        r.fail('explicit-dims' + tag, '%s: auto (%s) dimensions %r, '
               'format=%s (%s) %r' % (key, a['cls'], a['dims'],
                                      e['fmt'], b['cls'], b['dims']),
               klass=e['kind'])
    elif sorted(a['vars'].values()) != sorted(b['vars'].values()):
        # variable *data* must agree; names may differ where two
        # formats share one binary layout (humidity / vertical
        # diffusivity files are indistinguishable by content)
        ks = sorted(set(a['vars']) ^ set(b['vars'])) or \
            [k for k in a['vars'] if a['vars'][k] != b['vars'][k]]
        r.fail('explicit-data' + tag, '%s: auto (%s) vs format=%s (%s): '
               'variable data differ %r' % (key, a['cls'], e['fmt'],
                                            b['cls'], ks[:6]),
               klass=e['kind'])


def check_case(case):
    r = Result()
    pool = dict(fixed_pool())
    cdir = libstate.scratch_path('_c15')
    try:
        gen = make_case_pool(case, cdir)
        for k, e in gen.items():
            libstate.reset()    # empty history for every reference
            e['ref'] = probe(e['path'])
        libstate.reset()
        pool.update(gen)
        n0 = libstate.registry_len()
        seen_suffix = set()
        nt = False
        workpath = os.path.join(cdir, 'work.dat')
        touched = []
        registered = [False]
        dup = [False]
        for i, step in enumerate(case['history']):
            aspath = step.endswith('|P')
            key = step[:-2] if aspath else step
            if key == 'regdup':
                define_impostors()
                dup[0] = True
                r.label('taken-name-defined-mid-session')
                nt = True
                continue
            if key == 'reg':
                # two overlapping readers are registered in mid-session
                register_dummies()
                registered[0] = True
                r.label('mid-session-registration')
                continue
            if key.startswith('many:'):
                e = pool[key[5:]]
                r.label('opened-%d-times' % MANY_N)
                nt = True
                msg = open_many(e)
                if msg:
                    r.fail('repeat-outcome', 'step %d: %s (%s name): %s' % (
                        i, e['kind'], 'suffix' if e['suffix'] else 'neutral',
                        msg), klass=e['kind'])
                    break
                continue
            if key.startswith('w='):
                # rewrite the scratch path with another file's content; the
                # expected result is that content's neutral-name reference
                src = pool['n:' + key[2:]]
                shutil.copy(src['path'], workpath)
                e = dict(src, path=workpath, suffix=False)
                r.label('rewritten-path')
                nt = True
            else:
                if key not in pool:     # pinned cases of earlier layouts
                    continue
                e = pool[key]
                touched.append(key)
            if aspath:
                r.label('pathlike-argument')
            if not e['suffix'] and e['kind'] in AMBIGUOUS and seen_suffix:
                nt = True
            if e.get('needs_dummy') and not registered[0]:
                # the dummy format is only judged once its readers are
                # registered (before that the outcome is that of an unknown
                # file, which the reference does not describe)
                continue
            if e.get('kw'):
                r.label('explicit-endian-open')
                nt = True
            got = probe(e['path'], aspath=aspath, **(e.get('kw') or {}))
            if dup[0] and e['fmt'] is not None and not e.get('kw'):
                # in the registry state after the impostor definition
                expl = probe(e['path'], format=e['fmt'])
                nfail = len(r.failures)
                judge_auto_vs_explicit(r, key, e, got, expl,
                                       tag='-after-taken-name')
                if len(r.failures) > nfail:
                    break
            d = compare(e['ref'], got)
            if d is not None:
                prior = [x for x in case['history'][:i]]
                r.fail('history-' + d[0], 'step %d: probing %s (%s name%s%s)'
                       ' after history %r: %s' % (
                           i, e['kind'], 'suffix' if e['suffix'] else
                           'neutral', ', pathlib.Path' if aspath else '',
                           ', rewritten path' if key.startswith('w=') else '',
                           prior[-6:], d[1]),
                       klass=e['kind'] + ('/sfx' if e['suffix'] else '/neu') +
                       ('/P' if aspath else '') +
                       ('/rewritten' if key.startswith('w=') else ''))
                break
            if e['suffix']:
                seen_suffix.add(e['kind'])
        r.nontrivial = nt
        grown = libstate.registry_len() - n0
        r.label('registry-grew' if grown else 'registry-same')
        r.label('len:%d' % min(len(case['history']), 12))
        if nt:
            r.label('suffix-then-neutral-ambiguous')
        # clause 2: auto vs explicit, on a clean registry, for every file
        # the history touched
        for key in sorted(set(touched)):
            e = pool[key]
            if e['fmt'] is None or e.get('kw'):
                r.label('broken-file-open' if e['fmt'] is None else 'kw-open')
                continue
            libstate.reset()
            auto = e['ref']
            libstate.reset()
            expl = probe(e['path'], format=e['fmt'])
            judge_auto_vs_explicit(r, key, e, auto, expl)
            r.label('kind:' + e['kind'])
    finally:
        shutil.rmtree(cdir, ignore_errors=True)
    return r


if __name__ == '__main__':
    if len(sys.argv) == 3 and sys.argv[1] == '--ref':
        _main_ref(sys.argv[2])
    if len(sys.argv) == 3 and sys.argv[1] == '--ref-dummy':
        _main_ref_dummy(sys.argv[2])
    if len(sys.argv) == 3 and sys.argv[1] == '--ref-le':
        _main_ref_le(sys.argv[2])
