"""C06 - file arithmetic, eval and mask follow masked-array semantics.

Three case kinds, one evidence file:
  op   : A <op> B for two conforming files (one schema, independent values)
  eval : A.eval(assignments) from a small expression grammar
  mask : A.mask(predicates)
Oracle: plain numpy on the decoded FileSpec arrays (cell-wise for operators
and predicates, numpy.ma evaluation of the same source for eval)."""
import copy
import operator

import numpy as np
from hypothesis import strategies as st

from ..core import Result, guard, attempt, exc_where
from .. import spec as S
from .. import known
from .. import agentA_common as A

ID = 'C06'
LEVEL = 'exploration'
RULE = ('Hypothesis: FileSpec (1-4 dims of length 1-4, 1-4 numeric variables '
        'f4/f8/i2/i4 of rank 0-4, masked and unmasked, 1-D coordinate '
        'variables; float data in [-100,100] plus 0, -0, +-1, +-inf, NaN) '
        'with a coordinate set (coordinate variables and sometimes one data '
        'variable) registered through setCoords.  op (1/2): second file of '
        'the same schema with independent data/masks (30% of cells repeat '
        'the left value; small non-negative integer exponents for half of '
        'the ** cases; sometimes one variable absent on the right; in a '
        'quarter of the cases some variables are stored with a wider dtype on '
        'the right - f4/f8, i2/i4, i2/i8, i4/i8, int/f8 - with values near '
        'the limits of the left dtype) x '
        'operator + - * / // ** % < <= > >= == != .  Oracle per cell on the '
        'raw data: value = numpy op(a, b); a cell is masked iff it is masked '
        'in either operand or the value is not finite; unmasked values agree '
        '(rtol 1e-6 f4 / 1e-12 f8, NaN==NaN; result dtype not judged); '
        'coordinate variables and variables absent on the right are '
        'bit-identical copies of the left (dtype, mask, attributes for '
        'coordinates); dimensions as in the left file.  Not compared: integer '
        '// and % cells with divisor 0, / // % cells where numpy.ma\'s '
        'divide-domain (|a|*tiny >= |b|, b != 0) and finiteness disagree; if '
        'numpy itself raises for a variable (int ** negative int) the '
        'library may raise (counted).  eval (1/5): 1-2 assignments to fresh '
        'names over variables of one shape, literals, + - * /, **2, unary -, '
        'np.abs, np.sqrt(np.abs()), np.where (unmasked operands only), '
        'copyall on/off.  Oracle: the same source executed on numpy / '
        'numpy.ma copies of the arrays; masks equal (cells whose expected '
        'value is not finite: either), unmasked values agree (tolerance of '
        'the coarser of the two result dtypes); with copyall the other variables are '
        'bit-identical.  mask (3/10): non-empty subset of less, less_equal, '
        'greater, greater_equal, values, equal, invalid, where (boolean array '
        'shaped like one variable; given with dims as tuple or list, without '
        'dims, or as a boolean library variable carrying .dimensions), '
        'thresholds drawn from the data (integral when the file has integer '
        'variables), coords on/off.  Oracle: cell masked iff it was masked '
        'or satisfies >=1 predicate (numpy.isclose rtol=1e-5 atol=1e-8 for '
        'values= on floats, cells within a factor 2 of that tolerance not '
        'judged); unmasked cells bit-identical, dtype kept; coordinate '
        'variables untouched unless coords=True.  Thorough tier also runs the '
        'functional forms core._functions.pncbo(op, a, b, coordkeys=...) and '
        'mask_vals(f, "pred,value") (one scalar predicate, in place, '
        'metadata keys untouched).  Non-trivial: a masked '
        'operand, or a cell producing or holding zero-division/inf/NaN, or '
        'an integer variable taking part, or >=2 predicates combined.  '
        'Successive calls: in half of the cases 1-2 further calls with '
        'independently drawn arguments (operators / assignments / predicate '
        'sets) are applied to the SAME input objects and every result is '
        'judged against the model of the ORIGINAL spec, so a call that '
        'alters its input shows as a wrong later result (klass '
        '@later-call).  Chains: 40% of the operator cases use the RESULT '
        'again - as left operand of a further operator with a third file, '
        'in .mask(..) or in .eval(..) - for 1-2 steps; each step is judged '
        'like a first step against the model, in which coordinate and '
        'right-absent variables are still the ORIGINAL left operand\'s and '
        'computed variables are the already judged values of the previous '
        'step (klass @chained).  A third of the eval cases carry a global '
        'attribute (number or text) named like a variable the expression '
        'uses.  Distinct by sha1 of the case spec.')
ASSUMPTIONS = ['numpy ufuncs on the raw data are the reference for operator '
               'values; numpy.ma for eval',
               'character variables and unsigned dtypes are outside the '
               'domain',
               'thresholds are finite; values=/equal= thresholds are '
               'integral when integer variables are present']
BUDGET = {'quick': dict(examples=12000, max_s=240),
          'thorough': dict(examples=80000, max_s=1100)}

FOPTS = dict(max_len=4, max_dims=4, max_vars=4, attrs=True, masked=True,
             char=False, special_floats=True, nonfinite=True, vrange=100,
             attr_kinds=('str', 'int', 'npfloat'),
             fills=[-999, -9999, -1, 99, 0, 0])

OPS = ['+', '-', '*', '/', '//', '**', '%', '<', '<=', '>', '>=', '==', '!=']
OPF = {'+': operator.add, '-': operator.sub, '*': operator.mul,
       '/': operator.truediv, '//': operator.floordiv, '**': operator.pow,
       '%': operator.mod, '<': operator.lt, '<=': operator.le,
       '>': operator.gt, '>=': operator.ge, '==': operator.eq,
       '!=': operator.ne}
PREDS = ['less', 'less_equal', 'greater', 'greater_equal', 'values', 'equal',
         'invalid']
TINY = np.finfo(float).tiny
# wider dtypes a right operand may use for a left variable, and values that
# show a result narrowed to the left dtype (wrap-around, float32 overflow,
# precision)
WIDER = {'f4': ['f8'], 'f8': [], 'i2': ['i4', 'i8', 'f8'], 'i4': ['i8', 'f8']}
EDGE = {'i2': [30000, -30000, 32767, -32768, 20000, 181],
        'i4': [2000000000, -2000000000, 2147483647, 46341, 100000],
        'i8': [30000, 40000, 2000000000, 3000000000, -70000],
        'f4': [3.0e38, -3.0e38, 16777216.0, 1.0e-30,
               float(np.float32(0.1))],
        'f8': [3.0e38, 1.0e300, 1.0e-300, 0.1, 1.0 / 3.0, 1.0e-9, 65536.5]}
# order in which mask() applies its predicates (after where)
LIBORDER = ['greater', 'greater_equal', 'less', 'less_equal', 'values',
            'equal', 'invalid']


# ------------------------------------------------------------------ strategy
@st.composite
def coordsets(draw, fs):
    cv = [v['name'] for v in fs['vars'] if v.get('coord')]
    others = [v['name'] for v in fs['vars'] if not v.get('coord')]
    out = []
    if cv and draw(st.integers(0, 3)) > 0:
        out = list(cv)
    if len(others) >= 2 and draw(st.integers(0, 4)) == 0:
        out.append(draw(st.sampled_from(others)))
    return out


@st.composite
def twins(draw, fs):
    """add 1-2 variables with the dimensions of an existing one so that
    expressions have several operands of one shape"""
    fs = copy.deepcopy(fs)
    dlen = A.dlen_of(fs)
    cands = [v for v in fs['vars'] if not v.get('coord')]
    ranked = [v for v in cands if v['dims']]
    if ranked and draw(st.integers(0, 9)) > 0:
        cands = ranked
    base = draw(st.sampled_from(cands))
    n = draw(st.integers(1, 2))
    shape = [dlen[d] for d in base['dims']]
    size = int(np.prod(shape)) if shape else 1
    names = [base['name']]
    for i in range(n):
        code = draw(st.sampled_from(['f4', 'f8', 'i2', 'i4']))
        data = draw(st.lists(S._elements(code, FOPTS), min_size=size,
                             max_size=size))
        mask = None
        fill = None
        if draw(st.integers(0, 2)) == 0:
            mask = [int(b) for b in draw(st.lists(st.booleans(),
                                                  min_size=size,
                                                  max_size=size))]
            fill = draw(st.sampled_from([-999, 0]))
        fs['vars'].append(dict(name='w%d' % i, dims=list(base['dims']),
                               dtype=code, data=data, mask=mask, fill=fill,
                               attrs={}))
        names.append('w%d' % i)
    return fs, names


@st.composite
def exprs(draw, operands, depth, allow_where):
    """JSON expression tree; the left-most leaf is always a variable"""
    if depth <= 0:
        return ['var', draw(st.sampled_from(operands))]
    kind = draw(st.sampled_from(['bin', 'bin', 'bin', 'un', 'pow2', 'var'] +
                                (['where'] if allow_where else [])))
    if kind == 'var':
        return ['var', draw(st.sampled_from(operands))]
    left = draw(exprs(operands, depth - 1, allow_where))
    if kind == 'un':
        return ['un', draw(st.sampled_from(['-', 'np.abs', 'sqrtabs'])), left]
    if kind == 'pow2':
        return ['pow2', left]
    if draw(st.booleans()):
        right = draw(exprs(operands, depth - 1, allow_where))
    else:
        right = ['lit', draw(st.sampled_from([0, 1, 2, -3, 0.5, -1.5, 2.0,
                                              0.0]))]
    if kind == 'where':
        c = draw(st.sampled_from(['>', '<=', '==']))
        return ['where', c, left, right,
                draw(exprs(operands, depth - 1, allow_where))]
    return ['bin', draw(st.sampled_from(['+', '-', '*', '/'])), left, right]


def render(e):
    k = e[0]
    if k == 'var':
        return e[1]
    if k == 'lit':
        return repr(e[1]) if e[1] >= 0 else '(%r)' % (e[1],)
    if k == 'un':
        if e[1] == '-':
            return '(-%s)' % render(e[2])
        if e[1] == 'np.abs':
            return 'np.abs(%s)' % render(e[2])
        return 'np.sqrt(np.abs(%s))' % render(e[2])
    if k == 'pow2':
        return '(%s ** 2)' % render(e[1])
    if k == 'where':
        return 'np.where(%s %s %s, %s, %s)' % (
            render(e[2]), e[1], render(e[3]), render(e[2]), render(e[4]))
    return '(%s %s %s)' % (render(e[2]), e[1], render(e[3]))


@st.composite
def cases(draw, tier='quick'):
    fs = draw(S.filespecs(**FOPTS))
    kind = draw(st.sampled_from(['op'] * 5 + ['eval'] * 2 + ['mask'] * 3))
    if kind == 'op':
        op = draw(st.sampled_from(OPS))
        small = (op == '**' and draw(st.booleans()))
        retype = {}
        if draw(st.integers(0, 3)) == 0:
            # same-named variables stored with different dtypes in the two
            # files, the narrower one on the left, with values at which a
            # narrowed result would wrap, overflow or lose precision
            for v in fs['vars']:
                if v.get('coord') or not WIDER[v['dtype']] or \
                        draw(st.integers(0, 2)) == 0:
                    continue
                retype[v['name']] = draw(st.sampled_from(WIDER[v['dtype']]))
                size = len(v['data'])
                pick = draw(st.lists(st.integers(0, 2), min_size=size,
                                     max_size=size))
                ev = draw(st.lists(st.sampled_from(EDGE[v['dtype']]),
                                   min_size=size, max_size=size))
                v['data'] = [e if p_ == 0 else x
                             for x, e, p_ in zip(v['data'], ev, pick)]
        other = draw(A.redraw(fs, FOPTS, share=0.3, int_small=small,
                              retype=retype, edge=EDGE))
        drop = None
        noncoord = [v['name'] for v in fs['vars'] if not v.get('coord')]
        if len(noncoord) >= 2 and draw(st.integers(0, 7)) == 0:
            drop = draw(st.sampled_from(noncoord))
            other['vars'] = [v for v in other['vars'] if v['name'] != drop]
        entry = 'operator'
        if tier == 'thorough' and draw(st.integers(0, 3)) == 0:
            entry = 'pncbo'   # functional form, coordinate keys passed in
        more = [draw(st.sampled_from(OPS)) for i in range(draw(NMORE))]
        coords = draw(coordsets(fs))
        chain = []
        if entry == 'operator' and draw(st.integers(0, 9)) < 4:
            # the RESULT is used again: (f1 op f2) op2 f3, .mask(..), .eval
            for i in range(draw(st.integers(1, 2))):
                ck = draw(st.sampled_from(['op', 'op', 'mask', 'mask',
                                           'eval']))
                if ck == 'op':
                    chain.append(dict(kind='op',
                                      op=draw(st.sampled_from(OPS)),
                                      other=draw(A.redraw(fs, FOPTS,
                                                          share=0.3))))
                elif ck == 'mask':
                    chain.append(dict(kind='mask', **draw(maskargs(fs))))
                else:
                    cand = [v['name'] for v in fs['vars'] if v['dims'] and
                            not v.get('coord') and v['name'] not in coords]
                    if cand:
                        nm = draw(st.sampled_from(cand))
                        chain.append(dict(
                            kind='eval', sep='\n',
                            copyall=draw(st.booleans()),
                            stmts=[['n0', draw(exprs([nm], 2, False))]]))
                    break       # eval ends a chain
        return dict(kind='op', file=fs, other=other, op=op, more=more,
                    coords=coords, entry=entry, chain=chain)
    if kind == 'eval':
        fs, operands = draw(twins(fs))
        byname = {v['name']: v for v in fs['vars']}
        allow_where = all(byname[n]['mask'] is None for n in operands)
        calls = []
        for c in range(1 + draw(NMORE)):
            nst = draw(st.integers(1, 2))
            stmts = []
            pool = list(operands)
            for i in range(nst):
                tgt = 'n%d' % i
                stmts.append([tgt, draw(exprs(pool, draw(st.integers(1, 3)),
                                              allow_where))])
                pool = pool + [tgt]
            calls.append(dict(stmts=stmts,
                              sep=draw(st.sampled_from(['\n', '; '])),
                              copyall=draw(st.booleans())))
        if draw(st.integers(0, 2)) == 0:
            # netCDF keeps attributes and variables in separate namespaces:
            # a global attribute may carry the name of a variable that the
            # expression uses; the expression is about the file's ARRAYS
            nm = draw(st.sampled_from(operands))
            fs['gattrs'][nm] = draw(st.sampled_from(
                [{'py': 'float', 'v': 2.5}, {'py': 'int', 'v': 3},
                 {'np': 'f4', 'v': 0.5}, 'nominal', '1']))
        return dict(kind='eval', file=fs, coords=draw(coordsets(fs)),
                    more=calls[1:], **calls[0])
    # ---- mask
    coords = draw(coordsets(fs))
    first = draw(maskargs(fs))
    if tier == 'thorough' and draw(st.integers(0, 3)) == 0:
        scalar = [p_ for p_ in first['preds'] if p_[0] != 'invalid']
        if scalar:
            # command-line string form 'less,2.5': one scalar predicate,
            # applied in place to every variable that is not a metadata key
            return dict(kind='mask', file=fs, preds=scalar[:1], where=None,
                        coords=[], coordsflag=False, entry='mask_vals')
    more = [draw(maskargs(fs)) for i in range(draw(NMORE))]
    return dict(kind='mask', file=fs, coords=coords, more=more, **first)


# number of further calls on the SAME input objects within one case
NMORE = st.sampled_from([0, 0, 1, 1, 2])


@st.composite
def maskargs(draw, fs):
    """one set of mask() arguments: predicates, where, coords flag"""
    dlen = A.dlen_of(fs)
    hasint = any(v['dtype'][0] == 'i' for v in fs['vars'])
    pool = []
    for v in fs['vars']:
        for x in v['data']:
            if isinstance(x, (int, float)) and np.isfinite(x):
                pool.append(x)
    pool = (pool or [0]) + [0, 1]
    npred = draw(st.integers(1, 3))
    names = draw(st.permutations(PREDS + ['where']))[:npred]
    preds = []
    where = None
    for n in names:
        if n == 'invalid':
            preds.append([n, True])
        elif n == 'where':
            like = draw(st.sampled_from(fs['vars']))
            size = int(np.prod([dlen[d] for d in like['dims']])) \
                if like['dims'] else 1
            bits = [int(b) for b in draw(st.lists(st.booleans(),
                                                  min_size=size,
                                                  max_size=size))]
            where = dict(like=like['name'], bits=bits,
                         dims=draw(st.sampled_from(['tuple', 'tuple', 'none',
                                                    'none', 'var', 'list'])))
        else:
            x = draw(st.sampled_from(pool))
            if n in ('values', 'equal'):
                # numpy.ma.masked_values / masked_equal store the value as
                # fill_value and raise when it does not fit the variable's
                # dtype: keep it inside int16
                x = draw(st.sampled_from([y for y in pool
                                          if abs(y) <= 30000]))
                if hasint:
                    x = int(np.trunc(x))
            elif draw(st.integers(0, 3)) == 0:
                x = x + 0.5
            preds.append([n, x])
    return dict(preds=preds, where=where, coordsflag=draw(st.booleans()))


def strategy(tier):
    return cases(tier)


# ------------------------------------------------------------------ helpers
def tol_for(dt):
    dt = np.dtype(dt)
    if dt.kind == 'f' and dt.itemsize == 4:
        return 1e-6
    return 1e-12


def cmp_cells(lib, evals, emask, dontcare, what, rtol):
    """cell-wise comparison.  Returns a list of (clause suffix, message);
    the three clauses are judged independently so that a known mask defect
    cannot hide a value defect."""
    out = []
    la = lib[...]
    ld = np.asarray(np.ma.getdata(la))
    lm = np.ma.getmaskarray(la)
    if ld.shape != evals.shape:
        return [('shape', '%s: shape %r, expected %r' % (what, ld.shape,
                                                         evals.shape))]
    judge = ~dontcare
    lost = emask & ~lm & judge
    if lost.any():
        idx = tuple(int(i) for i in np.argwhere(lost)[0])
        out.append(('mask-lost', (
            '%s: %d cell(s) that must be masked (masked operand or '
            'non-finite result) are unmasked, e.g. %r holds %r (library '
            'mask %s, expected %s)' % (what, int(lost.sum()), idx,
                                       ld[lost].ravel()[0].item(),
                                       lm.astype(int).tolist(),
                                       emask.astype(int).tolist()))))
    extra = lm & ~emask & judge
    if extra.any():
        out.append(('mask-extra', (
            '%s: cells masked without cause (library mask %s, expected %s)'
            % (what, lm.astype(int).tolist(), emask.astype(int).tolist()))))
    keep = judge & ~emask & ~lm
    if keep.any():
        with np.errstate(all='ignore'):
            lv = ld[keep].astype('f8')
            ev = evals[keep].astype('f8')
            ok = np.isclose(lv, ev, rtol=rtol, atol=0.0, equal_nan=True)
        if not ok.all():
            out.append(('values', '%s: values differ beyond rtol=%g (got '
                        '%s, expected %s)' % (what, rtol, S._short(ld[keep]),
                                              S._short(evals[keep]))))
    return out


def raw(mv):
    return (np.asarray(np.ma.getdata(mv.data)),
            np.ma.getmaskarray(mv.data) if mv.masked
            else np.zeros(np.shape(mv.data), bool))


def holds_special(a):
    if a.dtype.kind == 'f':
        return bool((~np.isfinite(a)).any() or (a == 0).any())
    return bool((a == 0).any())


def build(case):
    f = S.build_file(case['file'])
    if case.get('coords'):
        f.setCoords(list(case['coords']))
    return f


def check_case(case):
    """The first call and every further call in case['more'] are applied to
    the SAME input objects; each result is judged against the model of the
    ORIGINAL spec, so a call that corrupts its input shows up as a wrong
    later result (failures of later calls carry '@later-call')."""
    kind = case['kind']
    r = Result()
    m = S.model_of(case['file'])
    f = build(case)
    more = list(case.get('more') or [])
    r.label('calls:%d' % (1 + len(more)))
    if kind == 'op':
        objs = dict(ma=m, mb=S.model_of(case['other']), fa=f,
                    fb=S.build_file(case['other']))
        steps = [dict(case, op=o) for o in [case['op']] + more]
        step = _op_step
    elif kind == 'eval':
        objs = dict(m=m, f=f)
        steps = [dict(case, **c) for c in [{}] + more]
        step = _eval_step
    else:
        objs = dict(m=m, f=f)
        steps = [dict(case, **c) for c in [{}] + more]
        step = _mask_step
    nt = False
    for i, sub in enumerate(steps):
        n0 = len(r.failures)
        step(r, sub, objs, i > 0)
        nt = nt or r.nontrivial
        if i > 0:
            r.label('later-call-judged')
            for fl in r.failures[n0:]:
                fl.klass = (fl.klass + '@later-call') if fl.klass \
                    else '@later-call'
        if i == 0:
            first = (objs.pop('last_out', None), objs.pop('last_computed',
                                                          None))
        if r.failures or r.rejected:
            break
    chain = list(case.get('chain') or [])
    if chain and kind == 'op' and not r.failures and first[0] is not None:
        _run_chain(r, case, m, first, chain)
        nt = nt or r.nontrivial
    r.nontrivial = nt
    return r


def _observed(prev, out, computed):
    """model of a result that has already been judged: variables the step
    computed take the values and masks the library returned (they agree with
    the model within the stated tolerance; using them keeps tolerance, dtype
    and not-compared cells from leaking into the next step), variables the
    step passes through keep the model's arrays"""
    m2 = prev.copy()
    for name in computed:
        if name in out.variables and name in m2.vars:
            mv = m2.vars[name]
            arr = A.plain(out.variables[name][...])
            if not isinstance(arr, np.ma.MaskedArray):
                arr = np.ma.MaskedArray(arr, mask=np.zeros(arr.shape, bool))
            m2.vars[name] = S.MVar(name, mv.dims, arr, mv.attrs, mv.fill)
    return m2


def _run_chain(r, case, m, first, chain):
    """(f1 op f2) op2 f3, (f1 op f2).mask(..), (f1 op f2).eval(..): every
    step is applied to the previous RESULT; coordinate variables must pass
    through from the original left operand unchanged at every step"""
    out, computed = first
    model = m
    r.label('chain:%d' % len(chain))
    for ch in chain:
        if computed is None:
            return
        m2 = _observed(model, out, computed)
        n0 = len(r.failures)
        r.label('chained:' + ch['kind'])
        if ch['kind'] == 'op':
            objs = dict(ma=m2, mb=S.model_of(ch['other']), fa=out,
                        fb=S.build_file(ch['other']))
            _op_step(r, dict(case, op=ch['op'], entry='operator'), objs,
                     True)
        elif ch['kind'] == 'mask':
            objs = dict(m=m2, f=out)
            _mask_step(r, dict(case, entry=None, preds=ch['preds'],
                               where=ch['where'],
                               coordsflag=ch['coordsflag']), objs, True)
        else:
            objs = dict(m=m2, f=out)
            _eval_step(r, dict(case, stmts=ch['stmts'], sep=ch['sep'],
                               copyall=ch['copyall']), objs, True)
        for fl in r.failures[n0:]:
            fl.klass = (fl.klass + '@chained') if fl.klass else '@chained'
        if r.failures or ch['kind'] == 'eval':
            return
        out, computed = objs.get('last_out'), objs.get('last_computed')
        model = m2
        if out is None:
            return


# ------------------------------------------------------------------ operators
def _op_step(r, case, objs, later):
    op = case['op']
    r.label('kind:op', 'op:' + op)
    ma, mb, fa, fb = objs['ma'], objs['mb'], objs['fa'], objs['fb']
    coords = list(case.get('coords') or [])
    fn = OPF[op]
    nt = False
    plan = S.OD()
    numpy_raises = False
    for name, va in ma.vars.items():
        if name in coords:
            plan[name] = ('coord',)
            r.label('coord-passed-through')
            if name not in [d for d in ma.dims]:
                r.label('coord-is-data-variable')
            continue
        if name not in mb.vars:
            plan[name] = ('absent',)
            r.label('absent-on-right')
            continue
        a, am = raw(va)
        b, bm = raw(mb.vars[name])
        with np.errstate(all='ignore'):
            try:
                res = np.asarray(fn(a, b))
            except (ValueError, ZeroDivisionError, TypeError) as e:
                numpy_raises = True
                r.label('numpy-raises:' + type(e).__name__)
                plan[name] = ('raises',)
                continue
        emask = am | bm
        if res.dtype.kind in 'fc':
            bad = ~np.isfinite(res)
            if bad.any():
                nt = True
                r.label('non-finite-result')
            emask = emask | bad
        dontcare = np.zeros(res.shape, bool)
        if op in ('//', '%') and res.dtype.kind in 'iu':
            z = (b == 0)
            if z.any():
                r.label('int-zero-divisor-not-compared')
            dontcare |= z
        if op in ('/', '//', '%') and (res.dtype.kind == 'f' or
                                       b.dtype.kind == 'i'):
            with np.errstate(all='ignore'):
                dom = (np.abs(a.astype('f8')) * TINY >=
                       np.abs(b.astype('f8'))) & (b != 0)
                # numpy.ma evaluates the same test in the operands' own
                # dtypes, where abs(most negative integer) wraps around
                dom |= (np.absolute(a) * TINY >= np.absolute(b)) & (b != 0)
            if dom.any():
                r.label('divide-domain-edge-not-compared')
            dontcare |= dom
        if va.masked:
            nt = True
            r.label('masked-variable')
            if (am | bm).any():
                r.label('masked-operand-cell')
        if a.dtype.kind == 'i':
            nt = True
            r.label('int-variable')
        if a.dtype != b.dtype:
            nt = True
            r.label('operand-dtypes-differ:%s-%s' % (a.dtype.kind + str(
                a.dtype.itemsize), b.dtype.kind + str(b.dtype.itemsize)))
            with np.errstate(all='ignore'):
                narrowed = res.astype(a.dtype).astype(res.dtype)
                if res.dtype.kind != 'b' and not np.array_equal(
                        narrowed, res, equal_nan=True):
                    r.label('result-not-representable-in-left-dtype')
        if holds_special(a) or holds_special(b):
            nt = True
            r.label('zero/inf/nan-operand')
        if a.ndim == 0:
            r.label('scalar-variable')
        plan[name] = ('op', res, emask, dontcare, va)
    r.nontrivial = nt
    if case.get('entry') == 'pncbo':
        from PseudoNetCDF.core._functions import pncbo
        r.label('entry:pncbo')
        # the functional form takes the coordinate keys as an argument
        if 'fa_plain' not in objs:
            objs['fa_plain'] = S.build_file(case['file'])
        fa = objs['fa_plain']
        exc, out = attempt(lambda: pncbo(op, fa, fb, coordkeys=coords))
    else:
        exc, out = attempt(lambda: fn(fa, fb))
    if exc is not None:
        if numpy_raises:
            r.label('library-raises-with-numpy')
            return r
        r.fail('op-raises', '%s: %s' % (type(exc).__name__, str(exc)[:300]),
               where=exc_where(exc), klass=op)
        return r
    if numpy_raises:
        r.label('numpy-raises-library-returns(not judged)')
    for msg in S.wellformed(out, 'result'):
        r.fail('result-malformed', msg)
    if r.failures:
        return r
    want = {n: (l, u) for n, (l, u) in ma.dims.items()}
    for msg in A.cmp_dims(out, want, 'result'):
        r.fail('op-dims', msg)
    for name, p in plan.items():
        va = ma.vars[name]
        if name not in out.variables:
            r.fail('op-var-missing', 'variable %s missing from result' % name)
            continue
        ov = out.variables[name]
        if tuple(ov.dimensions) != tuple(va.dims):
            r.fail('op-var-dims', 'variable %s has dimensions %r, expected '
                   '%r' % (name, tuple(ov.dimensions), va.dims))
            continue
        if p[0] in ('coord', 'absent'):
            msg = S.cmp_array(ov, va.data, '%s variable %s' % (
                'coordinate' if p[0] == 'coord' else 'right-absent', name),
                bits=True)
            if msg:
                r.fail('op-passthrough-data', msg, klass=p[0])
            if p[0] == 'coord':
                msg = S.cmp_attrs(ov, va.attrs, 'coordinate variable %s' %
                                  name, skip=('fill_value',))
                if msg:
                    r.fail('op-passthrough-attrs', msg)
            continue
        if p[0] == 'raises':
            continue
        _, res, emask, dontcare, va = p
        for bad in cmp_cells(ov, res, emask, dontcare,
                             'variable %s = left %s right' % (name, op),
                             tol_for(res.dtype)):
            r.fail('op-' + bad[0], bad[1],
                   klass='masked-var' if va.masked else 'plain-var')
    if not numpy_raises:
        objs['last_out'] = out
        objs['last_computed'] = [n for n, p in plan.items() if p[0] == 'op']
    return r


# ------------------------------------------------------------------ eval
def _eval_step(r, case, objs, later):
    r.label('kind:eval', 'copyall:%s' % bool(case['copyall']),
            'stmts:%d' % len(case['stmts']))
    m, f = objs['m'], objs['f']
    src = case['sep'].join('%s = %s' % (t, render(e))
                           for t, e in case['stmts'])
    targets = [t for t, e in case['stmts']]
    ns = {k: A.plain(v.data) for k, v in m.vars.items()}
    env = {'np': np}
    with np.errstate(all='ignore'):
        try:
            exec(compile(src, '<model>', 'exec'), env, ns)
        except (ValueError, ZeroDivisionError, TypeError) as e:
            r.label('numpy-raises:' + type(e).__name__)
            if not later:
                r.rejected = True
            return r
    used = set()

    def walk(e):
        if e[0] == 'var':
            used.add(e[1])
        for x in e[1:]:
            if isinstance(x, list):
                walk(x)
        if e[0] in ('un', 'pow2', 'where', 'bin'):
            r.label('expr:' + (e[1] if e[0] in ('un', 'bin') else e[0]))
    for t, e in case['stmts']:
        walk(e)
    nt = False
    for n in used:
        if n in m.vars:
            if m.vars[n].masked:
                nt = True
                r.label('masked-operand')
            if m.vars[n].data.dtype.kind == 'i':
                nt = True
                r.label('int-variable')
            if np.ndim(m.vars[n].data) == 0:
                r.label('scalar-operands')
    for t in targets:
        d = np.asarray(np.ma.getdata(ns[t]))
        if d.dtype.kind == 'f' and (~np.isfinite(d)).any():
            nt = True
            r.label('non-finite-result')
    r.nontrivial = nt
    ok, out = guard(r, 'eval-raises',
                    lambda: f.eval(src, inplace=False,
                                   copyall=bool(case['copyall'])))
    if not ok:
        return r
    for msg in S.wellformed(out, 'result'):
        r.fail('result-malformed', msg)
    if r.failures:
        return r
    for t in targets:
        if t not in out.variables:
            r.fail('eval-target-missing', 'assigned variable %s is not in '
                   'the result (has %r)' % (t, list(out.variables.keys())))
            continue
        exp = ns[t]
        ev = np.asarray(np.ma.getdata(exp))
        em = np.ma.getmaskarray(exp) if isinstance(
            exp, np.ma.MaskedArray) else np.zeros(ev.shape, bool)
        # result dtype is not judged (0-d operands collapse to numpy scalars
        # with numpy's own promotion): the tolerance follows the coarser of
        # the two dtypes; a cell whose expected value is not finite may be
        # masked or not (numpy.ma masks domain violations for arrays but not
        # for collapsed 0-d scalars)
        ldt = np.asarray(np.ma.getdata(out.variables[t][...])).dtype
        nonfin = np.zeros(ev.shape, bool)
        if ev.dtype.kind == 'f':
            nonfin = ~np.isfinite(ev)
        for bad in cmp_cells(out.variables[t], ev, em, nonfin & ~em,
                             'eval %r -> %s' % (src, t),
                             max(tol_for(ev.dtype), tol_for(ldt))):
            r.fail('eval-' + bad[0], bad[1],
                   klass='masked' if isinstance(exp, np.ma.MaskedArray)
                   else 'plain')
    if case['copyall']:
        for name, mv in m.vars.items():
            if name not in out.variables:
                r.fail('eval-copyall-missing', 'copyall=True but variable '
                       '%s is missing' % name)
                continue
            msg = S.cmp_array(out.variables[name], mv.data,
                              'copied variable %s' % name, bits=True)
            if msg:
                r.fail('eval-copyall-data', msg)
    return r


# ------------------------------------------------------------------ mask
def _mask_step(r, case, objs, later):
    r.label('kind:mask')
    m, f = objs['m'], objs['f']
    coords = list(case.get('coords') or [])
    cflag = bool(case.get('coordsflag'))
    preds = [(n, v) for n, v in case['preds']]
    where = case.get('where')
    kw = {}
    for n, v in preds:
        kw[n] = v
        r.label('pred:' + n)
    wdims = None
    warr = None
    if where is not None:
        like = m.vars[where['like']]
        warr = np.array(where['bits'], dtype=bool).reshape(
            np.shape(like.data))
        kw['where'] = warr
        r.label('pred:where', 'where-dims:' + where['dims'])
        if where['dims'] == 'tuple':
            wdims = tuple(like.dims)
            kw['dims'] = wdims
        elif where['dims'] == 'list':
            wdims = tuple(like.dims)
            kw['dims'] = list(like.dims)
        elif where['dims'] == 'var':
            # the in-repo form: where=<boolean library variable>, whose
            # .dimensions select the variables it applies to
            from PseudoNetCDF import PseudoNetCDFVariable
            wdims = tuple(like.dims)
            kw['where'] = PseudoNetCDFVariable(None, 'cond', '?', wdims,
                                               values=warr.copy())
    if cflag:
        kw['coords'] = True
    npred = len(preds) + (1 if where is not None else 0)
    r.label('npred:%d' % npred, 'coords=%s' % cflag)
    nt = npred >= 2
    if case.get('entry') == 'mask_vals':
        from PseudoNetCDF.core import _functions as F
        r.label('entry:mask_vals')
        coords = [k for k in m.vars if k in F._metakeys]
        n0, v0 = preds[0]
        exc, out = attempt(lambda: F.mask_vals(f, '%s,%r' % (n0, v0)))
    else:
        exc, out = attempt(lambda: f.mask(**kw))
    plan = S.OD()
    numpy_raises = []
    for name, mv in m.vars.items():
        data, omask = raw(mv)
        if case.get('entry') == 'mask_vals' and data.ndim == 0:
            # the string form indexes var[:] and warns 'Cannot mask' for
            # 0-d variables; not judged
            r.label('mask_vals-0d-not-judged')
            continue
        if name in coords and not cflag:
            plan[name] = (data, omask, np.zeros(data.shape, bool), 'coord')
            r.label('coord-untouched')
            continue
        if name in coords:
            r.label('coord-masked-too')
        emask = omask.copy()
        dontcare = np.zeros(data.shape, bool)
        d8 = data.astype('f8')

        def cmpv(fn, v):
            # thresholds are compared mathematically (float64); float32
            # cells whose verdict changes when the threshold is first
            # rounded to float32 are not judged
            p = fn(d8, float(v))
            if data.dtype == np.float32:
                q = fn(data, np.float32(v))
                dontcare[...] |= (p != q)
            return p
        with np.errstate(all='ignore'):
            if warr is not None:
                if wdims is not None:
                    applies = tuple(mv.dims) == wdims
                else:
                    applies = data.shape == warr.shape
                if applies:
                    emask |= warr
                    r.label('where-applied')
            for n, v in sorted(preds, key=lambda x: LIBORDER.index(x[0])):
                if n == 'less':
                    emask |= cmpv(np.less, v)
                elif n == 'less_equal':
                    emask |= cmpv(np.less_equal, v)
                elif n == 'greater':
                    emask |= cmpv(np.greater, v)
                elif n == 'greater_equal':
                    emask |= cmpv(np.greater_equal, v)
                elif n == 'equal':
                    emask |= cmpv(np.equal, v)
                elif n == 'invalid':
                    if data.ndim == 0 and emask.all():
                        # numpy.ma.masked_invalid raises TypeError on a
                        # 0-d masked array whose only cell is masked
                        numpy_raises.append(name)
                    if data.dtype.kind == 'f':
                        emask |= ~np.isfinite(data)
                elif n == 'values':
                    if data.dtype.kind == 'f':
                        tol = 1e-8 + 1e-5 * abs(float(v))
                        dist = np.abs(d8 - float(v))
                        inn = (dist <= 0.5 * tol) | (d8 == float(v))
                        edge = (dist > 0.5 * tol) & (dist <= 2 * tol) & \
                            (d8 != float(v))
                        emask |= inn
                        dontcare |= edge
                    else:
                        with np.errstate(all='ignore'):
                            cv = np.array(v).astype(data.dtype)
                        if cv != v:
                            # numpy.ma.masked_values fills masked cells with
                            # the value cast to the (integer / boolean)
                            # dtype and re-derives the mask by ==value: when
                            # the cast changes the value, cells masked so
                            # far come back unmasked (numpy's doing)
                            dontcare |= emask
                            r.label('masked_values-cast-quirk-not-compared')
                        emask |= d8 == float(v)
        if mv.masked:
            nt = True
            r.label('already-masked-variable')
        if data.dtype.kind == 'i':
            nt = True
            r.label('int-variable')
        if data.dtype.kind == 'f' and (~np.isfinite(data)).any():
            nt = True
            r.label('non-finite-data')
        if (emask & ~omask).any():
            r.label('newly-masked-cells')
        if (~emask).any():
            r.label('cells-left-unmasked')
        plan[name] = (data, emask, dontcare, 'data')
    r.nontrivial = nt
    if exc is not None:
        if numpy_raises:
            r.label('numpy-raises:masked_invalid-on-masked-0d')
            return r
        r.fail('mask-raises', '%s: %s' % (type(exc).__name__,
                                          str(exc)[:300]),
               where=exc_where(exc))
        return r
    for msg in S.wellformed(out, 'result'):
        r.fail('result-malformed', msg)
    if r.failures:
        return r
    want = {n: (l, u) for n, (l, u) in m.dims.items()}
    for msg in A.cmp_dims(out, want, 'result'):
        r.fail('mask-dims', msg)
    for name, (data, emask, dontcare, tag) in plan.items():
        if name not in out.variables:
            r.fail('mask-var-missing', 'variable %s missing' % name)
            continue
        ov = out.variables[name]
        la = ov[...]
        ld = np.asarray(np.ma.getdata(la))
        lm = np.ma.getmaskarray(la)
        what = ('coordinate variable %s' if tag == 'coord'
                else 'variable %s') % name
        if ld.shape != data.shape:
            r.fail('mask-shape', '%s: shape %r, expected %r' % (
                what, ld.shape, data.shape))
            continue
        if ld.dtype != data.dtype:
            r.fail('mask-dtype', '%s: dtype %s, expected %s' % (
                what, ld.dtype, data.dtype), klass=tag)
            continue
        judge = ~dontcare
        if ((lm != emask) & judge).any():
            lost = (emask & ~lm & judge).any()
            r.fail('mask-cells-' + ('lost' if lost else 'extra'),
                   '%s: mask %s, expected %s (predicates %r%s)' % (
                       what, lm.astype(int).tolist(),
                       emask.astype(int).tolist(), case['preds'],
                       '' if where is None else ' + where/dims=' +
                       where['dims']),
                   klass=tag + ('/where-' + where['dims']
                                if where is not None else ''))
            continue
        keep = judge & ~emask
        if keep.any() and ld[keep].tobytes() != data[keep].tobytes():
            r.fail('mask-values-altered', '%s: unmasked values changed (got '
                   '%s, expected %s)' % (what, S._short(ld[keep]),
                                         S._short(data[keep])), klass=tag)
    objs['last_out'] = out
    objs['last_computed'] = [n for n, p in plan.items() if p[3] == 'data']
    return r


# ------------------------------------------------------------------ findings
def _masked_var_involved(spec):
    return any(v.get('mask') is not None or v.get('fill') is not None
               for v in spec['file']['vars'])


def _eval_operands(spec):
    """spec variables used by the expressions of an eval case"""
    used = []

    def walk(e):
        if e[0] == 'var':
            used.append(e[1])
        for x in e[1:]:
            if isinstance(x, list):
                walk(x)
    for call in [spec] + list(spec.get('more') or []):
        for t, e in call['stmts']:
            walk(e)
    byname = {v['name']: v for v in spec['file']['vars']}
    return [byname[n] for n in used if n in byname]


def _scalar_eval(spec, need_unmasked):
    if spec.get('kind') != 'eval':
        return False
    ops = _eval_operands(spec)
    if not ops or any(v['dims'] for v in ops):
        return False
    if not any(v.get('mask') is not None for v in ops):
        return False
    if need_unmasked and not any(v.get('mask') is None for v in ops):
        return False
    return True


known.register('C06-pncbo-mask-stripped',
               lambda spec, f: spec.get('kind') == 'op' and
               f.clause == 'op-mask-lost' and f.klass == 'masked-var' and
               _masked_var_involved(spec))
known.register('C06-mask-dims-list',
               lambda spec, f: spec.get('kind') == 'mask' and
               (spec.get('where') or {}).get('dims') == 'list' and
               f.clause == 'mask-cells-lost' and
               f.klass.endswith('/where-list'))
known.register('C06-eval-masked-scalar-raises',
               lambda spec, f: _scalar_eval(spec, False) and
               f.clause == 'eval-raises' and f.where.startswith(
                   'AttributeError@core/_variables.py:__new__'))
known.register('C06-eval-scalar-mask-lost',
               lambda spec, f: _scalar_eval(spec, True) and
               f.clause == 'eval-mask-lost')
